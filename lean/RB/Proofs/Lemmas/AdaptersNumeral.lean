/-
The documented numeral shapes and their value; failing-path lemmas for the matcher.
-/
import RB.Proofs.Lemmas.AdaptersRender
namespace RB.Adapters

/-- the documented numeral shapes: `D+`, `D+.D*`, `.D+`, each with an optional exponent `(e|E)[+-]?D+` -/
structure Numeral where
  ip : List Char
  fp : Option (List Char)
  exp : Option (Char × Option Char × List Char)

def Numeral.mant (n : Numeral) : List Char :=
  n.ip ++ (match n.fp with | some f => '.' :: f | none => [])
def Numeral.expText (n : Numeral) : List Char :=
  match n.exp with
  | some (e, sg, ds) => e :: ((match sg with | some s => [s] | none => []) ++ ds)
  | none => []
def Numeral.render (n : Numeral) : List Char := n.mant ++ n.expText
def Numeral.mantVal (n : Numeral) : Rat := decVal n.ip (n.fp.getD [])
def Numeral.value (n : Numeral) : Rat :=
  match n.exp with
  | none => n.mantVal
  | some (_, sg, ds) => scale n.mantVal (sg == some '-') (digitsNat ds)

structure Numeral.Valid (n : Numeral) : Prop where
  ip : ∀ c ∈ n.ip, isDigit c = true
  fp : ∀ f, n.fp = some f → ∀ c ∈ f, isDigit c = true
  nonempty : n.ip ≠ [] ∨ ∃ f, n.fp = some f ∧ f ≠ []
  exp : ∀ e sg ds, n.exp = some (e, sg, ds) →
    isE e = true ∧ (∀ s, sg = some s → s = '+' ∨ s = '-') ∧ Digits ds

theorem mant_notE (n : Numeral) (h : n.Valid) : ∀ c ∈ n.mant, (!isE c) = true := by
  intro c hc
  unfold Numeral.mant at hc
  rcases List.mem_append.mp hc with hc | hc
  · exact digit_notE c (h.ip c hc)
  · cases hf : n.fp with
    | none => simp [hf] at hc
    | some f =>
      simp only [hf, List.mem_cons] at hc
      rcases hc with hc | hc
      · subst hc; decide
      · exact digit_notE c (h.fp f hf c hc)

theorem expText_stop (n : Numeral) (h : n.Valid) : stopsAt (fun c => !isE c) n.expText := by
  unfold Numeral.expText
  cases he : n.exp with
  | none => exact stopsAt_nil _
  | some x =>
    obtain ⟨e, sg, ds⟩ := x
    apply stopsAt_cons
    simp [(h.exp e sg ds he).1]

theorem mant_split (n : Numeral) (h : n.Valid) :
    n.mant.takeWhile (fun c => c != '.') = n.ip ∧
    (n.mant.dropWhile (fun c => c != '.')).drop 1 = n.fp.getD [] := by
  unfold Numeral.mant
  cases hf : n.fp with
  | none =>
    obtain ⟨a, b⟩ := takeWhile_all (p := fun c => c != '.') n.ip [] (fun c hc => digit_notDot c (h.ip c hc)) (stopsAt_nil _)
    simp only [List.append_nil] at a b ⊢
    simp [a, b]
  | some f =>
    obtain ⟨a, b⟩ := takeWhile_all (p := fun c => c != '.') n.ip ('.' :: f) (fun c hc => digit_notDot c (h.ip c hc))
      (stopsAt_cons _ _ _ (by decide))
    simp [a, b]

theorem digit_ne_sign (d : Char) (h : isDigit d = true) : d ≠ '-' ∧ d ≠ '+' := by
  unfold isDigit at h
  simp only [Bool.and_eq_true, decide_eq_true_eq] at h
  constructor <;> (intro e; subst e; simp at h)

/-- the value of a captured numeral is the value of the numeral that was rendered (all four mantissa
shapes, with and without exponent) -/
theorem numeralVal_render (n : Numeral) (h : n.Valid) : numeralVal n.render = n.value := by
  obtain ⟨t1, d1⟩ := takeWhile_all (p := fun c => !isE c) n.mant n.expText (mant_notE n h) (expText_stop n h)
  obtain ⟨t2, d2⟩ := mant_split n h
  unfold numeralVal Numeral.render
  simp only [t1, d1, t2, d2]
  unfold Numeral.value Numeral.expText Numeral.mantVal decVal
  cases he : n.exp with
  | none => simp
  | some x =>
    obtain ⟨e, sg, ds⟩ := x
    obtain ⟨_, hs, hd⟩ := h.exp e sg ds he
    simp only [List.drop_succ_cons, List.drop_zero]
    cases hsg : sg with
    | none =>
      simp only [List.nil_append]
      obtain ⟨hne, hdd⟩ := hd
      cases hds : ds with
      | nil => exact absurd hds hne
      | cons d r =>
        obtain ⟨n1, n2⟩ := digit_ne_sign d (hdd d (by simp [hds]))
        split
        · rename_i heq; cases heq
        · rename_i heq; simp at heq; exact absurd heq.1 n1
        · rename_i heq; simp at heq; exact absurd heq.1 n2
        · simp
    | some s =>
      rcases hs s hsg with rfl | rfl
      · simp
      · simp



/-! ## failing paths -/

/-- a greedy run fails when the continuation fails after every number of characters it may keep -/
theorem starM_none {α : Type} (p : Char → Bool) (xs rest : List Char) (k : List Char → Option α)
    (hxs : ∀ c ∈ xs, p c = true) (hstop : stopsAt p rest)
    (h : ∀ i, i ≤ xs.length → k (xs.drop i ++ rest) = none) : starM p (xs ++ rest) k = none := by
  induction xs with
  | nil =>
    have h0 := h 0 (by simp)
    simp only [List.drop_nil, List.nil_append] at h0 ⊢
    cases rest with
    | nil => simpa [starM] using h0
    | cons c cs => have := hstop c cs rfl; simp [starM, this, h0]
  | cons x xs ih =>
    have hx := hxs x (by simp)
    have ih' := ih (fun c hc => hxs c (by simp [hc])) (fun i hi => by simpa using h (i + 1) (by simp; omega))
    have h0 := h 0 (by simp)
    simp only [List.drop_zero] at h0
    simp only [List.cons_append, starM, hx, if_true, ih']
    exact h0

theorem m_plus_none {α : Type} (p : Char → Bool) (xs rest : List Char) (c : Caps)
    (k : List Char → Caps → Option α) (hxs : ∀ x ∈ xs, p x = true) (hstop : stopsAt p rest)
    (h : ∀ i, 1 ≤ i → i ≤ xs.length → k (xs.drop i ++ rest) c = none) :
    (Re.plus p).m (xs ++ rest) c k = none := by
  cases xs with
  | nil =>
    simp only [List.nil_append]
    cases rest with
    | nil => simp [Re.m]
    | cons a r => have := hstop a r rfl; simp [Re.m, this]
  | cons x xs =>
    simp only [List.cons_append, Re.m, hxs x (by simp), if_true]
    apply starM_none p xs rest _ (fun y hy => hxs y (by simp [hy])) hstop
    intro i hi
    simpa using h (i + 1) (by omega) (by simp; omega)

theorem m_star_none {α : Type} (p : Char → Bool) (xs rest : List Char) (c : Caps)
    (k : List Char → Caps → Option α) (hxs : ∀ x ∈ xs, p x = true) (hstop : stopsAt p rest)
    (h : ∀ i, i ≤ xs.length → k (xs.drop i ++ rest) c = none) :
    (Re.star p).m (xs ++ rest) c k = none := by
  simp only [Re.m]
  exact starM_none p xs rest _ hxs hstop h

/-- `p+` fails at once on a text whose first character is not in the class -/
theorem m_plus_none_head {α : Type} (p : Char → Bool) (s : List Char) (c : Caps)
    (k : List Char → Caps → Option α) (h : stopsAt p s) : (Re.plus p).m s c k = none := by
  cases s with
  | nil => simp [Re.m]
  | cons a r => have := h a r rfl; simp [Re.m, this]

end RB.Adapters
