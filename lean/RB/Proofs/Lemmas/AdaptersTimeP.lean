/-
C05, `time -p`: the documented lines, what the two patterns do on them, what the loop returns.
-/
import RB.Proofs.Lemmas.AdaptersNumeral
namespace RB.Adapters

/-- a word of `time -p` output (`real`, `user`, `sys`, …): letters and underscores -/
def TWord (w : List Char) : Prop := w ≠ [] ∧ ∀ c ∈ w, (isAlpha c || c == '_') = true

theorem tword_char {c : Char} (h : (isAlpha c || c == '_') = true) :
    isWord c = true ∧ isDigit c = false ∧ isSpace c = false := by
  simp only [Bool.or_eq_true, beq_iff_eq] at h
  rcases h with h | h
  · unfold isAlpha at h
    simp only [Bool.or_eq_true, Bool.and_eq_true, decide_eq_true_eq] at h
    refine ⟨by simp [isWord, isAlpha, h], ?_, ?_⟩
    · unfold isDigit; simp only [Bool.and_eq_false_iff, decide_eq_false_iff_not]; omega
    · unfold isSpace
      simp only [Bool.or_eq_false_iff, Bool.and_eq_false_iff, decide_eq_false_iff_not, beq_eq_false_iff_ne]
      omega
  · subst h; decide

theorem drop_cases (w : List Char) (i : Nat) : w.drop i = [] ∨ ∃ c t, w.drop i = c :: t ∧ c ∈ w := by
  cases h : w.drop i with
  | nil => exact Or.inl rfl
  | cons c t => exact Or.inr ⟨c, t, rfl, List.mem_of_mem_drop (by rw [h]; simp)⟩

theorem stripBy_all (p : Char → Bool) (s : List Char) (h : ∀ c ∈ s, p c = true) : stripBy p s = [] := by
  unfold stripBy
  have : s.dropWhile p = [] := by
    induction s with
    | nil => rfl
    | cons c cs ih => simp [List.dropWhile, h c (by simp)]; exact ih (fun x hx => h x (by simp [hx]))
  simp [this]

theorem dropWhile_stop (p : Char → Bool) (s : List Char) (h : stopsAt p s) : s.dropWhile p = s := by
  cases s with
  | nil => rfl
  | cons c r => simp [List.dropWhile, h c r rfl]

theorem stripBy_none (p : Char → Bool) (s : List Char) (h1 : stopsAt p s) (h2 : stopsAt p s.reverse) :
    stripBy p s = s := by
  unfold stripBy
  rw [dropWhile_stop p s h1, dropWhile_stop p _ h2, List.reverse_reverse]

theorem digits_stop_rev {ds : List Char} (p : Char → Bool) (h : ∀ c ∈ ds, p c = false) : stopsAt p ds.reverse := by
  intro c r e
  exact h c (by have : c ∈ ds.reverse := by rw [e]; simp
                simpa using this)



theorem tword_isWord {w : List Char} (h : TWord w) : ∀ c ∈ w, isWord c = true :=
  fun c hc => (tword_char (h.2 c hc)).1

theorem blank_stop_word {ws : List Char} (rest : List Char) (h : Blank ws) : stopsAt isWord (ws ++ rest) := by
  obtain ⟨hne, hd⟩ := h
  cases ws with
  | nil => exact absurd rfl hne
  | cons d ds =>
    exact stopsAt_cons _ _ _ (space_props d (hd d (by simp))).2.1

theorem digit_ne_m (d : Char) (h : isDigit d = true) : d ≠ 'm' := by
  unfold isDigit at h
  simp only [Bool.and_eq_true, decide_eq_true_eq] at h
  intro e; subst e; simp at h

/-- criterion of a `time -p` line: `real` is the total -/
def timeCrit (w : List Char) : List Char := if w = "real".toList then totalName else w

/-- `^(\\w+)\\s*(\\d+)m(\\d+\\.\\d+)s` does not match `word blanks D.D…` -/
theorem reTime_none_simple (w ws ip fp tail : List Char) (hw : TWord w) (hws : Blank ws) (hi : Digits ip) :
    reTime.pmatch (w ++ (ws ++ (ip ++ ('.' :: (fp ++ tail))))) = none := by
  unfold Re.pmatch reTime
  simp only [seqs, str]
  generalize hR3 : (Re.lit "m".toList).seq ((Re.grp 3 ((Re.plus isDigit).seq ((Re.lit ".".toList).seq (Re.plus isDigit)))).seq
    (Re.lit "s".toList)) = R3
  have hA : ∀ (t : List Char) (c : Caps) (k : List Char → Caps → Option Caps),
      (t = [] ∨ ∃ d r, t = d :: r ∧ d ∈ ip) → R3.m (t ++ ('.' :: (fp ++ tail))) c k = none := by
    intro t c k ht
    subst hR3
    rw [m_seq]
    rcases ht with rfl | ⟨d, r, rfl, hd⟩
    · simp [Re.m, stripPrefix]
    · have := digit_ne_m d (hi.2 d hd)
      simp [Re.m, stripPrefix, Ne.symm this]
  have hB : ∀ (c : Caps) (k : List Char → Caps → Option Caps),
      ((Re.grp 2 (Re.plus isDigit)).seq R3).m (ip ++ ('.' :: (fp ++ tail))) c k = none := by
    intro c k
    rw [m_seq, m_grp]
    apply m_plus_none _ _ _ _ _ hi.2 (stopsAt_cons _ _ _ (by decide))
    intro i _ _
    exact hA _ _ _ (drop_cases ip i)
  have hB' : ∀ (s : List Char) (c : Caps) (k : List Char → Caps → Option Caps), stopsAt isDigit s →
      ((Re.grp 2 (Re.plus isDigit)).seq R3).m s c k = none := by
    intro s c k hs
    rw [m_seq, m_grp]
    exact m_plus_none_head _ _ _ _ hs
  have hC : ∀ (c : Caps) (k : List Char → Caps → Option Caps),
      ((Re.star isSpace).seq ((Re.grp 2 (Re.plus isDigit)).seq R3)).m (ws ++ (ip ++ ('.' :: (fp ++ tail)))) c k = none := by
    intro c k
    rw [m_seq]
    apply m_star_none _ _ _ _ _ (blank_space hws) (digits_space_stop _ hi)
    intro j _
    rcases drop_cases ws j with h | ⟨a, t, h, ha⟩
    · rw [h]; exact hB _ _
    · rw [h]
      apply hB'
      exact stopsAt_cons _ _ _ (space_props a (hws.2 a ha)).2.2.1
  have hC' : ∀ (a : Char) (r : List Char) (c : Caps) (k : List Char → Caps → Option Caps),
      (isAlpha a || a == '_') = true →
      ((Re.star isSpace).seq ((Re.grp 2 (Re.plus isDigit)).seq R3)).m (a :: r) c k = none := by
    intro a r c k ha
    rw [m_seq]
    have := m_star_none isSpace [] (a :: r) c (fun s' c' => ((Re.grp 2 (Re.plus isDigit)).seq R3).m s' c' k)
      (by simp) (stopsAt_cons _ _ _ (tword_char ha).2.2)
      (by intro i _; simp only [List.drop_nil, List.nil_append]
          exact hB' _ _ _ (stopsAt_cons _ _ _ (tword_char ha).2.1))
    simpa using this
  rw [m_seq, m_grp]
  apply m_plus_none _ _ _ _ _ (tword_isWord hw) (blank_stop_word _ hws)
  intro i _ _
  rcases drop_cases w i with h | ⟨a, t, h, ha⟩
  · rw [h]; exact hC _ _
  · rw [h]; exact hC' a _ _ _ (hw.2 a ha)



theorem blank_digit_false {ws : List Char} (h : Blank ws) : ∀ c ∈ ws, isDigit c = false := by
  intro c hc; exact (space_props c (h.2 c hc)).2.2.1

/-- `^(\w+)(\s*)(\d+\.\d+)` on `word blanks D.D tail` -/
theorem reTime2_simple (w ws ip fp tail : List Char) (hw : TWord w) (hws : Blank ws) (hi : Digits ip)
    (hf : Digits fp) (ht : stopsAt isDigit tail) :
    reTime2.pmatch (w ++ (ws ++ (ip ++ ('.' :: (fp ++ tail))))) = some [(3, ip ++ '.' :: fp), (2, ws), (1, w)] := by
  unfold Re.pmatch reTime2
  simp only [seqs, str, m_seq, m_grp]
  apply m_plus_first _ _ _ _ _ _ hw.1 (tword_isWord hw) (blank_stop_word _ hws)
  apply m_star_first _ _ _ _ _ _ (blank_space hws) (digits_space_stop _ hi)
  apply m_plus_first _ _ _ _ _ _ hi.1 hi.2 (stopsAt_cons _ _ _ (by decide))
  have : ('.' :: (fp ++ tail)) = ".".toList ++ (fp ++ tail) := rfl
  rw [this, m_lit]
  apply m_plus_first _ _ _ _ _ _ hf.1 hf.2 ht
  refine congrArg some (List.cons_eq_cons.mpr ⟨Prod.ext rfl ?_, List.cons_eq_cons.mpr ⟨Prod.ext rfl ?_,
    List.cons_eq_cons.mpr ⟨Prod.ext rfl ?_, rfl⟩⟩⟩)
  · exact take_prefix _ _ _ ⟨tail, by simp⟩ (by len_tac)
  · exact take_prefix _ _ _ (List.prefix_append _ _) (by len_tac)
  · exact take_prefix _ _ _ (List.prefix_append _ _) (by len_tac)

/-- `^(\w+)\s*(\d+)m(\d+\.\d+)s` on `word blanks Dm D.Ds tail` -/
theorem reTime_minutes (w ws mn ip fp tail : List Char) (hw : TWord w) (hws : Blank ws) (hm : Digits mn)
    (hi : Digits ip) (hf : Digits fp) :
    reTime.pmatch (w ++ (ws ++ (mn ++ ('m' :: (ip ++ ('.' :: (fp ++ ('s' :: tail)))))))) =
      some [(3, ip ++ '.' :: fp), (2, mn), (1, w)] := by
  unfold Re.pmatch reTime
  simp only [seqs, str, m_seq, m_grp]
  apply m_plus_first _ _ _ _ _ _ hw.1 (tword_isWord hw) (blank_stop_word _ hws)
  apply m_star_first _ _ _ _ _ _ (blank_space hws) (digits_space_stop _ hm)
  apply m_plus_first _ _ _ _ _ _ hm.1 hm.2 (stopsAt_cons _ _ _ (by decide))
  have e1 : ('m' :: (ip ++ ('.' :: (fp ++ ('s' :: tail))))) = "m".toList ++ (ip ++ ('.' :: (fp ++ ('s' :: tail)))) := rfl
  rw [e1, m_lit]
  apply m_plus_first _ _ _ _ _ _ hi.1 hi.2 (stopsAt_cons _ _ _ (by decide))
  have e2 : ('.' :: (fp ++ ('s' :: tail))) = ".".toList ++ (fp ++ ('s' :: tail)) := rfl
  rw [e2, m_lit]
  apply m_plus_first _ _ _ _ _ _ hf.1 hf.2 (stopsAt_cons _ _ _ (by decide))
  have e3 : ('s' :: tail) = "s".toList ++ tail := rfl
  rw [e3, m_lit]
  refine congrArg some (List.cons_eq_cons.mpr ⟨Prod.ext rfl ?_, List.cons_eq_cons.mpr ⟨Prod.ext rfl ?_,
    List.cons_eq_cons.mpr ⟨Prod.ext rfl ?_, rfl⟩⟩⟩)
  · exact take_prefix _ _ _ ⟨"s".toList ++ tail, by simp⟩ (by len_tac)
  · exact take_prefix _ _ _ (List.prefix_append _ _) (by len_tac)
  · exact take_prefix _ _ _ (List.prefix_append _ _) (by len_tac)

theorem strip_blank {ws : List Char} (h : Blank ws) : strip ws = [] :=
  stripBy_all _ _ (blank_space h)

theorem strip_digits {ds : List Char} (h : Digits ds) : strip ds = ds := by
  apply stripBy_none
  · obtain ⟨hne, hd⟩ := h
    cases ds with
    | nil => exact absurd rfl hne
    | cons d r => exact stopsAt_cons _ _ _ (digit_not_space d (hd d (by simp)))
  · exact digits_stop_rev _ (fun c hc => digit_not_space c (h.2 c hc))



/-- a line of `time -p` (POSIX: `real 1.50`) or of the shell's `time` (`real 0m1.500s`) -/
structure TPLine where
  w : List Char
  ws : List Char
  mn : Option (List Char)
  ip : List Char
  fp : List Char
  tail : List Char

structure TPLine.Valid (x : TPLine) : Prop where
  w : TWord x.w
  ws : Blank x.ws
  mn : ∀ m, x.mn = some m → Digits m
  ip : Digits x.ip
  fp : Digits x.fp
  tail : x.mn = none → stopsAt isDigit x.tail

def TPLine.render (x : TPLine) : List Char :=
  x.w ++ (x.ws ++ (match x.mn with
    | none => x.ip ++ ('.' :: (x.fp ++ x.tail))
    | some m => m ++ ('m' :: (x.ip ++ ('.' :: (x.fp ++ ('s' :: x.tail)))))))

/-- minutes · 60 + seconds, in ms -/
def TPLine.value (x : TPLine) : Rat :=
  ((match x.mn with | none => 0 | some m => decVal m []) * 60 + decVal x.ip x.fp) * 1000

theorem classifyTimeP_render (x : TPLine) (hx : x.Valid) :
    classifyTimeP x.render = some (timeCrit x.w, .flt x.value) := by
  unfold TPLine.render TPLine.value classifyTimeP
  cases hmn : x.mn with
  | none =>
    simp only
    rw [reTime_none_simple x.w x.ws x.ip x.fp x.tail hx.w hx.ws hx.ip,
        reTime2_simple x.w x.ws x.ip x.fp x.tail hx.w hx.ws hx.ip hx.fp (hx.tail hmn)]
    simp only [capD, cap, Option.getD, strip_blank hx.ws, timeCrit]
    simp [numeralVal_decimal x.ip x.fp hx.ip.2 hx.fp.2, strip_blank hx.ws]
  | some m =>
    have hm := hx.mn m hmn
    simp only
    rw [reTime_minutes x.w x.ws m x.ip x.fp x.tail hx.w hx.ws hm hx.ip hx.fp]
    simp only [capD, cap, Option.getD, strip_digits hm, timeCrit]
    have hne : m.isEmpty = false := by
      cases m with
      | nil => exact absurd rfl hm.1
      | cons a b => rfl
    have hne' : m ≠ [] := hm.1
    simp [hne', strip_digits hm, numeralVal_decimal x.ip x.fp hx.ip.2 hx.fp.2, numeralVal_int m hm.2]



/-! ## what the `time -p` loop returns -/

def tpMeas (inv : Nat) (x : List Char × Val) : Meas :=
  { invocation := inv, iteration := 1, criterion := x.1, unit := msUnit, value := x.2 }

/-- all measurements that are not totals, in order; the last total -/
def tpOthers (inv : Nat) (items : List (List Char × Val)) : List Meas :=
  (items.map (tpMeas inv)).filter (fun m => !m.isTotal)
def tpTotal (inv : Nat) : List (List Char × Val) → Option Meas → Option Meas
  | [], t => t
  | x :: r, t => tpTotal inv r (if (tpMeas inv x).isTotal then some (tpMeas inv x) else t)

theorem timePLoop_items (marker : Line → Bool) (classify : Line → Option (List Char × Val)) (inv : Nat)
    (items : List (Line × (List Char × Val))) :
    ∀ st, TimePInv inv st →
      (∀ x ∈ items, marker x.1 = false ∧ classify x.1 = some x.2) →
      timePLoop marker classify inv (items.map (·.1)) st =
        match tpTotal inv (items.map (·.2)) st.totalMeasure with
        | some t => .ok [st.cur.ms ++ tpOthers inv (items.map (·.2)) ++ [t]]
        | none => .notParseable := by
  induction items with
  | nil =>
    intro st hst _
    simp only [List.map_nil, timePLoop, tpTotal, tpOthers, List.filter_nil, List.append_nil]
    cases ht : st.totalMeasure with
    | none => simp [hst.done0, finish]
    | some t =>
      obtain ⟨htt, hti, htit⟩ := hst.tot t ht
      obtain ⟨c', hc', hms, _⟩ := add_total hst.cur t htt hti htit
      simp [hc', hst.done0, finish, hms]
  | cons x xs ih =>
    intro st hst h
    obtain ⟨hm, hc⟩ := h x (by simp)
    obtain ⟨l, crit, v⟩ := x
    simp only at hm hc
    have hrest := fun y hy => h y (List.mem_cons_of_mem _ hy)
    simp only [List.map_cons, timePLoop, hm, Bool.false_eq_true, if_false]
    -- the step
    by_cases hmt : (tpMeas inv (crit, v)).isTotal = true
    · have hstep : timePStep classify inv st l =
          .ok { st with totalMeasure := some (tpMeas inv (crit, v)) } := by
        have hct : (crit == totalName) = true := by simpa [tpMeas, Meas.isTotal] using hmt
        simp [timePStep, hc, Meas.isTotal, hct, tpMeas, hst.it1]
      have hinv' : TimePInv inv { st with totalMeasure := some (tpMeas inv (crit, v)) } :=
        ⟨hst.it1, hst.done0, hst.cur, by intro t ht; simp at ht; subst ht; exact ⟨hmt, rfl, rfl⟩⟩
      have hno : ¬ (st.cur.ms.length = 3 ∧ st.cur.total.isSome = true) := by simp [hst.cur.noTotal]
      simp only [hstep, hno, if_false]
      rw [ih _ hinv' hrest]
      simp [tpTotal, tpOthers, tpMeas, Meas.isTotal, (by simpa [tpMeas, Meas.isTotal] using hmt : (crit == totalName) = true)]
    · have hmt' : (tpMeas inv (crit, v)).isTotal = false := by simpa using hmt
      have hmt2 : ({ invocation := inv, iteration := st.it, criterion := crit, unit := msUnit, value := v } : Meas).isTotal = false := by
        simpa [tpMeas, Meas.isTotal] using hmt'
      obtain ⟨c', hc', hms, ho⟩ := add_nonTotal hst.cur
        { invocation := inv, iteration := st.it, criterion := crit, unit := msUnit, value := v } hmt2 rfl hst.it1
      have hct : (crit == totalName) = false := by simpa [tpMeas, Meas.isTotal] using hmt'
      have hstep : timePStep classify inv st l = .ok { st with cur := c' } := by
        simp only [timePStep, hc, Meas.isTotal, hct, Bool.false_eq_true, if_false, hc']
      have hinv' : TimePInv inv { st with cur := c' } := ⟨hst.it1, hst.done0, ho, hst.tot⟩
      have hno : ¬ (c'.ms.length = 3 ∧ c'.total.isSome = true) := by simp [ho.noTotal]
      simp only [hstep, hno, if_false]
      rw [ih _ hinv' hrest]
      simp [tpTotal, tpOthers, hms, tpMeas, hst.it1, Meas.isTotal, hct]

end RB.Adapters
