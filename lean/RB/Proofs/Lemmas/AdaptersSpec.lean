/-
C05: iterations given as rendered lines together with what they mean (`Rendered`), and the data
points they stand for.
-/
import RB.Proofs.Lemmas.AdaptersValidation
namespace RB.Adapters

/-! ## rendered lines with their meaning -/

/-- `l` is a line of the adapter's format that means `lm`: it stops nothing, carries no failure marker
and is classified as `lm` (the `classify_render` fact of the line) -/
def Rendered (cfg : Cfg) (l : Line) (lm : LineMeas) : Prop :=
  cfg.stop l = false ∧ cfg.marker l = false ∧ cfg.classify l = some lm

/-- an iteration as printed: lines with further criteria, then the line with the total -/
abbrev SpecGroup := List (Line × LineMeas) × (Line × LineMeas)

def SpecGroup.pairs (g : SpecGroup) : List (Line × LineMeas) := g.1 ++ [g.2]

/-- the data points the printed iterations stand for -/
def specExpected (inv : Nat) : Nat → List SpecGroup → List (List Meas)
  | _, [] => []
  | i, g :: gs =>
    (g.pairs.flatMap (fun p => (p.2.pre ++ [p.2.main]).map (stamp inv i))) :: specExpected inv (i + 1) gs

structure SpecGroup.Good (cfg : Cfg) (g : SpecGroup) : Prop where
  rendered : ∀ p ∈ g.pairs, Rendered cfg p.1 p.2
  crit : ∀ p ∈ g.1, p.2.main.isTotal = false
  tot : g.2.2.main.isTotal = true

def SpecGroup.toGroup (g : SpecGroup) : Group := (g.1.map (·.1), g.2.1)

theorem specGroup_good (cfg : Cfg) (g : SpecGroup) (h : g.Good cfg) : GoodGroup cfg g.toGroup := by
  refine ⟨?_, ?_, ?_⟩
  · intro l hl
    simp only [SpecGroup.toGroup, Group.lines, List.mem_append, List.mem_map, List.mem_cons,
      List.not_mem_nil, or_false] at hl
    rcases hl with ⟨p, hp, rfl⟩ | rfl
    · have := h.rendered p (by simp [SpecGroup.pairs, hp]); exact ⟨this.1, this.2.1⟩
    · have := h.rendered g.2 (by simp [SpecGroup.pairs]); exact ⟨this.1, this.2.1⟩
  · intro l hl
    simp only [SpecGroup.toGroup, List.mem_map] at hl
    obtain ⟨p, hp, rfl⟩ := hl
    exact ⟨p.2, (h.rendered p (by simp [SpecGroup.pairs, hp])).2.2, h.crit p hp⟩
  · exact ⟨g.2.2, (h.rendered g.2 (by simp [SpecGroup.pairs])).2.2, h.tot⟩

theorem flatMap_congr' {α β : Type} (l : List α) (f g : α → List β) (h : ∀ x ∈ l, f x = g x) :
    l.flatMap f = l.flatMap g := by
  induction l with
  | nil => rfl
  | cons a r ih => simp [List.flatMap_cons, h a (by simp), ih (fun x hx => h x (by simp [hx]))]

theorem specExpected_eq (cfg : Cfg) (inv : Nat) (gs : List SpecGroup) (h : ∀ g ∈ gs, g.Good cfg) :
    ∀ i, groupsExpected cfg inv i (gs.map SpecGroup.toGroup) = specExpected inv i gs := by
  induction gs with
  | nil => intro i; rfl
  | cons g gs ih =>
    intro i
    simp only [List.map_cons, groupsExpected, specExpected, ih (fun x hx => h x (by simp [hx]))]
    congr 1
    have hg := h g (by simp)
    simp only [SpecGroup.toGroup, Group.lines, SpecGroup.pairs, List.flatMap_append, List.flatMap_cons,
      List.flatMap_nil, List.append_nil, List.flatMap_map]
    congr 1
    · apply flatMap_congr'
      intro p hp
      simp [lineMeas, (hg.rendered p (by simp [SpecGroup.pairs, hp])).2.2]
    · simp [lineMeas, (hg.rendered g.2 (by simp [SpecGroup.pairs])).2.2]

end RB.Adapters
