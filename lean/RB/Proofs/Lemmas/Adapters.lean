/-
Helper definitions and lemmas for C12 (well-formedness of what the parse
loops return) — the statements of the property are in `RB/Proofs/C12.lean`.
-/
import RB.Model.Adapters

namespace RB.Adapters

/-! ## what "well formed" means -/

/-- a data point of iteration `it`: one or more measurements, the last one is
the only `total`, all stamped with `(inv, it)` -/
def DPwf (inv it : Nat) (ms : List Meas) : Prop :=
  ∃ init last, ms = init ++ [last] ∧ last.isTotal = true ∧ (∀ m ∈ init, m.isTotal = false) ∧
    (∀ m ∈ ms, m.invocation = inv ∧ m.iteration = it)

/-- data points numbered `i, i+1, …` -/
def WFfrom (inv : Nat) : Nat → List (List Meas) → Prop
  | _, [] => True
  | i, d :: ds => DPwf inv i d ∧ WFfrom inv (i + 1) ds

/-- a non-empty list of well-formed data points numbered from 1 -/
def WF (inv : Nat) (dps : List (List Meas)) : Prop := dps ≠ [] ∧ WFfrom inv 1 dps

/-- the property's disjunction: a clean reject or a well-formed result; never
another exception -/
def OutcomeWF (inv : Nat) : Outcome → Prop
  | .ok dps => WF inv dps
  | .notParseable => True
  | .invalid => True
  | .crash _ => False

theorem WFfrom_append (inv : Nat) (a b : List (List Meas)) (i : Nat) :
    WFfrom inv i (a ++ b) ↔ WFfrom inv i a ∧ WFfrom inv (i + a.length) b := by
  induction a generalizing i with
  | nil => simp [WFfrom]
  | cons d ds ih =>
    simp only [List.cons_append, WFfrom, List.length_cons, ih]
    have : i + 1 + ds.length = i + (ds.length + 1) := by omega
    rw [this]; exact and_assoc.symm

/-! ## the open data point -/

/-- invariant of the open data point `cur` while iteration `it` is collected -/
structure Open (inv it : Nat) (cur : DP) : Prop where
  noTotal : cur.total = none
  nonTotal : ∀ m ∈ cur.ms, m.isTotal = false
  stamped : ∀ m ∈ cur.ms, m.invocation = inv ∧ m.iteration = it
  invOk : ∀ i, cur.invocation = some i → i = inv

theorem open_empty (inv it : Nat) : Open inv it DP.empty :=
  ⟨rfl, by simp [DP.empty], by simp [DP.empty], by simp [DP.empty]⟩

@[simp] theorem stamp_isTotal (inv it : Nat) (p : PreMeas) : (stamp inv it p).isTotal = p.isTotal := rfl
@[simp] theorem stamp_invocation (inv it : Nat) (p : PreMeas) : (stamp inv it p).invocation = inv := rfl
@[simp] theorem stamp_iteration (inv it : Nat) (p : PreMeas) : (stamp inv it p).iteration = it := rfl

/-- adding a non-total measurement of this iteration keeps the data point open -/
theorem add_nonTotal {inv it : Nat} {cur : DP} (h : Open inv it cur) (m : Meas)
    (hm : m.isTotal = false) (hi : m.invocation = inv) (hit : m.iteration = it) :
    ∃ cur', cur.add m = .ok cur' ∧ cur'.ms = cur.ms ++ [m] ∧ Open inv it cur' := by
  unfold DP.add
  cases hinv : cur.invocation with
  | none =>
    simp only [hm]
    refine ⟨_, rfl, rfl, ⟨h.noTotal, ?_, ?_, ?_⟩⟩
    · intro x hx; rcases List.mem_append.mp hx with hx | hx
      · exact h.nonTotal x hx
      · simp at hx; subst hx; exact hm
    · intro x hx; rcases List.mem_append.mp hx with hx | hx
      · exact h.stamped x hx
      · simp at hx; subst hx; exact ⟨hi, hit⟩
    · intro i hi'; simp at hi'; omega
  | some i =>
    have := h.invOk i hinv
    subst this
    simp only [hi, ne_eq, not_true_eq_false, if_false, hm]
    refine ⟨_, rfl, rfl, ⟨h.noTotal, ?_, ?_, ?_⟩⟩
    · intro x hx; rcases List.mem_append.mp hx with hx | hx
      · exact h.nonTotal x hx
      · simp at hx; subst hx; exact hm
    · intro x hx; rcases List.mem_append.mp hx with hx | hx
      · exact h.stamped x hx
      · simp at hx; subst hx; exact ⟨hi, hit⟩
    · intro j hj; simp at hj; omega

/-- adding the total of this iteration succeeds and completes a well-formed data point -/
theorem add_total {inv it : Nat} {cur : DP} (h : Open inv it cur) (m : Meas)
    (hm : m.isTotal = true) (hi : m.invocation = inv) (hit : m.iteration = it) :
    ∃ cur', cur.add m = .ok cur' ∧ cur'.ms = cur.ms ++ [m] ∧ DPwf inv it cur'.ms := by
  have hwf : DPwf inv it (cur.ms ++ [m]) := by
    refine ⟨cur.ms, m, rfl, hm, h.nonTotal, ?_⟩
    intro x hx; rcases List.mem_append.mp hx with hx | hx
    · exact h.stamped x hx
    · simp at hx; subst hx; exact ⟨hi, hit⟩
  unfold DP.add
  cases hinv : cur.invocation with
  | none =>
    simp only [hm, h.noTotal, if_true]
    exact ⟨_, rfl, rfl, hwf⟩
  | some i =>
    have := h.invOk i hinv
    subst this
    simp only [hi, ne_eq, not_true_eq_false, if_false, hm, h.noTotal, if_true]
    exact ⟨_, rfl, rfl, hwf⟩

/-- adding a list of non-total measurements -/
theorem addAll_nonTotal {inv it : Nat} (ps : List PreMeas) {cur : DP} (h : Open inv it cur)
    (hp : ∀ p ∈ ps, p.isTotal = false) :
    ∃ cur', cur.addAll (ps.map (stamp inv it)) = .ok cur' ∧
      cur'.ms = cur.ms ++ ps.map (stamp inv it) ∧ Open inv it cur' := by
  induction ps generalizing cur with
  | nil => exact ⟨cur, rfl, by simp, h⟩
  | cons p ps ih =>
    obtain ⟨c1, h1, h1ms, h1o⟩ := add_nonTotal h (stamp inv it p) (by simpa using hp p (by simp)) rfl rfl
    obtain ⟨c2, h2, h2ms, h2o⟩ := ih h1o (fun q hq => hp q (by simp [hq]))
    refine ⟨c2, ?_, ?_, h2o⟩
    · simp only [List.map_cons, DP.addAll, h1, h2]
    · simp [h2ms, h1ms]

/-- what one matching line does to an open data point -/
theorem addAll_line {inv it : Nat} (lm : LineMeas) {cur : DP} (h : Open inv it cur)
    (hp : ∀ p ∈ lm.pre, p.isTotal = false) :
    ∃ cur', cur.addAll ((lm.pre ++ [lm.main]).map (stamp inv it)) = .ok cur' ∧
      cur'.ms = cur.ms ++ (lm.pre ++ [lm.main]).map (stamp inv it) ∧
      (lm.main.isTotal = true → DPwf inv it cur'.ms) ∧ (lm.main.isTotal = false → Open inv it cur') := by
  obtain ⟨c1, h1, h1ms, h1o⟩ := addAll_nonTotal lm.pre h hp
  have happ : ∀ (xs : List Meas) (d : DP) (m : Meas), ∀ d1, d.addAll xs = .ok d1 →
      d.addAll (xs ++ [m]) = d1.add m := by
    intro xs
    induction xs with
    | nil => intro d m d1 hd; simp [DP.addAll] at hd; subst hd; simp [DP.addAll]; cases d.add m <;> rfl
    | cons x xs ih =>
      intro d m d1 hd
      simp only [DP.addAll] at hd
      simp only [List.cons_append, DP.addAll]
      cases hx : d.add x with
      | error e => simp [hx] at hd
      | ok d' => simp only [hx] at hd ⊢; exact ih d' m d1 hd
  have hsplit : (lm.pre ++ [lm.main]).map (stamp inv it) = lm.pre.map (stamp inv it) ++ [stamp inv it lm.main] := by
    simp
  rw [hsplit, happ _ _ _ c1 h1]
  cases hmt : lm.main.isTotal with
  | true =>
    obtain ⟨c2, h2, h2ms, h2wf⟩ := add_total h1o (stamp inv it lm.main) (by simpa using hmt) rfl rfl
    exact ⟨c2, h2, by rw [h2ms, h1ms, List.append_assoc], fun _ => h2wf, fun h => by simp at h⟩
  | false =>
    obtain ⟨c2, h2, h2ms, h2o⟩ := add_nonTotal h1o (stamp inv it lm.main) (by simpa using hmt) rfl rfl
    exact ⟨c2, h2, by rw [h2ms, h1ms, List.append_assoc], fun h => by simp at h, fun _ => h2o⟩

theorem finish_wf (inv : Nat) (done : List DP) (h : WFfrom inv 1 (done.map (·.ms))) :
    OutcomeWF inv (finish done) := by
  unfold finish
  cases done with
  | nil => simp [OutcomeWF]
  | cons d ds => simp only [List.isEmpty_cons, Bool.false_eq_true, if_false, OutcomeWF, WF]; exact ⟨by simp, h⟩

/-- the classifier's additional measurements of a line are never totals -/
def PreNonTotal (classify : Line → Option LineMeas) : Prop :=
  ∀ l lm, classify l = some lm → ∀ p ∈ lm.pre, p.isTotal = false

/-- the loop invariant carried through `collectLoop` -/
theorem collectLoop_wf (cfg : Cfg) (hc : PreNonTotal cfg.classify) (inv : Nat) (ls : List Line) :
    ∀ (it : Nat) (cur : DP) (done : List DP), Open inv it cur → it = done.length + 1 →
      WFfrom inv 1 (done.map (·.ms)) → OutcomeWF inv (collectLoop cfg inv ls it cur done) := by
  induction ls with
  | nil => intro it cur done _ _ hd; simp only [collectLoop]; exact finish_wf inv done hd
  | cons l ls ih =>
    intro it cur done ho hit hd
    simp only [collectLoop]
    split
    · exact finish_wf inv done hd
    · split
      · simp [OutcomeWF]
      · split
        · exact ih it cur done ho hit hd
        · rename_i lm hlm
          obtain ⟨c', hc', _, htot, hopen⟩ := addAll_line lm ho (hc l lm hlm)
          simp only [hc']
          split
          · rename_i hmt
            apply ih (it + 1) DP.empty (done ++ [c']) (open_empty inv (it + 1)) (by simp [hit])
            rw [List.map_append, WFfrom_append]
            refine ⟨hd, ?_⟩
            simp only [List.length_map, List.map_cons, List.map_nil, WFfrom, and_true]
            have : 1 + done.length = it := by omega
            rw [this]; exact htot hmt
          · rename_i hmt
            exact ih it c' done (hopen (by simpa using hmt)) hit hd

/-! ## the fresh-data-point loop -/

theorem freshLoop_wf (cfg : FreshCfg) (inv : Nat) (ls : List Line) :
    ∀ (it : Nat) (done : List DP), it = done.length + 1 →
      WFfrom inv 1 (done.map (·.ms)) → OutcomeWF inv (freshLoop cfg inv ls it done) := by
  induction ls with
  | nil => intro it done _ hd; simp only [freshLoop]; exact finish_wf inv done hd
  | cons l ls ih =>
    intro it done hit hd
    simp only [freshLoop]
    split
    · exact finish_wf inv done hd
    · split
      · simp [OutcomeWF]
      · split
        · exact ih it done hit hd
        · rename_i u v _
          obtain ⟨c', hc', _, hwf⟩ := add_total (open_empty inv it)
            { invocation := inv, iteration := it, criterion := totalName, unit := u, value := v }
            (by simp [Meas.isTotal]) rfl rfl
          simp only [hc']
          apply ih (it + 1) (done ++ [c']) (by simp [hit])
          rw [List.map_append, WFfrom_append]
          refine ⟨hd, ?_⟩
          simp only [List.length_map, List.map_cons, List.map_nil, WFfrom, and_true]
          have : 1 + done.length = it := by omega
          rw [this]; exact hwf

/-! ## the `time -p` loop -/

/-- invariant: nothing is ever closed, the iteration stays 1, the open data point
holds non-totals of iteration 1, a remembered total is a total of iteration 1 -/
structure TimePInv (inv : Nat) (st : TimePState) : Prop where
  it1 : st.it = 1
  done0 : st.done = []
  cur : Open inv 1 st.cur
  tot : ∀ t, st.totalMeasure = some t → t.isTotal = true ∧ t.invocation = inv ∧ t.iteration = 1

theorem timePStep_inv (classify : Line → Option (List Char × Val)) (inv : Nat) (l : Line)
    {st : TimePState} (h : TimePInv inv st) :
    ∃ st', timePStep classify inv st l = .ok st' ∧ TimePInv inv st' := by
  unfold timePStep
  cases hcl : classify l with
  | none => exact ⟨st, rfl, h⟩
  | some cv =>
    obtain ⟨crit, v⟩ := cv
    simp only
    cases hmt : ({ invocation := inv, iteration := st.it, criterion := crit, unit := msUnit, value := v } : Meas).isTotal with
    | true =>
      refine ⟨{ st with totalMeasure := some { invocation := inv, iteration := st.it, criterion := crit,
                                               unit := msUnit, value := v } }, by simp,
              ⟨h.it1, h.done0, h.cur, ?_⟩⟩
      intro t ht; simp at ht; subst ht; exact ⟨hmt, rfl, h.it1⟩
    | false =>
      obtain ⟨c', hc', _, ho⟩ := add_nonTotal h.cur
        { invocation := inv, iteration := st.it, criterion := crit, unit := msUnit, value := v } hmt rfl h.it1
      refine ⟨{ st with cur := c' }, by simp [hc'], ⟨h.it1, h.done0, ho, h.tot⟩⟩

theorem timePLoop_wf (marker : Line → Bool) (classify : Line → Option (List Char × Val)) (inv : Nat)
    (ls : List Line) :
    ∀ st, TimePInv inv st → OutcomeWF inv (timePLoop marker classify inv ls st) := by
  induction ls with
  | nil =>
    intro st h
    simp only [timePLoop]
    cases ht : st.totalMeasure with
    | none => simp only [h.done0]; exact finish_wf inv [] (by simp [WFfrom])
    | some t =>
      obtain ⟨htt, hti, htit⟩ := h.tot t ht
      obtain ⟨c', hc', _, hwf⟩ := add_total h.cur t htt hti htit
      simp only [hc', h.done0, List.nil_append]
      exact finish_wf inv [c'] (by simp [WFfrom, hwf])
  | cons l ls ih =>
    intro st h
    simp only [timePLoop]
    split
    · simp [OutcomeWF]
    · -- the step
      obtain ⟨st', hst', hinv'⟩ := timePStep_inv classify inv l h
      simp only [hst']
      have hnt : ¬ (st'.cur.ms.length = 3 ∧ st'.cur.total.isSome = true) := by
        intro hx; have := hinv'.cur.noTotal; simp [this] at hx
      simp only [hnt, if_false]
      exact ih st' hinv'

/-! ## markers -/

/-- the part of the text a loop looks at: the lines before the first `stop` line -/
def visible (stop : Line → Bool) : List Line → List Line
  | [] => []
  | l :: ls => if stop l then [] else l :: visible stop ls

theorem visible_noStop (ls : List Line) : visible noStop ls = ls := by
  induction ls with
  | nil => rfl
  | cons l ls ih => simp [visible, noStop, ih]

theorem collectLoop_marker (cfg : Cfg) (hc : PreNonTotal cfg.classify) (inv : Nat) (ls : List Line) :
    ∀ (it : Nat) (cur : DP) (done : List DP), Open inv it cur →
      (∃ l ∈ visible cfg.stop ls, cfg.marker l = true) →
      collectLoop cfg inv ls it cur done = .invalid := by
  induction ls with
  | nil => intro it cur done _ h; simp [visible] at h
  | cons l ls ih =>
    intro it cur done ho h
    simp only [collectLoop]
    by_cases hs : cfg.stop l = true
    · simp [visible, hs] at h
    · simp only [hs, Bool.false_eq_true, if_false]
      by_cases hm : cfg.marker l = true
      · simp [hm]
      · simp only [hm, Bool.false_eq_true, if_false]
        have h' : ∃ l ∈ visible cfg.stop ls, cfg.marker l = true := by
          simp only [visible, hs, Bool.false_eq_true, if_false, List.mem_cons] at h
          obtain ⟨x, hx | hx, hxm⟩ := h
          · subst hx; exact absurd hxm hm
          · exact ⟨x, hx, hxm⟩
        split
        · exact ih it cur done ho h'
        · rename_i lm hlm
          obtain ⟨c', hc', _, _, hopen⟩ := addAll_line lm ho (hc l lm hlm)
          simp only [hc']
          split
          · exact ih _ _ _ (open_empty inv (it + 1)) h'
          · rename_i hmt; exact ih _ _ _ (hopen (by simpa using hmt)) h'

theorem freshLoop_marker (cfg : FreshCfg) (inv : Nat) (ls : List Line) :
    ∀ (it : Nat) (done : List DP),
      (∃ l ∈ visible cfg.stop ls, cfg.marker l = true) →
      freshLoop cfg inv ls it done = .invalid := by
  induction ls with
  | nil => intro it done h; simp [visible] at h
  | cons l ls ih =>
    intro it done h
    simp only [freshLoop]
    by_cases hs : cfg.stop l = true
    · simp [visible, hs] at h
    · simp only [hs, Bool.false_eq_true, if_false]
      by_cases hm : cfg.marker l = true
      · simp [hm]
      · simp only [hm, Bool.false_eq_true, if_false]
        have h' : ∃ l ∈ visible cfg.stop ls, cfg.marker l = true := by
          simp only [visible, hs, Bool.false_eq_true, if_false, List.mem_cons] at h
          obtain ⟨x, hx | hx, hxm⟩ := h
          · subst hx; exact absurd hxm hm
          · exact ⟨x, hx, hxm⟩
        split
        · exact ih it done h'
        · rename_i u v _
          obtain ⟨c', hc', _, _⟩ := add_total (open_empty inv it)
            { invocation := inv, iteration := it, criterion := totalName, unit := u, value := v }
            (by simp [Meas.isTotal]) rfl rfl
          simp only [hc']
          exact ih _ _ h'

theorem timePLoop_marker (marker : Line → Bool) (classify : Line → Option (List Char × Val)) (inv : Nat)
    (ls : List Line) :
    ∀ st, TimePInv inv st → (∃ l ∈ ls, marker l = true) →
      timePLoop marker classify inv ls st = .invalid := by
  induction ls with
  | nil => intro st _ h; simp at h
  | cons l ls ih =>
    intro st h hm
    simp only [timePLoop]
    by_cases hml : marker l = true
    · simp [hml]
    · simp only [hml, Bool.false_eq_true, if_false]
      have hm' : ∃ l ∈ ls, marker l = true := by
        obtain ⟨x, hx, hxm⟩ := hm
        rcases List.mem_cons.mp hx with hx | hx
        · subst hx; exact absurd hxm hml
        · exact ⟨x, hx, hxm⟩
      obtain ⟨st', hst', hinv'⟩ := timePStep_inv classify inv l h
      simp only [hst']
      have hnt : ¬ (st'.cur.ms.length = 3 ∧ st'.cur.total.isSome = true) := by
        intro hx; have := hinv'.cur.noTotal; simp [this] at hx
      simp only [hnt, if_false]
      exact ih st' hinv' hm'

/-! ## the built-in classifiers add non-totals before the line's main measurement -/

theorem preNonTotal_rebenchLog : PreNonTotal classifyRebenchLog := by
  intro l lm h p hp
  unfold classifyRebenchLog at h
  split at h
  · simp at h; subst h; simp at hp
  · split at h
    · simp at h; subst h; simp at hp
    · cases h

theorem preNonTotal_plainSeconds : PreNonTotal classifyPlainSeconds := by
  intro l lm h p hp
  unfold classifyPlainSeconds at h
  split at h
  · simp at h; subst h; simp at hp
  · cases h

theorem preNonTotal_validation : PreNonTotal classifyValidation := by
  intro l lm h p hp
  unfold classifyValidation at h
  split at h
  · simp at h; subst h; simp at hp; subst hp; rfl
  · split at h
    · simp at h; subst h
      simp at hp
      rcases hp with hp | hp | hp <;> (subst hp; rfl)
    · cases h

theorem preNonTotal_timeFormatted : PreNonTotal classifyTimeFormatted := by
  intro l lm h p hp
  unfold classifyTimeFormatted at h
  split at h
  · simp at h; subst h; simp at hp
  · split at h
    · simp at h; subst h; simp at hp
    · cases h

/-! ## `search` for patterns that start with `.*` -/

/-- `f` holds of some suffix of the text -/
def anySuffix (f : List Char → Bool) : List Char → Bool
  | [] => f []
  | c :: cs => f (c :: cs) || anySuffix f cs

theorem starM_any_isSome {α : Type} (s : List Char) (k : List Char → Option α) :
    (starM anyChar s k).isSome = anySuffix (fun t => (k t).isSome) s := by
  induction s with
  | nil => simp [starM, anySuffix]
  | cons c cs ih =>
    simp only [starM, anyChar, if_true, anySuffix]
    rw [← ih]
    cases h : starM anyChar cs k with
    | none => simp
    | some r => simp

/-- a pattern that starts with `.*` matches somewhere in the line iff it matches at its start:
what `Re.searchDotStar` (offset 0 only) relies on -/
theorem search_dotStar (r : Re) (s : List Char) :
    (Re.seq (.star anyChar) r).search s = (Re.seq (.star anyChar) r).searchDotStar s := by
  have hp : ∀ t : List Char, ((Re.seq (.star anyChar) r).pmatch t).isSome =
      anySuffix (fun u => (r.m u [] (fun _ c => some c)).isSome) t := by
    intro t
    simp only [Re.pmatch, Re.m]
    exact starM_any_isSome t _
  unfold Re.searchDotStar
  induction s with
  | nil => simp [Re.search]
  | cons c cs ih =>
    simp only [Re.search, ih, hp, anySuffix]
    cases (r.m (c :: cs) [] (fun _ c => some c)).isSome <;> simp

end RB.Adapters
