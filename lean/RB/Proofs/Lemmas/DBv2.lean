/-
Helper lemmas for `c17_decode_encode_v2`: the API-v2 payload and the cache agree
on every (run, invocation, iteration, criterion) lookup.
-/
import RB.Model.DB

namespace RB.DB

abbrev Col := List (Option Rat)

/-- `t'` extends `t` (the criteria dict only grows) -/
def Ext (t t' : CritTab) : Prop := ∃ suf, t' = t ++ suf

theorem Ext.refl (t : CritTab) : Ext t t := ⟨[], by simp⟩
theorem Ext.trans {a b c : CritTab} (h1 : Ext a b) (h2 : Ext b c) : Ext a c := by
  obtain ⟨s1, rfl⟩ := h1
  obtain ⟨s2, rfl⟩ := h2
  exact ⟨s1 ++ s2, by simp⟩
theorem Ext.length_le {a b : CritTab} (h : Ext a b) : a.length ≤ b.length := by
  obtain ⟨s, rfl⟩ := h; simp

/-! ### the criteria table -/

theorem findIdx_cons (c x : Crit) (xs : CritTab) :
    findIdx c (x :: xs) = if x = c then some 0 else (findIdx c xs).map (· + 1) := rfl

theorem findIdx_lt (c : Crit) (t : CritTab) (i : Nat) (h : findIdx c t = some i) : i < t.length := by
  induction t generalizing i with
  | nil => simp [findIdx] at h
  | cons x xs ih =>
    rw [findIdx_cons] at h
    by_cases hx : x = c
    · simp [hx] at h; subst h; simp
    · simp only [hx, if_false, Option.map_eq_some_iff] at h
      obtain ⟨j, hj, rfl⟩ := h
      have := ih j hj
      simp; omega

theorem findIdx_getElem (c : Crit) (t : CritTab) (i : Nat) (h : findIdx c t = some i) : t[i]? = some c := by
  induction t generalizing i with
  | nil => simp [findIdx] at h
  | cons x xs ih =>
    rw [findIdx_cons] at h
    by_cases hx : x = c
    · simp [hx] at h; subst h; simp [hx]
    · simp only [hx, if_false, Option.map_eq_some_iff] at h
      obtain ⟨j, hj, rfl⟩ := h
      simpa using ih j hj

theorem findIdx_append_some (c : Crit) (t suf : CritTab) (i : Nat) (h : findIdx c t = some i) :
    findIdx c (t ++ suf) = some i := by
  induction t generalizing i with
  | nil => simp [findIdx] at h
  | cons x xs ih =>
    rw [findIdx_cons] at h
    rw [List.cons_append, findIdx_cons]
    by_cases hx : x = c
    · simpa [hx] using h
    · simp only [hx, if_false, Option.map_eq_some_iff] at h ⊢
      obtain ⟨j, hj, rfl⟩ := h
      exact ⟨j, ih j hj, rfl⟩

theorem findIdx_append_none (c : Crit) (t suf : CritTab) (h : findIdx c t = none) :
    findIdx c (t ++ suf) = (findIdx c suf).map (· + t.length) := by
  induction t with
  | nil => simp
  | cons x xs ih =>
    rw [findIdx_cons] at h
    rw [List.cons_append, findIdx_cons]
    by_cases hx : x = c
    · simp [hx] at h
    · simp only [hx, if_false, Option.map_eq_none_iff] at h
      simp only [hx, if_false]
      rw [ih h]
      cases findIdx c suf with
      | none => rfl
      | some j => simp; omega

theorem findIdx_inj (c c' : Crit) (t : CritTab) (i : Nat) (h : findIdx c t = some i) (h' : findIdx c' t = some i) :
    c = c' := by
  have := findIdx_getElem c t i h
  have := findIdx_getElem c' t i h'
  simp_all

/-! ### one column / one measurement -/

/-- value recorded for criterion `c` at position `p` (iteration `p + 1`) in a list of columns -/
def colLookup (t : CritTab) (cols : List Col) (c : Crit) (p : Nat) : Option Rat :=
  match findIdx c t with
  | some ci => ((cols[ci]?).bind (·[p]?)).join
  | none => none

theorem colLookup_ext (t suf : CritTab) (cols : List Col) (c : Crit) (p : Nat) (h : cols.length ≤ t.length) :
    colLookup (t ++ suf) cols c p = colLookup t cols c p := by
  unfold colLookup
  cases hf : findIdx c t with
  | some ci => rw [findIdx_append_some c t suf ci hf]
  | none =>
    rw [findIdx_append_none c t suf hf]
    cases findIdx c suf with
    | none => rfl
    | some j =>
      simp only [Option.map_some]
      have : cols[j + t.length]? = none := by simp; omega
      simp [this]

theorem putVal_get (col : Col) (it : Nat) (v : Rat) (p : Nat) (h : col.length < it) :
    ((putVal col it v)[p]?).join = if p + 1 = it then some v else (col[p]?).join := by
  unfold putVal
  have hk : col.length + (it - 1 - col.length) = it - 1 := by omega
  rw [List.getElem?_append]
  simp only [List.length_append, List.length_replicate, hk]
  by_cases hp : p + 1 = it
  · have h1 : ¬ p < it - 1 := by omega
    have hz : p - (it - 1) = 0 := by omega
    simp [h1, hp, hz]
  · simp only [hp, if_false]
    by_cases hlt : p < it - 1
    · simp only [hlt, if_true]
      rw [List.getElem?_append]
      by_cases hc : p < col.length
      · simp [hc]
      · have h1 : col[p]? = none := by simp; omega
        simp only [hc, if_false, h1, List.getElem?_replicate]
        split <;> rfl
    · have h1 : col[p]? = none := by simp; omega
      have h2 : ([some v] : Col)[p - (it - 1)]? = none := by simp; omega
      simp [hlt, h1, h2]

theorem putVal_length (col : Col) (it : Nat) (v : Rat) (h : col.length < it) : (putVal col it v).length = it := by
  simp [putVal]; omega

theorem mem_modify {α : Type} (l : List α) (i : Nat) (f : α → α) (x : α) (h : x ∈ l.modify i f) :
    x ∈ l ∨ ∃ y, l[i]? = some y ∧ x = f y := by
  induction l generalizing i with
  | nil => simp at h
  | cons a l ih =>
    cases i with
    | zero =>
      rw [List.modify_zero_cons] at h
      simp only [List.mem_cons] at h
      rcases h with h | h
      · right; exact ⟨a, by simp, h⟩
      · left; simp [h]
    | succ i =>
      rw [List.modify_succ_cons] at h
      simp only [List.mem_cons] at h
      rcases h with h | h
      · left; simp [h]
      · rcases ih i h with h' | ⟨y, hy, hxy⟩
        · left; simp [h']
        · right; exact ⟨y, by simpa using hy, hxy⟩

theorem modify_append_last {α : Type} (l : List α) (a : α) (f : α → α) :
    (l ++ [a]).modify l.length f = l ++ [f a] := by
  induction l with
  | nil => simp
  | cons b l ih => simp [List.modify_succ_cons, ih]

/-- precondition on the column a measurement is about to touch -/
def Fresh (it : Nat) (t : CritTab) (cols : List Col) (c : Crit) : Prop :=
  ∀ ci col, findIdx c t = some ci → cols[ci]? = some col → col.length < it

theorem addMeas_spec (it : Nat) (t : CritTab) (cols : List Col) (m : Meas)
    (hlen : cols.length = t.length) (hfresh : Fresh it t cols m.crit) (hb : ∀ col ∈ cols, col.length ≤ it) (hit : 1 ≤ it) :
    Ext t (addMeas it (t, cols) m).1 ∧
    (addMeas it (t, cols) m).2.length = (addMeas it (t, cols) m).1.length ∧
    (∀ col ∈ (addMeas it (t, cols) m).2, col.length ≤ it) ∧
    (∀ c p, colLookup (addMeas it (t, cols) m).1 (addMeas it (t, cols) m).2 c p =
        if c = m.crit ∧ p + 1 = it then some m.value else colLookup t cols c p) ∧
    (∀ c, c ≠ m.crit → Fresh it t cols c → Fresh it (addMeas it (t, cols) m).1 (addMeas it (t, cols) m).2 c) := by
  unfold addMeas critIdx
  cases hf : findIdx m.crit t with
  | some ci =>
    have hci : ci < t.length := findIdx_lt _ _ _ hf
    have hci' : ci < cols.length := by omega
    have hnle : ¬ cols.length ≤ ci := by omega
    simp only [hnle, if_false]
    obtain ⟨col0, hcol0⟩ : ∃ col0, cols[ci]? = some col0 := ⟨cols[ci], List.getElem?_eq_getElem hci'⟩
    have hc0 : col0.length < it := hfresh ci col0 hf hcol0
    refine ⟨Ext.refl t, by simp [hlen], ?_, ?_, ?_⟩
    · intro col hcol
      rcases mem_modify _ _ _ _ hcol with h | ⟨y, hy, hxy⟩
      · exact hb col h
      · rw [hcol0] at hy; cases hy
        rw [hxy, putVal_length _ _ _ hc0]; exact Nat.le_refl _
    · intro c p
      unfold colLookup
      cases hfc : findIdx c t with
      | none =>
        have : ¬ c = m.crit := by intro h; subst h; simp [hf] at hfc
        simp [this]
      | some cj =>
        simp only
        rw [List.getElem?_modify]
        by_cases hij : ci = cj
        · subst hij
          have hceq : c = m.crit := findIdx_inj _ _ _ _ hfc hf
          subst hceq
          simp only [hcol0, Option.map_eq_map, Option.map_some, if_true, Option.bind_some, true_and]
          rw [putVal_get _ _ _ _ hc0]
        · have hne : ¬ c = m.crit := by
            intro h; subst h; rw [hf] at hfc; simp at hfc; exact hij hfc
          simp only [hne, false_and, if_false]
          cases hcj : cols[cj]? with
          | none => simp
          | some x => simp [hij]
    · intro c hne hfr cj col hfc hcol
      rw [List.getElem?_modify] at hcol
      have hij : ci ≠ cj := by
        intro h; subst h; exact hne (findIdx_inj _ _ _ _ hfc hf)
      cases hcj : cols[cj]? with
      | none => simp [hcj] at hcol
      | some x =>
        simp only [hcj, Option.map_eq_map, Option.map_some, hij, if_false, Option.some.injEq] at hcol
        subst hcol
        exact hfr cj x hfc hcj
  | none =>
    have hle : cols.length ≤ t.length := by omega
    simp only [hle, if_true]
    have hmod : (cols ++ [([] : Col)]).modify t.length (fun col => putVal col it m.value)
        = cols ++ [putVal [] it m.value] := by
      rw [← hlen]
      exact modify_append_last cols [] _
    rw [hmod]
    have h0 : ([] : Col).length < it := by simp; omega
    refine ⟨⟨[m.crit], rfl⟩, by simp [hlen], ?_, ?_, ?_⟩
    · intro col hcol
      simp only [List.mem_append, List.mem_singleton] at hcol
      rcases hcol with h | h
      · exact hb col h
      · subst h; rw [putVal_length _ _ _ h0]; exact Nat.le_refl _
    · intro c p
      unfold colLookup
      cases hfc : findIdx c t with
      | some cj =>
        have hcj : cj < t.length := findIdx_lt _ _ _ hfc
        have hne : ¬ c = m.crit := by intro h; subst h; simp [hf] at hfc
        rw [findIdx_append_some c t [m.crit] cj hfc]
        simp only [hne, false_and, if_false]
        rw [List.getElem?_append_left (by omega)]
      | none =>
        rw [findIdx_append_none c t [m.crit] hfc]
        by_cases hc : c = m.crit
        · subst hc
          simp only [findIdx, if_true, Option.map_some, Nat.zero_add, true_and]
          rw [← hlen]
          simp only [List.getElem?_append_right (Nat.le_refl _), Nat.sub_self, List.getElem?_cons_zero,
            Option.bind_some]
          rw [putVal_get _ _ _ _ h0]
          simp
        · have : findIdx c [m.crit] = none := by
            have hc' : ¬ m.crit = c := fun h => hc h.symm
            simp [findIdx, hc']
          simp [this, hc]
    · intro c hne hfr cj col hfc hcol
      cases hfc0 : findIdx c t with
      | some ck =>
        rw [findIdx_append_some c t [m.crit] ck hfc0] at hfc
        simp at hfc; subst hfc
        have : ck < t.length := findIdx_lt _ _ _ hfc0
        rw [List.getElem?_append_left (by omega)] at hcol
        exact hfr ck col hfc0 hcol
      | none =>
        rw [findIdx_append_none c t [m.crit] hfc0] at hfc
        have : findIdx c [m.crit] = none := by
          have hc' : ¬ m.crit = c := fun h => hne h.symm
          simp [findIdx, hc']
        simp [this] at hfc


/-! ### all measurements of one data point -/

theorem findMeas_none (c : Crit) (ms : List Meas) (h : c ∉ ms.map (·.crit)) : findMeas c ms = none := by
  induction ms with
  | nil => rfl
  | cons m ms ih =>
    simp only [List.map_cons, List.mem_cons, not_or] at h
    have hne : ¬ m.crit = c := fun e => h.1 e.symm
    simp [findMeas, hne, ih h.2]

theorem foldMeas_spec (it : Nat) (ms : List Meas) (t : CritTab) (cols : List Col)
    (hlen : cols.length = t.length) (hnd : (ms.map (·.crit)).Nodup)
    (hfresh : ∀ m ∈ ms, Fresh it t cols m.crit) (hb : ∀ col ∈ cols, col.length ≤ it) (hit : 1 ≤ it) :
    Ext t (ms.foldl (addMeas it) (t, cols)).1 ∧
    (ms.foldl (addMeas it) (t, cols)).2.length = (ms.foldl (addMeas it) (t, cols)).1.length ∧
    (∀ col ∈ (ms.foldl (addMeas it) (t, cols)).2, col.length ≤ it) ∧
    ∀ c p, colLookup (ms.foldl (addMeas it) (t, cols)).1 (ms.foldl (addMeas it) (t, cols)).2 c p =
      if p + 1 = it then (match findMeas c ms with | some v => some v | none => colLookup t cols c p)
      else colLookup t cols c p := by
  induction ms generalizing t cols with
  | nil => exact ⟨Ext.refl t, hlen, hb, fun c p => by simp [findMeas]⟩
  | cons m ms ih =>
    simp only [List.map_cons, List.nodup_cons] at hnd
    obtain ⟨he, hl, hbd, hlk, hfr⟩ :=
      addMeas_spec it t cols m hlen (hfresh m (by simp)) hb hit
    have hfresh' : ∀ m' ∈ ms, Fresh it (addMeas it (t, cols) m).1 (addMeas it (t, cols) m).2 m'.crit := by
      intro m' hm'
      have hne : m'.crit ≠ m.crit := by
        intro e; exact hnd.1 (by rw [← e]; exact List.mem_map_of_mem hm')
      exact hfr m'.crit hne (hfresh m' (by simp [hm']))
    obtain ⟨he2, hl2, hb2, hlk2⟩ := ih (addMeas it (t, cols) m).1 (addMeas it (t, cols) m).2 hl hnd.2 hfresh' hbd
    simp only [List.foldl_cons]
    refine ⟨he.trans he2, hl2, hb2, ?_⟩
    intro c p
    rw [hlk2 c p, hlk c p]
    by_cases hp : p + 1 = it
    · simp only [hp, if_true, and_true, findMeas]
      by_cases hc : c = m.crit
      · subst hc
        have : findMeas m.crit ms = none := findMeas_none _ _ hnd.1
        simp [this]
      · have hc' : ¬ m.crit = c := fun e => hc e.symm
        simp [hc, hc']
    · simp [hp]

/-! ### entries of one run -/

/-- the columns of the first entry for an invocation -/
def entryCols (inv : Nat) : List Entry → Option (List Col)
  | [] => none
  | e :: es => if e.inv = inv then some e.cols else entryCols inv es

/-- replace the columns of the first entry for an invocation, or append a new entry -/
def setCols (inv : Nat) (cs : List Col) : List Entry → List Entry
  | [] => [⟨inv, cs⟩]
  | e :: es => if e.inv = inv then { e with cols := cs } :: es else e :: setCols inv cs es

theorem entryCols_setCols (inv inv' : Nat) (cs : List Col) (es : List Entry) :
    entryCols inv' (setCols inv cs es) = if inv' = inv then some cs else entryCols inv' es := by
  induction es with
  | nil =>
    by_cases h : inv' = inv
    · simp [setCols, entryCols, h]
    · have h' : ¬ inv = inv' := fun e => h e.symm
      simp [setCols, entryCols, h, h']
  | cons e es ih =>
    unfold setCols
    by_cases he : e.inv = inv
    · simp only [he, if_true]
      by_cases h : inv' = inv
      · simp [entryCols, h]
      · have h' : ¬ inv = inv' := fun e => h e.symm
        simp [entryCols, h, h', he]
    · simp only [he, if_false]
      by_cases h : inv' = inv
      · subst h
        simp [entryCols, he, ih]
      · by_cases he' : e.inv = inv'
        · simp [entryCols, he', h]
        · simp [entryCols, he', ih, h]

theorem entryIdx_cons (inv : Nat) (e : Entry) (es : List Entry) :
    entryIdx inv (e :: es) = if e.inv = inv then some 0 else (entryIdx inv es).map (· + 1) := rfl

/-- the entry list and index `addDP` works on -/
def pick (inv : Nat) (cs : List Col) (es : List Entry) : List Entry × Nat :=
  match entryIdx inv es with
  | some k => (es, k)
  | none => (es ++ [Entry.mk inv cs], es.length)

theorem pick_cons (inv : Nat) (cs : List Col) (e : Entry) (es : List Entry) :
    pick inv cs (e :: es) =
      if e.inv = inv then (e :: es, 0) else (e :: (pick inv cs es).1, (pick inv cs es).2 + 1) := by
  unfold pick
  rw [entryIdx_cons]
  by_cases he : e.inv = inv
  · simp [he]
  · simp only [he, if_false]
    cases entryIdx inv es <;> simp

theorem pick_cols (inv : Nat) (cs : List Col) (es : List Entry) :
    (((pick inv cs es).1[(pick inv cs es).2]?).map (·.cols)).getD [] = (entryCols inv es).getD cs := by
  induction es with
  | nil => simp [pick, entryIdx, entryCols]
  | cons e es ih =>
    rw [pick_cons]
    by_cases he : e.inv = inv
    · simp [he, entryCols]
    · simp only [he, if_false, entryCols, List.getElem?_cons_succ]
      exact ih

theorem pick_set (inv : Nat) (cs cs' : List Col) (es : List Entry) :
    (pick inv cs es).1.modify (pick inv cs es).2 (fun e => { e with cols := cs' }) = setCols inv cs' es := by
  induction es with
  | nil => simp [pick, entryIdx, setCols]
  | cons e es ih =>
    rw [pick_cons]
    by_cases he : e.inv = inv
    · simp [he, setCols]
    · simp only [he, if_false, setCols, List.modify_succ_cons]
      rw [ih]

/-- `addDP` written with `entryCols` / `setCols` -/
theorem addDP_eq (t : CritTab) (es : List Entry) (d : DP) (h : d.ms ≠ []) :
    addDP (t, es) d =
      ((d.ms.foldl (addMeas d.it) (t, (entryCols d.inv es).getD (List.replicate t.length []))).1,
       setCols d.inv (d.ms.foldl (addMeas d.it) (t, (entryCols d.inv es).getD (List.replicate t.length []))).2 es) := by
  have hp : addDP (t, es) d =
      ((d.ms.foldl (addMeas d.it) (t, (((pick d.inv (List.replicate t.length []) es).1[
          (pick d.inv (List.replicate t.length []) es).2]?).map (·.cols)).getD [])).1,
       (pick d.inv (List.replicate t.length []) es).1.modify (pick d.inv (List.replicate t.length []) es).2
         (fun e => { e with cols := (d.ms.foldl (addMeas d.it) (t, (((pick d.inv (List.replicate t.length []) es).1[
          (pick d.inv (List.replicate t.length []) es).2]?).map (·.cols)).getD [])).2 })) := by
    unfold addDP pick
    cases hms : d.ms with
    | nil => exact absurd hms h
    | cons m0 ms0 => rfl
  rw [hp, pick_cols, pick_set]


/-! ### lookups in the entries of one run -/

def lookupE (t : CritTab) (es : List Entry) (inv it : Nat) (c : Crit) : Option Rat :=
  match it with
  | 0 => none
  | p + 1 => (entryCols inv es).bind (fun cols => colLookup t cols c p)

theorem entryIdx_entryCols (inv : Nat) (es : List Entry) :
    (entryIdx inv es = none ∧ entryCols inv es = none) ∨
    (∃ k e, entryIdx inv es = some k ∧ es[k]? = some e ∧ entryCols inv es = some e.cols) := by
  induction es with
  | nil => left; exact ⟨rfl, rfl⟩
  | cons e es ih =>
    rw [entryIdx_cons]
    by_cases he : e.inv = inv
    · right; exact ⟨0, e, by simp [he], by simp, by simp [entryCols, he]⟩
    · rcases ih with ⟨h1, h2⟩ | ⟨k, e', h1, h2, h3⟩
      · left; simp [he, h1, h2, entryCols]
      · right; exact ⟨k + 1, e', by simp [he, h1], by simpa using h2, by simp [entryCols, he, h3]⟩

theorem lookupEntries_eq (t : CritTab) (es : List Entry) (inv it : Nat) (c : Crit) :
    lookupEntries t es inv it c = lookupE t es inv it c := by
  unfold lookupEntries lookupE
  cases it with
  | zero => rfl
  | succ p =>
    rcases entryIdx_entryCols inv es with ⟨h1, h2⟩ | ⟨k, e, h1, h2, h3⟩
    · rw [h1, h2]
      cases findIdx c t <;> rfl
    · rw [h1, h3]
      simp only [Option.bind_some, colLookup]
      cases hf : findIdx c t with
      | none => rfl
      | some ci => simp [h2]

theorem colLookup_none_of_short (t : CritTab) (cols : List Col) (c : Crit) (p : Nat)
    (h : ∀ col ∈ cols, col.length ≤ p) : colLookup t cols c p = none := by
  unfold colLookup
  cases findIdx c t with
  | none => rfl
  | some ci =>
    cases hc : cols[ci]? with
    | none => simp [hc]
    | some col =>
      have := h col (List.mem_of_getElem? hc)
      have h2 : col[p]? = none := by simp; omega
      simp [hc, h2]

/-- the visible entries: no more columns than criteria, invocations at most `I`; the
entry of invocation `I` has one column per criterion, none longer than `J` -/
def InvE (t : CritTab) (es : List Entry) (I J : Nat) : Prop :=
  ∀ inv cols, entryCols inv es = some cols →
    cols.length ≤ t.length ∧ inv ≤ I ∧ (inv = I → cols.length = t.length ∧ ∀ col ∈ cols, col.length ≤ J)

def Above (I J : Nat) (d : DP) : Prop := I < d.inv ∨ (I = d.inv ∧ J < d.it)

theorem addDP_spec (t : CritTab) (es : List Entry) (I J : Nat) (d : DP)
    (hinv : InvE t es I J) (habove : Above I J d) (hit : 1 ≤ d.it) (hnd : (d.ms.map (·.crit)).Nodup) :
    Ext t (addDP (t, es) d).1 ∧ InvE (addDP (t, es) d).1 (addDP (t, es) d).2 d.inv d.it ∧
    ∀ suf inv it c, lookupE ((addDP (t, es) d).1 ++ suf) (addDP (t, es) d).2 inv it c =
      if d.inv = inv ∧ d.it = it then findMeas c d.ms
      else lookupE ((addDP (t, es) d).1 ++ suf) es inv it c := by
  have hI : I ≤ d.inv := by rcases habove with h | ⟨h, _⟩ <;> omega
  -- the columns the data point starts from: short, and as many as criteria
  have hstart : ∀ cols, entryCols d.inv es = some cols →
      cols.length = t.length ∧ ∀ col ∈ cols, col.length < d.it := by
    intro cols hc
    obtain ⟨_, h2, h3⟩ := hinv d.inv cols hc
    have heq : d.inv = I := by omega
    obtain ⟨h4, h5⟩ := h3 heq
    refine ⟨h4, fun col hcol => ?_⟩
    have := h5 col hcol
    rcases habove with h | ⟨_, h⟩ <;> omega
  by_cases hms : d.ms = []
  · have hadd : addDP (t, es) d = (t, es) := by unfold addDP; simp [hms]
    rw [hadd]
    refine ⟨Ext.refl t, ?_, ?_⟩
    · intro inv cols hc
      obtain ⟨h1, h2, h3⟩ := hinv inv cols hc
      refine ⟨h1, by omega, fun heq => ?_⟩
      subst heq
      obtain ⟨h4, h5⟩ := hstart cols hc
      exact ⟨h4, fun col hcol => Nat.le_of_lt (h5 col hcol)⟩
    · intro suf inv it c
      by_cases hk : d.inv = inv ∧ d.it = it
      · obtain ⟨rfl, rfl⟩ := hk
        simp only [and_self, if_true, hms, findMeas]
        unfold lookupE
        cases hit' : d.it with
        | zero => rfl
        | succ p =>
          cases hc : entryCols d.inv es with
          | none => rfl
          | some cols =>
            simp only [Option.bind_some]
            apply colLookup_none_of_short
            intro col hcol
            have := (hstart cols hc).2 col hcol
            omega
      · simp [hk]
  · rw [addDP_eq t es d hms]
    -- the columns handed to the fold
    have hc0len : ((entryCols d.inv es).getD (List.replicate t.length [])).length = t.length := by
      cases hc : entryCols d.inv es with
      | none => simp
      | some cols => simpa using (hstart cols hc).1
    have hc0short : ∀ col ∈ (entryCols d.inv es).getD (List.replicate t.length []), col.length < d.it := by
      intro col hcol
      cases hc : entryCols d.inv es with
      | none =>
        simp only [hc, Option.getD_none, List.mem_replicate] at hcol
        rw [hcol.2]; simp; omega
      | some cols =>
        simp only [hc, Option.getD_some] at hcol
        exact (hstart cols hc).2 col hcol
    obtain ⟨he, hl, hb, hlk⟩ := foldMeas_spec d.it d.ms t _ hc0len hnd
      (fun m _ ci col _ hcol => hc0short col (List.mem_of_getElem? hcol))
      (fun col hcol => Nat.le_of_lt (hc0short col hcol)) hit
    refine ⟨he, ?_, ?_⟩
    · intro inv cols hc
      rw [entryCols_setCols] at hc
      by_cases hi : inv = d.inv
      · simp only [hi, if_true, Option.some.injEq] at hc
        subst hc
        exact ⟨Nat.le_of_eq hl, Nat.le_of_eq hi, fun _ => ⟨hl, hb⟩⟩
      · simp only [hi, if_false] at hc
        obtain ⟨h1, h2, _⟩ := hinv inv cols hc
        exact ⟨Nat.le_trans h1 he.length_le, by omega, fun h => absurd h hi⟩
    · intro suf inv it c
      unfold lookupE
      cases it with
      | zero =>
        have : ¬ (d.inv = inv ∧ d.it = 0) := by omega
        rw [if_neg this]
      | succ p =>
        simp only
        rw [entryCols_setCols]
        by_cases hi : inv = d.inv
        · subst hi
          simp only [if_true, Option.bind_some, true_and]
          rw [colLookup_ext _ _ _ _ _ (Nat.le_of_eq hl), hlk c p]
          have hold : ∀ cols, entryCols d.inv es = some cols →
              colLookup ((List.foldl (addMeas d.it) (t, (entryCols d.inv es).getD (List.replicate t.length [])) d.ms).1 ++ suf)
                cols c p = colLookup t cols c p := by
            intro cols hc
            obtain ⟨s1, hs1⟩ := he
            rw [hs1, List.append_assoc]
            exact colLookup_ext _ _ _ _ _ (Nat.le_of_eq (hstart cols hc).1)
          by_cases hp : p + 1 = d.it
          · have hpe : d.it = p + 1 := hp.symm
            rw [if_pos hp, if_pos hpe]
            have : colLookup t ((entryCols d.inv es).getD (List.replicate t.length [])) c p = none := by
              apply colLookup_none_of_short
              intro col hcol
              have := hc0short col hcol
              omega
            rw [this]
            cases findMeas c d.ms <;> rfl
          · have hpe : ¬ d.it = p + 1 := fun h => hp h.symm
            simp only [hp, hpe, if_false]
            cases hc : entryCols d.inv es with
            | none =>
              simp only [Option.getD_none, Option.bind_none]
              apply colLookup_none_of_short
              intro col hcol
              simp only [List.mem_replicate] at hcol
              rw [hcol.2]; simp
            | some cols =>
              simp only [Option.getD_some, Option.bind_some]
              have h3 := hold cols hc
              simp only [hc, Option.getD_some] at h3
              exact h3.symm
        · have hi' : ¬ d.inv = inv := fun h => hi h.symm
          simp [hi, hi']

theorem hasKey_cons (d : DP) (ds : List DP) (inv it : Nat) :
    hasKey (d :: ds) inv it = (decide (d.inv = inv ∧ d.it = it) || hasKey ds inv it) := by
  simp [hasKey]

theorem lookupDPs_none (ds : List DP) (inv it : Nat) (c : Crit) (h : hasKey ds inv it = false) :
    lookupDPs ds inv it c = none := by
  induction ds with
  | nil => rfl
  | cons d ds ih =>
    rw [hasKey_cons] at h
    simp only [Bool.or_eq_false_iff, decide_eq_false_iff_not] at h
    simp [lookupDPs, h.1, ih h.2]

theorem hasKey_false_of_above (ds : List DP) (d : DP) (h : ∀ d' ∈ ds, dpLt d d') : hasKey ds d.inv d.it = false := by
  induction ds with
  | nil => rfl
  | cons d' ds ih =>
    rw [hasKey_cons]
    have h1 := h d' (by simp)
    have : ¬ (d'.inv = d.inv ∧ d'.it = d.it) := by
      unfold dpLt at h1; omega
    simp [this, ih (fun x hx => h x (by simp [hx]))]

theorem foldDP_spec (ds : List DP) (t : CritTab) (es : List Entry) (I J : Nat)
    (hinv : InvE t es I J) (hsorted : ds.Pairwise dpLt)
    (hall : ∀ d ∈ ds, Above I J d ∧ 1 ≤ d.it ∧ (d.ms.map (·.crit)).Nodup) :
    Ext t (ds.foldl addDP (t, es)).1 ∧
    ∀ suf inv it c, lookupE ((ds.foldl addDP (t, es)).1 ++ suf) (ds.foldl addDP (t, es)).2 inv it c =
      if hasKey ds inv it then lookupDPs ds inv it c
      else lookupE ((ds.foldl addDP (t, es)).1 ++ suf) es inv it c := by
  induction ds generalizing t es I J with
  | nil => exact ⟨Ext.refl t, fun suf inv it c => by simp [hasKey]⟩
  | cons d ds ih =>
    obtain ⟨hab, hit, hnd⟩ := hall d (by simp)
    obtain ⟨he1, hinv1, hlk1⟩ := addDP_spec t es I J d hinv hab hit hnd
    rw [List.pairwise_cons] at hsorted
    have hall' : ∀ d' ∈ ds, Above d.inv d.it d' ∧ 1 ≤ d'.it ∧ (d'.ms.map (·.crit)).Nodup := by
      intro d' hd'
      obtain ⟨_, h2, h3⟩ := hall d' (by simp [hd'])
      exact ⟨hsorted.1 d' hd', h2, h3⟩
    obtain ⟨he2, hlk2⟩ := ih (addDP (t, es) d).1 (addDP (t, es) d).2 d.inv d.it hinv1 hsorted.2 hall'
    simp only [List.foldl_cons]
    refine ⟨he1.trans he2, ?_⟩
    intro suf inv it c
    rw [hlk2 suf inv it c]
    obtain ⟨s2, hs2⟩ := he2
    have hstep := hlk1 (s2 ++ suf) inv it c
    rw [← List.append_assoc, ← hs2] at hstep
    rw [hasKey_cons]
    by_cases hk : d.inv = inv ∧ d.it = it
    · obtain ⟨rfl, rfl⟩ := hk
      have hno : hasKey ds d.inv d.it = false := hasKey_false_of_above ds d hsorted.1
      rw [hno, hstep]
      simp [lookupDPs]
    · by_cases hh : hasKey ds inv it = true
      · simp [hh, hk, lookupDPs]
      · have hh' : hasKey ds inv it = false := by simpa using hh
        rw [hh', hstep]
        simp [hk]

/-! ### all runs -/

theorem findRun_cons {β : Type} (r r0 : Run) (b : β) (rest : List (Run × β)) :
    findRun r ((r0, b) :: rest) = if r0 = r then some b else findRun r rest := rfl

theorem encRuns2_spec (c : Cache) (t : CritTab) (h : wellShaped c) :
    Ext t (encRuns2 t c).1 ∧
    ∀ suf r inv it cr,
      (findRun r (encRuns2 t c).2).bind (fun es => lookupE ((encRuns2 t c).1 ++ suf) es inv it cr)
        = lookupCache c r inv it cr := by
  induction c generalizing t with
  | nil => exact ⟨Ext.refl t, fun suf r inv it cr => rfl⟩
  | cons p rest ih =>
    obtain ⟨r0, ds⟩ := p
    have hds : dpsShaped ds := h (r0, ds) (by simp)
    have hrest : wellShaped rest := fun q hq => h q (by simp [hq])
    have hinv0 : InvE t [] 0 0 := by intro inv cols hc; simp [entryCols] at hc
    have hall : ∀ d ∈ ds, Above 0 0 d ∧ 1 ≤ d.it ∧ (d.ms.map (·.crit)).Nodup := by
      intro d hd
      obtain ⟨h1, h2⟩ := hds.2 d hd
      refine ⟨?_, h1, h2⟩
      unfold Above; omega
    obtain ⟨he1, hlk1⟩ := foldDP_spec ds t [] 0 0 hinv0 hds.1 hall
    obtain ⟨he2, hlk2⟩ := ih (ds.foldl addDP (t, [])).1 hrest
    simp only [encRuns2]
    refine ⟨he1.trans he2, ?_⟩
    intro suf r inv it cr
    rw [findRun_cons]
    unfold lookupCache
    rw [findRun_cons]
    by_cases hr : r0 = r
    · simp only [hr, if_true, Option.bind_some]
      obtain ⟨s2, hs2⟩ := he2
      have := hlk1 (s2 ++ suf) inv it cr
      rw [← List.append_assoc, ← hs2] at this
      rw [this]
      by_cases hh : hasKey ds inv it = true
      · simp [hh]
      · have hh' : hasKey ds inv it = false := by simpa using hh
        rw [hh', lookupDPs_none ds inv it cr hh']
        cases it <;> simp [lookupE, entryCols]
    · simp only [hr, if_false]
      exact hlk2 suf r inv it cr

theorem encodeV2_lookup (c : Cache) (h : wellShaped c) (r : Run) (inv it : Nat) (cr : Crit) :
    lookupV2 (encodeV2 c) r inv it cr = lookupCache c r inv it cr := by
  have := (encRuns2_spec c [] h).2 [] r inv it cr
  unfold lookupV2 encodeV2
  simp only [List.append_nil] at this
  rw [← this]
  congr 1
  funext es
  exact lookupEntries_eq _ _ _ _ _

end RB.DB
