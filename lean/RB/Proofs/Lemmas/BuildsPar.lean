/-
Helper lemmas for C13, parallel scheduler: the interleaving invariant of the
repaired (locked) model.
-/
import RB.Proofs.Lemmas.Builds

namespace RB.Builds

/-- the worker is inside the critical section for build `b` -/
def Busy (pc : PC) (b : Build) : Prop :=
  ∃ run k, pc = .atBuild run k b ∨ pc = .building run k b

/-- the script of `b` has been started by this worker and is not yet marked -/
def InBuilding (pc : PC) (b : Build) : Prop := ∃ run k, pc = .building run k b

theorem InBuilding.busy {pc b} (h : InBuilding pc b) : Busy pc b := by
  obtain ⟨r, k, e⟩ := h; exact ⟨r, k, Or.inr e⟩

/-- the interleaving invariant; `x` is a worker that is exempt (it is in the middle of
its own step) -/
structure PInvX (x : Option Nat) (ps : PSt) : Prop where
  lockA : ∀ j w, some j ≠ x → ps.workers[j]? = some w → ∀ b, Busy w.pc b →
    ps.lock = some j ∧ b ∉ ps.st.built ∧ b ∉ ps.st.failed
  once : ∀ b, starts b ps.st.trace ≤ 1
  fresh : ∀ b, b ∉ ps.st.built → b ∉ ps.st.failed →
    (∀ j w, some j ≠ x → ps.workers[j]? = some w → ¬ InBuilding w.pc b) →
    starts b ps.st.trace = 0

/-- a transition of worker `i` that starts no script and marks nothing: at most it
takes the free lock and stops right before starting `b` -/
structure Quiet (i : Nat) (ps ps' : PSt) (pc' : PC) : Prop where
  trace : ps'.st.trace = ps.st.trace
  built : ps'.st.built = ps.st.built
  failed : ps'.st.failed = ps.st.failed
  workers : ps'.workers = ps.workers
  lock : (ps'.lock = ps.lock ∧ ∀ b, ¬ Busy pc' b) ∨
         (ps.lock = none ∧ ps'.lock = some i ∧
           ∃ run j b, pc' = .atBuild run j b ∧ b ∉ ps.st.built ∧ b ∉ ps.st.failed)

/-- the two states agree on everything the invariant talks about -/
structure Same (ps ps' : PSt) : Prop where
  trace : ps'.st.trace = ps.st.trace
  built : ps'.st.built = ps.st.built
  failed : ps'.st.failed = ps.st.failed
  workers : ps'.workers = ps.workers
  lock : ps'.lock = ps.lock

theorem Same.refl (ps : PSt) : Same ps ps := ⟨rfl, rfl, rfl, rfl, rfl⟩

theorem quiet_of_same {i ps ps1 ps' pc'} (hs : Same ps ps1) (hq : Quiet i ps1 ps' pc') :
    Quiet i ps ps' pc' := by
  refine ⟨hq.trace.trans hs.trace, hq.built.trans hs.built, hq.failed.trans hs.failed,
    hq.workers.trans hs.workers, ?_⟩
  rcases hq.lock with ⟨h1, h2⟩ | ⟨h1, h2, run, j, b, h3, h4, h5⟩
  · exact Or.inl ⟨h1.trans hs.lock, h2⟩
  · refine Or.inr ⟨hs.lock ▸ h1, h2, run, j, b, h3, ?_, ?_⟩
    · rw [← hs.built]; exact h4
    · rw [← hs.failed]; exact h5

theorem same_inv {x ps ps'} (hs : Same ps ps') (h : PInvX x ps) : PInvX x ps' := by
  refine ⟨?_, ?_, ?_⟩
  · intro j w hj hw b hb
    rw [hs.workers] at hw
    have := h.lockA j w hj hw b hb
    rw [hs.lock, hs.built, hs.failed]; exact this
  · intro b; rw [hs.trace]; exact h.once b
  · intro b h1 h2 h3
    rw [hs.trace]
    rw [hs.built] at h1; rw [hs.failed] at h2
    refine h.fresh b h1 h2 ?_
    intro j w hj hw
    exact h3 j w hj (by rw [hs.workers]; exact hw)

theorem not_busy_idle (b : Build) : ¬ Busy PC.idle b := by
  rintro ⟨r, k, h | h⟩ <;> cases h
theorem not_busy_dead (b : Build) : ¬ Busy PC.dead b := by
  rintro ⟨r, k, h | h⟩ <;> cases h
theorem not_busy_atStart (run : Run) (b : Build) : ¬ Busy (PC.atStart run) b := by
  rintro ⟨r, k, h | h⟩ <;> cases h
theorem not_busy_running (run : Run) (b : Build) : ¬ Busy (PC.running run) b := by
  rintro ⟨r, k, h | h⟩ <;> cases h
theorem not_busy_wantLock (run : Run) (k : Nat) (b : Build) : ¬ Busy (PC.wantLock run k) b := by
  rintro ⟨r, k', h | h⟩ <;> cases h

theorem nextBuild_not_built {st : St} {run : Run} {k j : Nat} {b : Build}
    (h : nextBuild st run k = some (j, b)) : b ∉ st.built := by
  unfold nextBuild at h
  simp only at h
  intro hb
  have chk : ∀ jj, (match run.buildAt jj with
      | some b' => if b' ∈ st.built then none else some (jj, b')
      | none => (none : Option (Nat × Build))) = some (j, b) → False := by
    intro jj hc
    cases hba : run.buildAt jj with
    | none => simp [hba] at hc
    | some b' =>
      simp only [hba] at hc
      by_cases hb' : b' ∈ st.built
      · simp [hb'] at hc
      · simp [hb'] at hc
        obtain ⟨_, rfl⟩ := hc
        exact hb' hb
  split at h
  · split at h
    · rename_i x hx
      cases h
      exact chk 0 hx
    · exact chk 1 h
  · split at h
    · exact chk 1 h
    · cases h

theorem enterBuilds_spec (c : PCfg) (hl : c.locked = true) (i : Nat) (ps : PSt) (run : Run) (k : Nat) :
    let r := enterBuilds c i ps run k
    (r.2.2 = true → Same ps r.1) ∧ (r.2.2 = false → Quiet i ps r.1 r.2.1) := by
  unfold enterBuilds
  by_cases hB : c.doBuilds = true
  · simp only [hB, Bool.not_true, Bool.false_eq_true, if_false]
    cases hn : nextBuild ps.st run k with
    | none =>
      simp only
      refine ⟨(by intro h; cases h), fun _ => ⟨rfl, rfl, rfl, rfl, Or.inl ⟨rfl, not_busy_atStart run⟩⟩⟩
    | some jb =>
      obtain ⟨j, b⟩ := jb
      simp only [hl, Bool.true_and]
      by_cases hlock : ps.lock.isSome = true
      · simp only [hlock, if_true]
        exact ⟨(by intro h; cases h), fun _ => ⟨rfl, rfl, rfl, rfl, Or.inl ⟨rfl, not_busy_wantLock run j⟩⟩⟩
      · have hnone : ps.lock = none := by
          cases hps : ps.lock with
          | none => rfl
          | some v => simp [hps] at hlock
        simp only [hlock, Bool.false_eq_true, if_false]
        by_cases hf : b ∈ ps.st.failed
        · simp only [hf, if_true]
          exact ⟨fun _ => ⟨rfl, rfl, rfl, rfl, rfl⟩, (by intro h; cases h)⟩
        · simp only [hf, if_false, if_true]
          refine ⟨(by intro h; cases h), fun _ => ⟨rfl, rfl, rfl, rfl, Or.inr ⟨hnone, rfl, run, j, b, rfl, ?_, hf⟩⟩⟩
          exact nextBuild_not_built hn
  · have hB' : c.doBuilds = false := by simpa using hB
    simp only [hB', Bool.not_false, if_true]
    exact ⟨(by intro h; cases h), fun _ => ⟨rfl, rfl, rfl, rfl, Or.inl ⟨rfl, not_busy_atStart run⟩⟩⟩

theorem pickLocal_same (s : Sched) (ps : PSt) (len : Nat) : Same ps (pickLocal s ps len).2 := by
  unfold pickLocal
  cases s <;> try exact Same.refl ps
  cases ps.choices <;> exact ⟨rfl, rfl, rfl, rfl, rfl⟩

theorem advance_quiet (c : PCfg) (hl : c.locked = true) (n i : Nat) :
    ∀ (fuel : Nat) (ps : PSt) (w : Worker),
      Quiet i ps (advance c n i fuel ps w).1 (advance c n i fuel ps w).2.pc := by
  intro fuel
  induction fuel with
  | zero =>
    intro ps w
    simp only [advance]
    exact ⟨rfl, rfl, rfl, rfl, Or.inl ⟨rfl, not_busy_dead⟩⟩
  | succ fuel ih =>
    intro ps w
    unfold advance
    split
    · split
      · exact ⟨rfl, rfl, rfl, rfl, Or.inl ⟨rfl, not_busy_dead⟩⟩
      · simp only
        exact quiet_of_same (ps1 := { ps with remaining := (acquireWork n ps.remaining).2 })
          ⟨rfl, rfl, rfl, rfl, rfl⟩ (ih _ _)
    · rename_i r0 rs0 _
      have hsame := pickLocal_same c.sched ps (r0 :: rs0).length
      simp only
      split
      · exact quiet_of_same hsame ⟨rfl, rfl, rfl, rfl, Or.inl ⟨rfl, not_busy_dead⟩⟩
      · rename_i run _
        split
        · exact quiet_of_same hsame (ih _ _)
        · have hs := enterBuilds_spec c hl i (pickLocal c.sched ps (r0 :: rs0).length).2 run 0
          simp only at hs
          split
          · rename_i hr
            exact quiet_of_same hsame (quiet_of_same (hs.1 hr) (ih _ _))
          · rename_i hr
            exact quiet_of_same hsame (hs.2 (by simpa using hr))

theorem getElem?_put_self {ps : PSt} {i : Nat} {w0 w : Worker} (h : ps.workers[i]? = some w0) :
    (ps.put i w).workers[i]? = some w := by
  have hlt : i < ps.workers.length := by
    rcases Nat.lt_or_ge i ps.workers.length with h' | h'
    · exact h'
    · rw [List.getElem?_eq_none h'] at h; cases h
  simp [PSt.put, hlt]

theorem getElem?_put_ne {ps : PSt} {i j : Nat} {w : Worker} (h : j ≠ i) :
    (ps.put i w).workers[j]? = ps.workers[j]? := by
  simp [PSt.put, List.getElem?_set_ne (Ne.symm h)]

theorem put_inv {i : Nat} {ps ps' : PSt} {w0 w' : Worker}
    (h : PInvX (some i) ps) (hq : Quiet i ps ps' w'.pc) (hw : ps.workers[i]? = some w0) :
    PInvX none (ps'.put i w') := by
  have hw' : ps'.workers[i]? = some w0 := by rw [hq.workers]; exact hw
  have hst : (ps'.put i w').st = ps'.st := rfl
  have hlk : (ps'.put i w').lock = ps'.lock := rfl
  refine ⟨?_, ?_, ?_⟩
  · intro j wj _ hj b hb
    rw [hst, hlk, hq.built, hq.failed]
    by_cases hji : j = i
    · subst hji
      rw [getElem?_put_self hw'] at hj
      cases hj
      rcases hq.lock with ⟨_, h2⟩ | ⟨_, h2, run, k, b0, h3, h4, h5⟩
      · exact absurd hb (h2 b)
      · have : b = b0 := by
          obtain ⟨r, k', e | e⟩ := hb <;> rw [h3] at e <;> cases e <;> rfl
        subst this
        exact ⟨h2, h4, h5⟩
    · rw [getElem?_put_ne hji, hq.workers] at hj
      obtain ⟨a1, a2, a3⟩ := h.lockA j wj (by simpa using hji) hj b hb
      refine ⟨?_, a2, a3⟩
      rcases hq.lock with ⟨h1, _⟩ | ⟨h1, _, _⟩
      · rw [h1]; exact a1
      · rw [h1] at a1; cases a1
  · intro b; rw [hst, hq.trace]; exact h.once b
  · intro b h1 h2 h3
    rw [hst] at h1 h2 ⊢
    rw [hq.trace]
    rw [hq.built] at h1; rw [hq.failed] at h2
    refine h.fresh b h1 h2 ?_
    intro j wj hj hwj
    have hji : j ≠ i := by intro e; subst e; exact hj rfl
    exact h3 j wj (by simp) (by rw [getElem?_put_ne hji, hq.workers]; exact hwj)

theorem exclude {i : Nat} {ps : PSt} {w : Worker} (h : PInvX none ps)
    (hw : ps.workers[i]? = some w) (hnb : ∀ b, ¬ InBuilding w.pc b) : PInvX (some i) ps := by
  refine ⟨fun j wj _ hj b hb => h.lockA j wj (by simp) hj b hb, h.once, ?_⟩
  intro b h1 h2 h3
  refine h.fresh b h1 h2 ?_
  intro j wj _ hwj
  by_cases hji : j = i
  · subst hji; rw [hw] at hwj; cases hwj; exact hnb b
  · exact h3 j wj (by simpa using hji) hwj

/-- appending an event that is not a build start and changes no flag -/
theorem emit_inv {x : Option Nat} {ps : PSt} (e : Ev) (he : ∀ b d env r, e ≠ Ev.buildStart b d env r)
    (h : PInvX x ps) : PInvX x { ps with st := ps.st.emit e } := by
  have hs : ∀ b, starts b (ps.st.trace ++ [e]) = starts b ps.st.trace := by
    intro b
    rw [starts_snoc]
    cases e with
    | buildStart b' d env r => exact absurd rfl (he b' d env r)
    | _ => rfl
  refine ⟨?_, ?_, ?_⟩
  · intro j w hj hw b hb; exact h.lockA j w hj hw b hb
  · intro b; simp only [St.emit, hs]; exact h.once b
  · intro b h1 h2 h3; simp only [St.emit, hs]; exact h.fresh b h1 h2 h3

theorem continueWith_inv (c : PCfg) (hl : c.locked = true) (n fuel i : Nat) {ps : PSt} {w0 : Worker}
    (w : Worker) (run : Run) (k : Nat)
    (h : PInvX (some i) ps) (hw : ps.workers[i]? = some w0) :
    PInvX none (continueWith c n fuel i ps w run k) := by
  unfold continueWith
  have hs := enterBuilds_spec c hl i ps run k
  simp only at hs ⊢
  split
  · rename_i hr
    have hsame := hs.1 hr
    have h' := same_inv hsame h
    have hw' : (enterBuilds c i ps run k).1.workers[i]? = some w0 := by rw [hsame.workers]; exact hw
    exact put_inv h' (advance_quiet c hl n i fuel _ _) hw'
  · rename_i hr
    exact put_inv (w' := { w with pc := (enterBuilds c i ps run k).2.1 }) h (hs.2 (by simpa using hr)) hw

theorem not_inBuilding_of_ne {pc : PC} (h : ∀ run k b, pc ≠ .building run k b) (b : Build) :
    ¬ InBuilding pc b := by
  rintro ⟨r, k, e⟩; exact h r k b e

/-- marking the build whose script this worker ran, lock released -/
theorem mark_inv {i : Nat} {ps : PSt} {w : Worker} {run : Run} {k : Nat} {b : Build}
    (h : PInvX none ps) (hw : ps.workers[i]? = some w) (hpc : w.pc = .building run k b)
    (st' : St) (htr : ∀ b', starts b' st'.trace = starts b' ps.st.trace)
    (hflags : (st'.built = b :: ps.st.built ∧ st'.failed = ps.st.failed) ∨
              (st'.built = ps.st.built ∧ st'.failed = b :: ps.st.failed)) :
    PInvX (some i) { ps with lock := none, st := st' } := by
  have hbusy : Busy w.pc b := ⟨run, k, Or.inr hpc⟩
  obtain ⟨hlk, _, _⟩ := h.lockA i w (by simp) hw b hbusy
  refine ⟨?_, ?_, ?_⟩
  · intro j wj hj hwj b' hb'
    obtain ⟨a1, _, _⟩ := h.lockA j wj (by simp) hwj b' hb'
    rw [hlk] at a1
    have : j = i := by cases a1; rfl
    subst this; exact absurd rfl hj
  · intro b'; simp only [htr]; exact h.once b'
  · intro b' h1 h2 h3
    simp only [htr]
    have hne : b' ≠ b := by
      rintro rfl
      rcases hflags with ⟨e1, _⟩ | ⟨_, e2⟩
      · exact h1 (by simp [e1])
      · exact h2 (by simp [e2])
    have h1' : b' ∉ ps.st.built := by
      rcases hflags with ⟨e1, _⟩ | ⟨e1, _⟩
      · intro hm; exact h1 (by simp [e1, hm])
      · intro hm; exact h1 (by simp [e1, hm])
    have h2' : b' ∉ ps.st.failed := by
      rcases hflags with ⟨_, e2⟩ | ⟨_, e2⟩
      · intro hm; exact h2 (by simp [e2, hm])
      · intro hm; exact h2 (by simp [e2, hm])
    refine h.fresh b' h1' h2' ?_
    intro j wj _ hwj
    by_cases hji : j = i
    · subst hji
      rw [hw] at hwj; cases hwj
      rintro ⟨r, k', e⟩
      rw [hpc] at e; cases e; exact hne rfl
    · exact h3 j wj (by simpa using hji) hwj

theorem pstep_inv (c : PCfg) (hl : c.locked = true) (n fuel i : Nat) {ps : PSt} (h : PInvX none ps) :
    PInvX none (pstep c n fuel i ps) := by
  unfold pstep
  cases hw : ps.workers[i]? with
  | none => exact h
  | some w =>
    simp only
    cases hpc : w.pc with
    | dead => exact h
    | idle =>
      simp only
      have hx := exclude h hw (not_inBuilding_of_ne (by intro r k b e; rw [hpc] at e; cases e))
      exact put_inv hx (advance_quiet c hl n i fuel ps w) hw
    | wantLock run k =>
      simp only
      cases hlock : ps.lock with
      | some _ => exact h
      | none =>
        simp only
        exact continueWith_inv c hl n fuel i w run k
          (exclude h hw (not_inBuilding_of_ne (by intro r k b e; rw [hpc] at e; cases e))) hw
    | atStart run =>
      simp only
      have h1 : PInvX none { ps with st := ps.st.emit (Ev.start run.id) } :=
        emit_inv _ (by intro b d env r e; cases e) h
      have hx := exclude (i := i) (w := w) h1 hw
        (not_inBuilding_of_ne (by intro r k b e; rw [hpc] at e; cases e))
      exact put_inv (w' := { w with pc := .running run }) hx
        ⟨rfl, rfl, rfl, rfl, Or.inl ⟨rfl, not_busy_running run⟩⟩ hw
    | running run =>
      simp only
      have h1 : PInvX none { ps with st := ps.st.emit (Ev.finish run.id) } :=
        emit_inv _ (by intro b d env r e; cases e) h
      have hx := exclude (i := i) (w := w) h1 hw
        (not_inBuilding_of_ne (by intro r k b e; rw [hpc] at e; cases e))
      exact put_inv hx (advance_quiet c hl n i fuel _ _) hw
    | atBuild run k b =>
      simp only
      have hbusy : Busy w.pc b := ⟨run, k, Or.inl hpc⟩
      obtain ⟨hlk, hnb, hnf⟩ := h.lockA i w (by simp) hw b hbusy
      have hnobody : ∀ j wj, some j ≠ (none : Option Nat) → ps.workers[j]? = some wj → ¬ InBuilding wj.pc b := by
        intro j wj _ hwj hin
        obtain ⟨a1, _, _⟩ := h.lockA j wj (by simp) hwj b hin.busy
        rw [hlk] at a1
        have : j = i := by cases a1; rfl
        subst this
        rw [hw] at hwj; cases hwj
        obtain ⟨r, k', e⟩ := hin
        rw [hpc] at e; cases e
      have h0 := h.fresh b hnb hnf hnobody
      let ps1 : PSt := { ps with st := ps.st.emit (Ev.buildStart b (dirOf c.cwd c.home b) run.env run.id) }
      let w1 : Worker := { w with pc := PC.building run k b }
      have hw1 : ps1.workers[i]? = some w := hw
      have hself : (ps1.put i w1).workers[i]? = some w1 := getElem?_put_self hw1
      have hother : ∀ j, j ≠ i → (ps1.put i w1).workers[j]? = ps.workers[j]? :=
        fun j hj => getElem?_put_ne hj
      show PInvX none (ps1.put i w1)
      refine ⟨?_, ?_, ?_⟩
      · intro j wj _ hj b' hb'
        show ps.lock = some j ∧ b' ∉ ps.st.built ∧ b' ∉ ps.st.failed
        by_cases hji : j = i
        · subst hji
          rw [hself] at hj
          cases hj
          have : b' = b := by
            obtain ⟨r, k', e | e⟩ := hb' <;> cases e <;> rfl
          subst this
          exact ⟨hlk, hnb, hnf⟩
        · rw [hother j hji] at hj
          exact h.lockA j wj (by simp) hj b' hb'
      · intro b'
        show starts b' (ps.st.trace ++ [_]) ≤ 1
        rw [starts_snoc]
        by_cases hbb : b = b'
        · subst hbb; simp [h0]
        · simp [hbb]; exact h.once b'
      · intro b' h1 h2 h3
        show starts b' (ps.st.trace ++ [_]) = 0
        rw [starts_snoc]
        by_cases hbb : b = b'
        · subst hbb
          exfalso
          exact h3 i w1 (by simp) hself ⟨run, k, rfl⟩
        · simp [hbb]
          refine h.fresh b' h1 h2 ?_
          intro j wj _ hwj
          by_cases hji : j = i
          · subst hji
            rw [hw] at hwj; cases hwj
            rintro ⟨r, k', e⟩; rw [hpc] at e; cases e
          · exact h3 j wj (by simp) (by rw [hother j hji]; exact hwj)
    | building run k b =>
      simp only [hl, if_true]
      cases hres : c.res b with
      | ok =>
        simp only
        refine continueWith_inv c hl n fuel i w run (k + 1) (ps := { ps with lock := none, st := _ }) ?_ hw
        exact mark_inv h hw hpc _ (by intro b'; simp [St.emit, starts_snoc]) (Or.inl ⟨rfl, rfl⟩)
      | fail =>
        simp only
        have hm := mark_inv h hw hpc
          { ps.st.emit (Ev.buildEnd b .fail) with failed := b :: ps.st.failed, failImm := run.id :: ps.st.failImm }
          (by intro b'; simp [St.emit, starts_snoc]) (Or.inr ⟨rfl, rfl⟩)
        simp only [decide_true, Bool.true_or, if_true]
        exact put_inv hm (advance_quiet c hl n i fuel _ _) hw
      | oserr =>
        simp only
        have hm := mark_inv h hw hpc
          { ps.st.emit (Ev.buildEnd b .oserr) with failed := b :: ps.st.failed, failImm := run.id :: ps.st.failImm }
          (by intro b'; simp [St.emit, starts_snoc]) (Or.inr ⟨rfl, rfl⟩)
        split
        · exact put_inv hm (advance_quiet c hl n i fuel _ _) hw
        · exact continueWith_inv c hl n fuel i w run (k + 1) hm hw

theorem prun_inv (c : PCfg) (hl : c.locked = true) (n fuel : Nat) (picks : List Nat) :
    ∀ ps, PInvX none ps → PInvX none (prun c n fuel picks ps) := by
  induction picks with
  | nil => intro ps h; exact h
  | cons i is ih => intro ps h; exact ih _ (pstep_inv c hl n fuel i h)

end RB.Builds
