import RB.Model.Stats
import Mathlib.Tactic.Ring
import Mathlib.Tactic.FieldSimp
import Mathlib.Tactic.Linarith
import Mathlib.Algebra.Order.Field.Rat

namespace RB.Stats

theorem foldl_add_acc (a : Rat) (xs : List Rat) :
    xs.foldl (· + ·) a = a + xs.foldl (· + ·) 0 := by
  induction xs generalizing a with
  | nil => simp
  | cons x xs ih => simp only [List.foldl_cons]; rw [ih (a + x), ih (0 + x)]; ring

theorem sum_nil : sum [] = 0 := rfl
theorem sum_cons (x : Rat) (xs : List Rat) : sum (x :: xs) = x + sum xs := by
  unfold sum; simp only [List.foldl_cons]; rw [foldl_add_acc]; ring
theorem sum_append (xs ys : List Rat) : sum (xs ++ ys) = sum xs + sum ys := by
  induction xs with
  | nil => simp [sum_nil]
  | cons x xs ih => simp only [List.cons_append, sum_cons, ih]; ring
theorem sum_snoc (xs : List Rat) (x : Rat) : sum (xs ++ [x]) = sum xs + x := by
  rw [sum_append, sum_cons, sum_nil]; ring

def sumsq (xs : List Rat) : Rat := sum (xs.map (fun x => x * x))

theorem sumsq_snoc (xs : List Rat) (x : Rat) : sumsq (xs ++ [x]) = sumsq xs + x * x := by
  unfold sumsq; rw [List.map_append, sum_append]; simp [sum_cons, sum_nil]

/-- Σ (x − c)² = Σx² − 2c·Σx + n·c² -/
theorem sum_sq_dev (c : Rat) (xs : List Rat) :
    sum (xs.map (fun x => (x - c) * (x - c))) =
      sumsq xs - 2 * c * sum xs + (xs.length : Rat) * c * c := by
  induction xs with
  | nil => simp [sumsq, sum_nil]
  | cons x xs ih =>
    simp only [List.map_cons, sum_cons, sumsq, List.length_cons] at *
    rw [ih]; push_cast; ring

theorem perm_sum {xs ys : List Rat} (h : xs.Perm ys) : sum xs = sum ys := by
  induction h with
  | nil => rfl
  | cons x _ ih => simp [sum_cons, ih]
  | swap x y l => simp only [sum_cons]; ring
  | trans _ _ ih1 ih2 => exact ih1.trans ih2

/-- list minimum / maximum, order-free characterisation -/
theorem foldl_min_le (xs : List Rat) : ∀ (a : Rat),
    xs.foldl rmin a ≤ a ∧
    (∀ y ∈ xs, xs.foldl rmin a ≤ y) ∧
    (xs.foldl rmin a = a ∨
      xs.foldl rmin a ∈ xs) := by
  induction xs with
  | nil => intro a; simp
  | cons x xs ih =>
    intro a
    simp only [List.foldl_cons]
    by_cases hc : x < a
    · simp only [rmin, hc, if_true]
      obtain ⟨h1, h2, h3⟩ := ih x
      refine ⟨by linarith, ?_, ?_⟩
      · intro y hy
        rcases List.mem_cons.mp hy with rfl | hy
        · exact h1
        · exact h2 y hy
      · right
        rcases h3 with h3 | h3
        · rw [h3]; exact List.mem_cons_self
        · exact List.mem_cons_of_mem _ h3
    · simp only [rmin, hc, if_false]
      obtain ⟨h1, h2, h3⟩ := ih a
      refine ⟨h1, ?_, ?_⟩
      · intro y hy
        rcases List.mem_cons.mp hy with rfl | hy
        · linarith
        · exact h2 y hy
      · rcases h3 with h3 | h3
        · left; exact h3
        · right; exact List.mem_cons_of_mem _ h3

theorem foldl_max_ge (xs : List Rat) : ∀ (a : Rat),
    a ≤ xs.foldl rmax a ∧
    (∀ y ∈ xs, y ≤ xs.foldl rmax a) ∧
    (xs.foldl rmax a = a ∨
      xs.foldl rmax a ∈ xs) := by
  induction xs with
  | nil => intro a; simp
  | cons x xs ih =>
    intro a
    simp only [List.foldl_cons]
    by_cases hc : a < x
    · simp only [rmax, hc, if_true]
      obtain ⟨h1, h2, h3⟩ := ih x
      refine ⟨by linarith, ?_, ?_⟩
      · intro y hy
        rcases List.mem_cons.mp hy with rfl | hy
        · exact h1
        · exact h2 y hy
      · right
        rcases h3 with h3 | h3
        · rw [h3]; exact List.mem_cons_self
        · exact List.mem_cons_of_mem _ h3
    · simp only [rmax, hc, if_false]
      obtain ⟨h1, h2, h3⟩ := ih a
      refine ⟨h1, ?_, ?_⟩
      · intro y hy
        rcases List.mem_cons.mp hy with rfl | hy
        · linarith
        · exact h2 y hy
      · rcases h3 with h3 | h3
        · left; exact h3
        · right; exact List.mem_cons_of_mem _ h3

theorem tmin_spec (x : Rat) (xs : List Rat) :
    tmin (x :: xs) ∈ (x :: xs) ∧ ∀ y ∈ (x :: xs), tmin (x :: xs) ≤ y := by
  have h := foldl_min_le xs x
  simp only [tmin]
  obtain ⟨h1, h2, h3⟩ := h
  constructor
  · rcases h3 with h3 | h3
    · rw [h3]; exact List.mem_cons_self
    · exact List.mem_cons_of_mem _ h3
  · intro y hy
    rcases List.mem_cons.mp hy with rfl | hy
    · exact h1
    · exact h2 y hy

theorem tmax_spec (x : Rat) (xs : List Rat) :
    tmax (x :: xs) ∈ (x :: xs) ∧ ∀ y ∈ (x :: xs), y ≤ tmax (x :: xs) := by
  have h := foldl_max_ge xs x
  simp only [tmax]
  obtain ⟨h1, h2, h3⟩ := h
  constructor
  · rcases h3 with h3 | h3
    · rw [h3]; exact List.mem_cons_self
    · exact List.mem_cons_of_mem _ h3
  · intro y hy
    rcases List.mem_cons.mp hy with rfl | hy
    · exact h1
    · exact h2 y hy

theorem tmin_snoc (y : Rat) (ys : List Rat) (x : Rat) :
    tmin ((y :: ys) ++ [x]) = rmin (tmin (y :: ys)) x := by
  simp only [tmin, List.cons_append, List.foldl_append, List.foldl_cons, List.foldl_nil]

theorem tmax_snoc (y : Rat) (ys : List Rat) (x : Rat) :
    tmax ((y :: ys) ++ [x]) = rmax (tmax (y :: ys)) x := by
  simp only [tmax, List.cons_append, List.foldl_append, List.foldl_cons, List.foldl_nil]

/-- The refinement invariant: the streaming state is a function of the list
of samples seen so far. -/
structure Inv (s : S) (ys : List Rat) : Prop where
  ne   : ys ≠ []
  n    : s.n = ys.length
  mean : s.mean * (ys.length : Rat) = sum ys
  m2   : s.m2 = sumsq ys - (ys.length : Rat) * s.mean * s.mean
  min  : s.min = tmin ys
  max  : s.max = tmax ys

theorem inv_first (x : Rat) : Inv (add init x) [x] := by
  refine ⟨by simp, ?_, ?_, ?_, ?_, ?_⟩ <;>
    simp [add, init, sum_cons, sum_nil, sumsq, tmin, tmax]

theorem inv_step (s : S) (ys : List Rat) (x : Rat) (h : Inv s ys) :
    Inv (add s x) (ys ++ [x]) := by
  obtain ⟨hne, hn, hmean, hm2, hmin, hmax⟩ := h
  have hpos : s.n ≠ 0 := by
    rw [hn]; intro h0; exact hne (List.length_eq_zero_iff.mp h0)
  have hlen : ((ys ++ [x]).length : Rat) = (ys.length : Rat) + 1 := by simp
  have hL : ((ys.length : Rat) + 1) ≠ 0 := by positivity
  obtain ⟨y, ys', rfl⟩ := List.exists_cons_of_ne_nil hne
  refine ⟨by simp, ?_, ?_, ?_, ?_, ?_⟩
  · simp [add, hn]
  · rw [sum_snoc, hlen]
    simp only [add, hpos, if_false]
    rw [← hmean, hn]; push_cast; field_simp; ring
  · rw [sumsq_snoc, hlen]
    simp only [add, hpos, if_false]
    rw [hm2, hn]; push_cast
    have hs : sum (y :: ys') = s.mean * ((y :: ys').length : Rat) := hmean.symm
    field_simp
    ring
  · rw [tmin_snoc]; simp only [add, hpos, if_false, hmin]
  · rw [tmax_snoc]; simp only [add, hpos, if_false, hmax]

theorem inv_fold (xs : List Rat) : ∀ (s : S) (ys : List Rat), Inv s ys →
    Inv (addAll s xs) (ys ++ xs) := by
  induction xs with
  | nil => intro s ys h; simpa [addAll] using h
  | cons x xs ih =>
    intro s ys h
    have := ih (add s x) (ys ++ [x]) (inv_step s ys x h)
    simpa [addAll, List.append_assoc] using this

theorem inv_all (x : Rat) (xs : List Rat) : Inv (addAll init (x :: xs)) (x :: xs) := by
  have := inv_fold xs (add init x) [x] (inv_first x)
  simpa [addAll] using this

end RB.Stats
