import RB.Gen.CliSession
import RB.Model.Sched
import RB.Model.RunsAbs
/-!
# Translation tie for the experiment selection and the exit status (C10)

`RB.Gen.CliSession` is generated from the current source by `tools/py2lean_fn.py`:
`ReBench.determine_exp_name_and_filters` (which command-line argument names the experiment, which are filters) and
`main_func` (what the process exits with when `ReBench.run()` returns true / false or raises).

Proved here: the generated split is the documented one (the first argument names the experiment unless it is a
filter expression `e:` / `s:` / `t:`; every filter expression, wherever it stands, is a filter; nothing else is),
in particular for the arguments the model's filters are written as (`RB.Runs.FilterSpec.render`) and for an
experiment name that contains a colon; and the generated exit status is the model's (`RB.Sched.Status`): 0 / 1 / 2 / 3
for ok / failed / aborted / user-facing error, distinct, and an exception no handler names propagates.
Not imported by `RB.lean`: built by the `gen` entry of the obligations.
-/
namespace RB.Sched
open RB.Py RB.Gen.CliSession

/-! ### which argument names the experiment -/

/-- a filter expression: `e:…`, `s:…` or `t:…` -/
def isFilterArg (a : List Char) : Bool :=
  ['e', ':'].isPrefixOf a || ['s', ':'].isPrefixOf a || ['t', ':'].isPrefixOf a

/-- the documented split of the positional arguments -/
def splitArgs (args : List (List Char)) : V × List V :=
  (match args with
   | a :: _ => if isFilterArg a then V.none else V.str a
   | [] => V.none,
   (args.filter isFilterArg).map V.str)

/-- the condition of the generated comprehension, named -/
def filtC (f : V) : Option Bool :=
  ((((V.startswith ['e', ':'] f).bind fun t43 => some t43).bind fun t42 => if t42 then some true else (((V.startswith ['s', ':'] f).bind fun t41 => some t41).bind fun t40 => if t40 then some true else ((V.startswith ['t', ':'] f).bind fun t39 => some t39))).bind fun t44 => some t44)

theorem filtC_str (a : List Char) : filtC (V.str a) = some (isFilterArg a) := by
  simp only [filtC, V.startswith, isFilterArg, Option.bind_some]
  cases ['e', ':'].isPrefixOf a <;> cases ['s', ':'].isPrefixOf a <;> cases ['t', ':'].isPrefixOf a <;> rfl

theorem filterOpt_strs (args : List (List Char)) :
    filterOpt (args.map V.str) filtC = some ((args.filter isFilterArg).map V.str) := by
  induction args with
  | nil => rfl
  | cons a r ih =>
    simp only [List.map_cons, filterOpt, filtC_str, ih, Option.bind_some, Option.map_some, List.filter_cons]
    cases isFilterArg a <;> rfl

/-- **the generated split is the documented one**, for every list of (string) arguments -/
theorem gen_determine_spec (args : List (List Char)) :
    ReBench_determine_exp_name_and_filters_args (args.map V.str) = some (splitArgs args) := by
  have hf := filterOpt_strs args
  unfold filtC at hf
  cases args with
  | nil => rfl
  | cons a r =>
    simp only [ReBench_determine_exp_name_and_filters_args, hf]
    simp only [splitArgs, List.map_cons, List.isEmpty_cons,
      List.getElem?_cons_zero, Option.bind_some, V.startswith, isFilterArg, Bool.not_false, if_true]
    rcases Bool.eq_false_or_eq_true (['e', ':'].isPrefixOf a) with h1 | h1 <;>
    rcases Bool.eq_false_or_eq_true (['s', ':'].isPrefixOf a) with h2 | h2 <;>
    rcases Bool.eq_false_or_eq_true (['t', ':'].isPrefixOf a) with h3 | h3 <;>
    simp [h1, h2, h3]

/-- only the first argument can name the experiment, and the filters do not depend on it being one -/
theorem gen_exp_name_first_only (a : List Char) (r : List (List Char)) :
    (ReBench_determine_exp_name_and_filters_args ((a :: r).map V.str)).map (·.1) =
      some (if isFilterArg a then V.none else V.str a) ∧
    (ReBench_determine_exp_name_and_filters_args (r.map V.str)).map (·.2) = some ((r.filter isFilterArg).map V.str) := by
  rw [gen_determine_spec, gen_determine_spec]
  exact ⟨rfl, rfl⟩

/-- the filters of the model, as they are written on the command line, are filter arguments -/
theorem render_isFilterArg (f : RB.Runs.FilterSpec) : isFilterArg f.render = true := by
  cases f <;> rfl

/-- an experiment name followed by filters of the model: the name is the experiment, the filters are all kept, in
order; without a name there is no experiment (the configuration's default is used) -/
theorem gen_determine_rendered (name : List Char) (specs : List RB.Runs.FilterSpec) (hn : isFilterArg name = false) :
    ReBench_determine_exp_name_and_filters_args ((name :: specs.map (·.render)).map V.str) =
      some (V.str name, (specs.map (·.render)).map V.str) ∧
    ReBench_determine_exp_name_and_filters_args ((specs.map (·.render)).map V.str) =
      some (V.none, (specs.map (·.render)).map V.str) := by
  have hall : (specs.map (·.render)).filter isFilterArg = specs.map (·.render) := by
    apply List.filter_eq_self.mpr
    intro a ha
    rcases List.mem_map.mp ha with ⟨f, _, rfl⟩
    exact render_isFilterArg f
  constructor
  · rw [gen_determine_spec]
    simp only [splitArgs, hn, List.filter_cons, hall]
    rfl
  · rw [gen_determine_spec]
    cases specs with
    | nil => rfl
    | cons f r =>
      have h1 : isFilterArg (f.render) = true := render_isFilterArg f
      simp only [List.map_cons] at hall ⊢
      simp only [splitArgs, h1, hall, if_true, List.map_cons]

/-- an experiment may have a colon in its name (`default_experiment: "nightly:x86"` is a valid configuration) -/
theorem gen_determine_colon_name :
    ReBench_determine_exp_name_and_filters_args [V.str "nightly:x86".toList, V.str "e:Vm".toList] =
      some (V.str "nightly:x86".toList, [V.str "e:Vm".toList]) ∧
    ReBench_determine_exp_name_and_filters_args [V.str "x:1".toList] = some (V.str "x:1".toList, []) := by
  decide +kernel

/-! ### the exit status -/

/-- the documented exit status (`crash`: no status of its own, the interpreter's traceback) -/
def Status.code : Status → Option V
  | .ok => some (V.int 0)
  | .failed => some (V.int 1)
  | .aborted => some (V.int 2)
  | .uiError => some (V.int 3)
  | .crash => none

/-- how `main_func` gets to see a session that ends in a status: what `run()` returns, or what it raises -/
def Status.seen (other : String) : Status → Bool × Option String
  | .ok => (true, none)
  | .failed => (false, none)
  | .aborted => (false, some "KeyboardInterrupt")
  | .uiError => (false, some "UIError")
  | .crash => (false, some other)

/-- **the generated exit status is the model's**: for every status, with any exception no handler names standing for
a crash -/
theorem gen_exit_status (st : Status) (other : String) (ho : other ∉ main_func_handled) :
    main_func (st.seen other).1 (st.seen other).2 = st.code := by
  cases st <;> try rfl
  have h1 : other ≠ "KeyboardInterrupt" := fun h => ho (by simp [main_func_handled, h])
  have h2 : other ≠ "UIError" := fun h => ho (by simp [main_func_handled, h])
  have h3 : other ≠ "BenchmarkThreadExceptions" := fun h => ho (by simp [main_func_handled, h])
  simp [Status.seen, Status.code, main_func, h1, h2, h3]

/-- the four documented statuses exit with four different numbers, and a failure inside a worker thread
(`BenchmarkThreadExceptions`) with a fifth -/
theorem gen_exit_codes_distinct :
    (∀ a b : Status, a ≠ .crash → a.code = b.code → a = b) ∧
    (∀ b, main_func b (some "BenchmarkThreadExceptions") = some (V.int 4)) ∧
    (∀ st : Status, st.code ≠ some (V.int 4)) := by
  refine ⟨?_, fun b => rfl, ?_⟩
  · intro a b ha h
    cases a <;> cases b <;> first | rfl | (exact absurd rfl ha) | (simp [Status.code] at h)
  · intro st; cases st <;> simp [Status.code]

/-- what `run()` returns matters only when nothing is raised: an interrupt is exit 2 and a user-facing error exit 3
whatever was executed before -/
theorem gen_exit_raise_wins (b : Bool) :
    main_func b (some "KeyboardInterrupt") = some (V.int 2) ∧ main_func b (some "UIError") = some (V.int 3) := by
  exact ⟨rfl, rfl⟩

end RB.Sched
