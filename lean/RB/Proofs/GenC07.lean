import RB.Gen.IdentityFields
import RB.Model.Identity
/-!
# Translation tie for the identity field lists (C07, C01)

`RB.Gen.IdentityFields` is generated from the current source by `tools/py2lean_fields.py`: per class, the
attributes `__eq__` compares, the attributes `__hash__` hashes (and in which form), the parameter -> attribute
stores of `__init__`, the key -> attribute map of `as_dict` and the parameter <- key map of `from_dict`.

Proved here, about that data:
* what is hashed is what is compared (and the hashed forms do not depend on an order of insertion);
* every compared attribute survives `from_dict(as_dict(x))` *by name*: the key `as_dict` writes it under is the
  key `from_dict` reads into the constructor parameter that `__init__` stores in that same attribute;
* the hand-written model (`RB.Model.Identity`) has the same fields, writes the same keys in the same order with
  the same values, writes the same keys unconditionally, and reads every field back from the same key.

The only hand-written link between the two sides is the table of names in the `ofPy` functions below (python
attribute name -> structure field); a structure instance must give every field, so no field can be left out.
Not part of a check's module list of `RB.lean`: built by the `gen` entry of the obligations.
-/
namespace RB.Identity
open RB.Gen
open RB.Gen.IdentityFields (ClassInfo)

/-! ### over the generated data alone -/

def sameSet (a b : List String) : Bool :=
  a.all b.contains && b.all a.contains && a.length == b.length

def nodup : List String → Bool
  | [] => true
  | x :: xs => !xs.contains x && nodup xs

def canonicalForms : List String := ["plain", "tuple", "sorted_items"]

/-- the classes with `as_dict` / `from_dict` -/
def dictClasses : List ClassInfo := [IdentityFields.ExpRunDetails, IdentityFields.ExpVariables, IdentityFields.Executor, IdentityFields.BenchmarkSuite, IdentityFields.Benchmark, IdentityFields.RunId]

/-- the attribute in which `from_dict(as_dict(x))` puts what `x` had in attribute `a` -/
def roundTripAttr (c : ClassInfo) (a : String) : Option String :=
  match c.asDict.find? (fun e => e.2.1 == a) with
  | none => none
  | some (k, _) =>
    match c.fromDict.find? (fun e => e.2 == k) with
    | none => none
    | some (p, _) => (c.initStores.find? (fun e => e.1 == p)).map (·.2)

/-- what is hashed is what is compared, once each -/
theorem gen_hash_fields_eq_fields :
    ∀ c ∈ IdentityFields.all, sameSet (c.hashFields.map (·.1)) c.eqFields = true ∧ nodup c.eqFields = true := by
  decide +kernel

/-- the hashed form of an attribute is the attribute, its `tuple(...)`, or -- for the one mapping,
`ExpRunDetails.env` -- the sorted tuple of its items: no form depends on the order in which a mapping was filled,
so equal objects hash equally -/
theorem gen_hash_forms_canonical :
    (∀ c ∈ IdentityFields.all, ∀ h ∈ c.hashFields, h.2 ∈ canonicalForms) ∧
    ("env", "sorted_items") ∈ IdentityFields.ExpRunDetails.hashFields := by
  decide +kernel

/-- every compared attribute comes back in the same attribute -/
theorem gen_round_trip_fields :
    ∀ c ∈ dictClasses, ∀ a ∈ c.eqFields, roundTripAttr c a = some a := by
  decide +kernel

/-- no key is written twice and no key is read into two parameters of a constructor -/
theorem gen_keys_distinct :
    ∀ c ∈ dictClasses, nodup (c.asDict.map (·.1)) = true ∧
      nodup ((c.fromDict.map (·.2)).filter (· != "")) = true := by
  decide +kernel

/-- `BuildCommand` is compared and hashed by command and location (C13's build key) -/
theorem gen_build_command_key :
    IdentityFields.BuildCommand.eqFields = ["command", "location"] ∧
    IdentityFields.BuildCommand.hashFields.map (·.1) = ["command", "location"] := by
  decide +kernel

/-! ### against the model: the table of names -/

def RunDetails.ofPy (f : String → Val) (env : Option (List (String × Val))) : RunDetails :=
  { invocations := f "invocations", iterations := f "iterations", warmup := f "warmup",
    minIterationTime := f "min_iteration_time", maxInvocationTime := f "max_invocation_time",
    ignoreTimeouts := f "ignore_timeouts", parallelInterferenceFactor := f "parallel_interference_factor",
    executeExclusively := f "execute_exclusively", retriesAfterFailure := f "retries_after_failure",
    env := env, invocationsOverride := f "invocations_override", iterationsOverride := f "iterations_override" }

def Vars.ofPy (f : String → List Val) : Vars :=
  { inputSizes := f "input_sizes", cores := f "cores", variableValues := f "variable_values", tags := f "tags" }

def Exec.ofPy (f : String → Val) (rd : String → RunDetails) (vs : String → Vars) : Exec :=
  { name := f "name", description := f "description", action := f "action", path := f "path",
    executable := f "executable", args := f "args", build := f "build",
    runDetails := rd "run_details", variables := vs "variables" }

def Suite.ofPy (f : String → Val) (ex : String → Exec) : Suite :=
  { name := f "name", command := f "command", location := f "location", desc := f "_desc", build := f "build",
    executor := ex "executor" }

def Bench.ofPy (f : String → Val) (rd : String → RunDetails) (vs : String → Vars) (su : String → Suite) : Bench :=
  { name := f "name", command := f "command", extraArgs := f "extra_args", runDetails := rd "run_details",
    variables := vs "variables", suite := su "suite" }

def Run.ofPy (f : String → Val) (b : String → Bench) (cmdline : String) : Run :=
  { benchmark := b "benchmark", cores := f "cores", inputSize := f "input_size", varValue := f "var_value",
    tag := f "tag", machine := f "machine", cmdline := cmdline }

/-- a different value per attribute: its position among the compared attributes -/
def mark (c : ClassInfo) (a : String) : Val := .int (c.eqFields.idxOf a + 1)
def markL (c : ClassInfo) (a : String) : List Val := [.int (c.eqFields.idxOf a + 1)]
/-- set exactly on the compared attributes -/
def onEq (c : ClassInfo) (a : String) : Val := if c.eqFields.contains a then .int 1 else .none
def pick {α} (c : ClassInfo) (yes no : α) (a : String) : α := if c.eqFields.contains a then yes else no

def sEnv : Option (List (String × Val)) := some [("B", .str "2"), ("A", .str "1")]
def sRD : RunDetails := RunDetails.ofPy (mark IdentityFields.ExpRunDetails) sEnv
def sVars : Vars := Vars.ofPy (markL IdentityFields.ExpVariables)
def sExec : Exec := Exec.ofPy (mark IdentityFields.Executor) (fun _ => sRD) (fun _ => sVars)
def sSuite : Suite := Suite.ofPy (mark IdentityFields.BenchmarkSuite) (fun _ => sExec)
def sBench : Bench := Bench.ofPy (mark IdentityFields.Benchmark) (fun _ => sRD) (fun _ => sVars) (fun _ => sSuite)
def sRun : Run := Run.ofPy (mark IdentityFields.RunId) (fun _ => sBench) "cmd"

def noRD : RunDetails := RunDetails.ofPy (fun _ => .none) none
def noVars : Vars := Vars.ofPy (fun _ => [])
def noExec : Exec := Exec.ofPy (fun _ => .none) (fun _ => noRD) (fun _ => noVars)
def noSuite : Suite := Suite.ofPy (fun _ => .none) (fun _ => noExec)
def noBench : Bench := Bench.ofPy (fun _ => .none) (fun _ => noRD) (fun _ => noVars) (fun _ => noSuite)

/-- the model's structures hold exactly the compared attributes: every name of the table is compared, and there
are as many (distinct, `gen_hash_fields_eq_fields`) compared attributes as the structure has fields -/
theorem gen_eq_fields_eq_model :
    RunDetails.ofPy (onEq IdentityFields.ExpRunDetails) (pick IdentityFields.ExpRunDetails sEnv none "env") = RunDetails.ofPy (fun _ => .int 1) sEnv ∧
    IdentityFields.ExpRunDetails.eqFields.length = 12 ∧
    Vars.ofPy (pick IdentityFields.ExpVariables [.int 1] []) = Vars.ofPy (fun _ => [.int 1]) ∧
    IdentityFields.ExpVariables.eqFields.length = 4 ∧
    Exec.ofPy (onEq IdentityFields.Executor) (pick IdentityFields.Executor sRD noRD) (pick IdentityFields.Executor sVars noVars) =
      Exec.ofPy (fun _ => .int 1) (fun _ => sRD) (fun _ => sVars) ∧
    IdentityFields.Executor.eqFields.length = 9 ∧
    Suite.ofPy (onEq IdentityFields.BenchmarkSuite) (pick IdentityFields.BenchmarkSuite sExec noExec) = Suite.ofPy (fun _ => .int 1) (fun _ => sExec) ∧
    IdentityFields.BenchmarkSuite.eqFields.length = 6 ∧
    Bench.ofPy (onEq IdentityFields.Benchmark) (pick IdentityFields.Benchmark sRD noRD) (pick IdentityFields.Benchmark sVars noVars) (pick IdentityFields.Benchmark sSuite noSuite) =
      Bench.ofPy (fun _ => .int 1) (fun _ => sRD) (fun _ => sVars) (fun _ => sSuite) ∧
    IdentityFields.Benchmark.eqFields.length = 6 ∧
    Run.ofPy (onEq IdentityFields.RunId) (pick IdentityFields.RunId sBench noBench) "c" = Run.ofPy (fun _ => .int 1) (fun _ => sBench) "c" ∧
    IdentityFields.RunId.eqFields.length = 6 := by
  decide +kernel

/-! ### against the model: keys and values of `as_dict` -/

/-- what the generated map writes: `val a` under the key of attribute `a` -/
def entries (c : ClassInfo) (val : String → J) : List (String × J) :=
  c.asDict.map (fun e => (e.1, val e.2.1))

def objOf : J → List (String × J)
  | .obj kvs => kvs
  | _ => []

def rdVal (a : String) : J := if a = "env" then envJ (sEnv.getD []) else (mark IdentityFields.ExpRunDetails a).toJ
def execVal (a : String) : J :=
  if a = "run_details" then sRD.asDict else if a = "variables" then sVars.asDict else (mark IdentityFields.Executor a).toJ
def suiteVal (a : String) : J := if a = "executor" then sExec.asDict else (mark IdentityFields.BenchmarkSuite a).toJ
def benchVal (a : String) : J :=
  if a = "run_details" then sRD.asDict else if a = "variables" then sVars.asDict
  else if a = "suite" then sSuite.asDict else (mark IdentityFields.Benchmark a).toJ
def runVal (a : String) : J := if a = "cmdline()" then .str "cmd" else (mark IdentityFields.RunId a).toJ

/-- keys of the run's dictionary the model leaves out (never read back; `benchmark` is replaced by `benchmark_id`) -/
def runKeysNotModelled : List String := ["location", "benchmark", "extraArgs"]

/-- with every field set, the model writes the keys of the generated map, in its order, each with the value of the
attribute the generated map names -/
theorem gen_as_dict_eq_model :
    sRD.fields = entries IdentityFields.ExpRunDetails rdVal ∧
    objOf sVars.asDict = entries IdentityFields.ExpVariables (fun a => listJ (markL IdentityFields.ExpVariables a)) ∧
    objOf sExec.asDict = entries IdentityFields.Executor execVal ∧
    objOf sSuite.asDict = entries IdentityFields.BenchmarkSuite suiteVal ∧
    objOf sBench.asDict = entries IdentityFields.Benchmark benchVal ∧
    objOf (sRun.asDict 7) =
      (entries IdentityFields.RunId runVal).filter (fun e => !runKeysNotModelled.contains e.1) ++ [("benchmark_id", .int 7)] :=
  ⟨rfl, rfl, rfl, rfl, rfl, rfl⟩

/-- with no optional field set, the model writes exactly the keys the generated map writes unconditionally
(for the run details: none, the object is then `None`) -/
theorem gen_as_dict_always_eq_model :
    (objOf noRD.asDict).map (·.1) = (IdentityFields.ExpRunDetails.asDict.filter (fun e => e.2.2.1 == "always")).map (·.1) ∧
    (objOf noVars.asDict).map (·.1) = (IdentityFields.ExpVariables.asDict.filter (fun e => e.2.2.1 == "always")).map (·.1) ∧
    (objOf noExec.asDict).map (·.1) = (IdentityFields.Executor.asDict.filter (fun e => e.2.2.1 == "always")).map (·.1) ∧
    (objOf noSuite.asDict).map (·.1) = (IdentityFields.BenchmarkSuite.asDict.filter (fun e => e.2.2.1 == "always")).map (·.1) ∧
    (objOf noBench.asDict).map (·.1) = (IdentityFields.Benchmark.asDict.filter (fun e => e.2.2.1 == "always")).map (·.1) := by
  decide +kernel

/-! ### against the model: `from_dict` -/

/-- the key from which the generated maps fill attribute `a`: the parameter `__init__` stores in `a`, and the key
`from_dict` passes for that parameter -/
def keyFor (c : ClassInfo) (a : String) : String :=
  match c.initStores.find? (fun e => e.2 == a) with
  | none => ""
  | some (p, _) => ((c.fromDict.find? (fun e => e.1 == p)).map (·.2)).getD ""

/-- the model's `ExpRunDetails.from_dict` reads every field from the key the generated maps name, for every input -/
theorem gen_from_dict_run_details (kvs : List (String × J)) :
    RunDetails.fromDict (.obj kvs) =
      some (RunDetails.ofPy (fun a => getVal kvs (keyFor IdentityFields.ExpRunDetails a)) (getEnv kvs)) ∧
    keyFor IdentityFields.ExpRunDetails "env" = "env" := by
  constructor
  · rfl
  · decide +kernel

theorem gen_from_dict_vars (kvs : List (String × J)) :
    Vars.fromDict (.obj kvs) = some (Vars.ofPy (fun a =>
      getList kvs (keyFor IdentityFields.ExpVariables a) ((Vars.fromDict (.obj [])).map (fun v =>
        if a = "input_sizes" then v.inputSizes else if a = "cores" then v.cores
        else if a = "variable_values" then v.variableValues else v.tags) |>.getD [])) ) := by
  rfl

/-- executor, suite, benchmark and run: on the fully set sample, the model reads every scalar field from the key
the generated maps name (the nested objects are read by their own `from_dict`, from the key named here too) -/
theorem gen_from_dict_eq_model :
    Exec.fromDict sExec.asDict = some (Exec.ofPy (fun a => getVal (objOf sExec.asDict) (keyFor IdentityFields.Executor a))
      (fun a => (RunDetails.fromDict ((objOf sExec.asDict).lookup (keyFor IdentityFields.Executor a) |>.getD .null)).getD noRD)
      (fun a => (Vars.fromDict ((objOf sExec.asDict).lookup (keyFor IdentityFields.Executor a) |>.getD .null)).getD noVars)) ∧
    Suite.fromDict sSuite.asDict = some (Suite.ofPy (fun a => getVal (objOf sSuite.asDict) (keyFor IdentityFields.BenchmarkSuite a))
      (fun a => (Exec.fromDict ((objOf sSuite.asDict).lookup (keyFor IdentityFields.BenchmarkSuite a) |>.getD .null)).getD noExec)) ∧
    Bench.fromDict sBench.asDict = some (Bench.ofPy (fun a => getVal (objOf sBench.asDict) (keyFor IdentityFields.Benchmark a))
      (fun a => (RunDetails.fromDict ((objOf sBench.asDict).lookup (keyFor IdentityFields.Benchmark a) |>.getD .null)).getD noRD)
      (fun a => (Vars.fromDict ((objOf sBench.asDict).lookup (keyFor IdentityFields.Benchmark a) |>.getD .null)).getD noVars)
      (fun a => (Suite.fromDict ((objOf sBench.asDict).lookup (keyFor IdentityFields.Benchmark a) |>.getD .null)).getD noSuite)) ∧
    Run.fromDict [sBench] (sRun.asDict 0) = some (Run.ofPy (fun a => getVal (objOf (sRun.asDict 0)) (keyFor IdentityFields.RunId a))
      (fun _ => sBench) "cmd") ∧
    ("._cmdline", "cmdline") ∈ IdentityFields.RunId.fromDict := by
  decide +kernel

end RB.Identity
