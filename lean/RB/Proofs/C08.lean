/-
C08 — interrupt at any invocation boundary, resume: same data as an
uninterrupted run.  Property theorems only; helper lemmas are in
`RB/Proofs/Lemmas/Session.lean`.

`RB.Session.loop` is the scheduler loop of one session for an arbitrary
scheduler (`batch`, `roundRobin`, `random` with an arbitrary choice stream), an
arbitrary iteration order of the run set and an arbitrary stop point; the
harness is deterministic (`Harness.out` is a function of run and invocation).
`recordedInTheEnd H c i` is `K r` of DESIGN.md: the longest prefix of
invocations `1..N` that all deliver data (0 if a build of the run fails).
-/
import RB.Proofs.Lemmas.Session

namespace RB.Session
open RB.DataFile

variable {κ β : Type} [DecidableEq κ] [DecidableEq β] (benchOf : κ → β)

/-- a run as a new session sees it: restored progress, fresh `TerminationCheck` -/
def restored (p : Nat × Nat) : RunSt := { m := p.1, samples := p.2, consec := 0, failed := 0, failImm := false }

/-- state at the start of a session whose loading restored `ms` (completed invocations, samples) -/
def startState (files : List (FP κ β)) (ms : List (Nat × Nat)) : St κ β :=
  { files := files, runs := ms.map restored, builds := [], trace := [] }

/-- the work list: the runs of `order` that are not yet complete -/
def workList (cfg : List (RunC κ)) (ms : List (Nat × Nat)) (order : List Nat) : List Nat :=
  order.filter (fun i => match cfg[i]? with
    | some c => ! terminated c ((ms.map restored).getD i dfltRun)
    | none => false)

omit [DecidableEq κ] [DecidableEq β] in
theorem startState_inv (cfg : List (RunC κ)) (H : Harness) (files : List (FP κ β)) (ms : List (Nat × Nat))
    (order : List Nat) (hlen : ms.length = cfg.length) (hord : ∀ i, i < cfg.length → i ∈ order)
    (hle : ∀ i c, cfg[i]? = some c → (ms.getD i (0, 0)).1 ≤ recordedInTheEnd H c i) :
    LInv cfg H (workList cfg ms order) (startState files ms) := by
  have hget : ∀ i, i < cfg.length → (ms.map restored).getD i dfltRun = restored (ms.getD i (0, 0)) := by
    intro i hi
    simp [List.getD_eq_getElem?_getD, hlen ▸ hi]
  refine ⟨by simp [startState, hlen], ?_, ?_, ?_, ?_⟩
  · intro b ok h; simp [startState] at h
  · intro i c hc
    have hi : i < cfg.length := (List.getElem?_eq_some_iff.mp hc).1
    simp only [startState, hget i hi]
    exact ⟨hle i c hc, by simp [restored], by simp [restored], by simp [restored]⟩
  · intro i c hc hni
    have hi : i < cfg.length := (List.getElem?_eq_some_iff.mp hc).1
    have := hord i hi
    simp only [workList, List.mem_filter, hc, this, true_and, Bool.not_eq_true', Bool.not_eq_false] at hni
    simpa [startState] using hni
  · intro i hi
    simp only [workList, List.mem_filter] at hi
    cases hc : cfg[i]? with
    | none => simp [hc] at hi
    | some c => exact (List.getElem?_eq_some_iff.mp hc).1

/-- `final_recorded_spec`: with a deterministic harness, *any* session — any
scheduler, any choice stream, any order of the run set — that starts from a
file in which `m ≤ K r` invocations of every run `r` are recorded and runs to
completion ends with exactly `K r` invocations recorded for every run. -/
theorem c08_final_recorded_spec (cfg : List (RunC κ)) (H : Harness) (sched : Sched) (fuel : Nat)
    (choices order : List Nat) (files : List (FP κ β)) (ms : List (Nat × Nat))
    (hlen : ms.length = cfg.length) (hord : ∀ i, i < cfg.length → i ∈ order)
    (hle : ∀ i c, cfg[i]? = some c → (ms.getD i (0, 0)).1 ≤ recordedInTheEnd H c i)
    (s' : St κ β)
    (hrun : loop benchOf cfg H none sched fuel choices (workList cfg ms order) (startState files ms) = (s', some false)) :
    ∀ i c, cfg[i]? = some c → (s'.runs.getD i dfltRun).m = recordedInTheEnd H c i := by
  have hinv := startState_inv cfg H files ms order hlen hord hle
  obtain ⟨_, h2, h3⟩ := loop_spec benchOf cfg H none sched fuel choices _ _ hinv s' _ hrun
  intro i c hc
  exact terminated_final H c i _ (h2 i c hc).1 (h3 rfl i c hc)

/-- a session stopped at *any* point (or running out of fuel) never loses a
recorded invocation and never records one beyond `K r` -/
theorem c08_interrupted_safe (cfg : List (RunC κ)) (H : Harness) (stop : Option Nat) (sched : Sched) (fuel : Nat)
    (choices order : List Nat) (files : List (FP κ β)) (ms : List (Nat × Nat))
    (hlen : ms.length = cfg.length) (hord : ∀ i, i < cfg.length → i ∈ order)
    (hle : ∀ i c, cfg[i]? = some c → (ms.getD i (0, 0)).1 ≤ recordedInTheEnd H c i)
    (s' : St κ β) (res : Option Bool)
    (hrun : loop benchOf cfg H stop sched fuel choices (workList cfg ms order) (startState files ms) = (s', res)) :
    s'.runs.length = cfg.length ∧
    ∀ i c, cfg[i]? = some c →
      (ms.getD i (0, 0)).1 ≤ (s'.runs.getD i dfltRun).m ∧ (s'.runs.getD i dfltRun).m ≤ recordedInTheEnd H c i := by
  have hinv := startState_inv cfg H files ms order hlen hord hle
  obtain ⟨h1, h2, _⟩ := loop_spec benchOf cfg H stop sched fuel choices _ _ hinv s' _ hrun
  refine ⟨h1, fun i c hc => ⟨?_, (h2 i c hc).1.le⟩⟩
  have hi : i < cfg.length := (List.getElem?_eq_some_iff.mp hc).1
  have := (h2 i c hc).2
  simpa [startState, List.getD_eq_getElem?_getD, List.getElem?_map, hlen ▸ hi, restored] using this

/-- A history of sessions on the same files: each session starts from the
progress the previous one ended with (which is what loading the file restores:
C07 `c07_load_persist`; the restored sample counts are arbitrary), with fresh
retry counters, its own scheduler, choice stream, order of the run set and
stop point.  `Chain ms ms' done`: from recorded counts `ms` the history ends
with recorded counts `ms'`, the last session having completed iff `done`. -/
inductive Chain (cfg : List (RunC κ)) (H : Harness) : List Nat → List Nat → Bool → Prop
  | last (ms : List (Nat × Nat)) (files : List (FP κ β)) (sched : Sched) (fuel : Nat) (choices order : List Nat)
      (stop : Option Nat) (s' : St κ β) (res : Option Bool) :
      ms.length = cfg.length → (∀ i, i < cfg.length → i ∈ order) →
      loop benchOf cfg H stop sched fuel choices (workList cfg ms order) (startState files ms) = (s', res) →
      Chain cfg H (ms.map (·.1)) (s'.runs.map (·.m)) (res == some false)
  | cons (ms : List (Nat × Nat)) (files : List (FP κ β)) (sched : Sched) (fuel : Nat) (choices order : List Nat)
      (stop : Option Nat) (s' : St κ β) (res : Option Bool) (msEnd : List Nat) (done : Bool) :
      ms.length = cfg.length → (∀ i, i < cfg.length → i ∈ order) →
      loop benchOf cfg H stop sched fuel choices (workList cfg ms order) (startState files ms) = (s', res) →
      Chain cfg H (s'.runs.map (·.m)) msEnd done →
      Chain cfg H (ms.map (·.1)) msEnd done

/-
FULL STATEMENT (not proved in Lean; what is missing is the file-level link below):

  theorem c08_resume_equiv : for every history of sessions as in `Chain` whose last session completes,
    started on absent files, and for every data file `f`:
      (final contents of f).filterMap measProj  ~  (contents of f after the uninterrupted session).filterMap measProj
    (`~` = `List.Perm`, i.e. equal as multisets).

What is proved: `c08_resume_equiv_partial` (every run ends with exactly the invocations `1..K r` recorded,
none beyond, none lost on the way — the same as the uninterrupted session), `c06_appended_exactly` and
`c06_right_files` (what one session appends to a file is exactly the lines of the data points persisted for
the runs of that file) and `c07_load_persist` (loading restores the recorded invocations).  Missing: the
induction that threads these through `loop` (file contents as a function of the data-delivering starts of
the trace) and the permutation argument over interleavings.  The correspondence check compares the final
files of every chain with an uninterrupted control run on the real code.
-/

/-- `resume_equiv`, PARTIAL — in terms of recorded invocations: for every list of stop
points, every scheduler and every schedule, running sessions one after the
other until one completes ends with exactly `K r` invocations recorded for
every run `r` — which is also what the uninterrupted session from the empty
file yields (`c08_final_recorded_spec` with `ms = 0`); along the way no
session records an invocation beyond `K r` and none loses one
(`c08_interrupted_safe`), so every invocation `1..K r` is recorded exactly
once over the whole history, interrupted invocations being started again and
recorded ones never (a start of run `r` is always for invocation `m + 1`). -/
theorem c08_resume_equiv_partial (cfg : List (RunC κ)) (H : Harness) (ms0 msEnd : List Nat)
    (hchain : Chain benchOf cfg H ms0 msEnd true)
    (hle : ∀ i c, cfg[i]? = some c → ms0.getD i 0 ≤ recordedInTheEnd H c i) :
    msEnd.length = cfg.length ∧ ∀ i c, cfg[i]? = some c → msEnd.getD i 0 = recordedInTheEnd H c i := by
  generalize hd : true = done at hchain
  induction hchain with
  | last ms files sched fuel choices order stop s' res hlen hord hrun =>
    have hle' : ∀ i c, cfg[i]? = some c → (ms.getD i (0, 0)).1 ≤ recordedInTheEnd H c i := by
      intro i c hc
      have hi : i < cfg.length := (List.getElem?_eq_some_iff.mp hc).1
      have := hle i c hc
      simpa [List.getD_eq_getElem?_getD, List.getElem?_map, hlen ▸ hi] using this
    have hres : res = some false := by
      have : (res == some false) = true := hd.symm
      simpa using this
    subst hres
    have hs := c08_interrupted_safe benchOf cfg H stop sched fuel choices order files ms hlen hord hle' s' _ hrun
    have hinv := startState_inv cfg H files ms order hlen hord hle'
    obtain ⟨_, h2, h3⟩ := loop_spec benchOf cfg H stop sched fuel choices _ _ hinv s' _ hrun
    refine ⟨by simp [hs.1], ?_⟩
    intro i c hc
    have hi : i < cfg.length := (List.getElem?_eq_some_iff.mp hc).1
    have := terminated_final H c i _ (h2 i c hc).1 (h3 rfl i c hc)
    simpa [List.getD_eq_getElem?_getD, List.getElem?_map, hs.1 ▸ hi] using this
  | cons ms files sched fuel choices order stop s' res msEnd done hlen hord hrun _ ih =>
    have hle' : ∀ i c, cfg[i]? = some c → (ms.getD i (0, 0)).1 ≤ recordedInTheEnd H c i := by
      intro i c hc
      have hi : i < cfg.length := (List.getElem?_eq_some_iff.mp hc).1
      have := hle i c hc
      simpa [List.getD_eq_getElem?_getD, List.getElem?_map, hlen ▸ hi] using this
    have hs := c08_interrupted_safe benchOf cfg H stop sched fuel choices order files ms hlen hord hle' s' _ hrun
    apply ih _ hd
    intro i c hc
    have hi : i < cfg.length := (List.getElem?_eq_some_iff.mp hc).1
    have := (hs.2 i c hc).2
    simpa [List.getD_eq_getElem?_getD, List.getElem?_map, hs.1 ▸ hi] using this

omit [DecidableEq κ] [DecidableEq β] in
theorem loadAll_contents (rtK : κ → κ) (rtB : β → β) [DecidableEq κ] [DecidableEq β] (contents : List (List (Line κ β)))
    (loaded : List (FP κ β × List (Loaded κ))) (h : loadAll rtK rtB contents = .ok loaded) :
    (loaded.map (·.1)).map (·.content) = contents := by
  induction contents generalizing loaded with
  | nil => simp [loadAll] at h; subst h; rfl
  | cons c cs ih =>
    unfold loadAll at h
    cases hl : load rtK rtB c with
    | error e => simp [hl] at h
    | ok p =>
      obtain ⟨t, ls⟩ := p
      cases hr : loadAll rtK rtB cs with
      | error e => simp [hl, hr] at h
      | ok rest =>
        simp only [hl, hr, Except.ok.injEq] at h
        subst h
        simp [FP.ofTables, ih rest hr]

/-- `rerun_noop`: a session on files in which every run is complete after
loading (in particular: every run has its `N` invocations recorded) starts no
process at all — no build, no benchmark — and, because the files are opened
lazily, leaves every file exactly as it was; whatever the scheduler, the order
of the run set and the stop point. -/
theorem c08_rerun_noop (rtK : κ → κ) (rtB : β → β) (cfg : List (RunC κ)) (H : Harness) (sched : Sched)
    (order choices : List Nat) (stop : Option Nat) (contents : List (List (Line κ β)))
    (loaded : List (FP κ β × List (Loaded κ))) (hl : loadAll rtK rtB contents = .ok loaded)
    (hdone : ∀ (i : Nat) (c : RunC κ), cfg[i]? = some c → terminated c (initRun c (loaded.map (·.2))) = true) :
    (session benchOf rtK rtB cfg H sched order choices stop contents).ending = .complete ∧
    (session benchOf rtK rtB cfg H sched order choices stop contents).trace = [] ∧
    (session benchOf rtK rtB cfg H sched order choices stop contents).contents = contents := by
  unfold session
  simp only [hl]
  generalize hf : List.filter _ order = tasks
  have htasks : tasks = [] := by
    rw [← hf, List.filter_eq_nil_iff]
    intro i _
    cases hc : cfg[i]? with
    | none => simp
    | some c =>
      have hi : i < cfg.length := (List.getElem?_eq_some_iff.mp hc).1
      have hci : cfg[i] = c := (List.getElem?_eq_some_iff.mp hc).2
      simp [List.getD_eq_getElem?_getD, hi, hci, hdone i c hc]
  subst htasks
  have hfuel : fuelFor cfg = (cfg.map (fun c => c.invocations + 9)).sum + 1 := rfl
  rw [hfuel]
  simp only [loop]
  exact ⟨trivial, trivial, loadAll_contents rtK rtB contents loaded hl⟩

-- non-vacuity: a one-run configuration whose two invocations are recorded
example : terminated ({ key := 0, invocations := 2, retries := 0, warmup := 0, files := [0], builds := [] } : RunC Nat)
    (restored (2, 2)) = true := by decide

end RB.Session
