/-
C08 — interrupt at any invocation boundary, resume: same data as an
uninterrupted run.  Property theorems only; helper lemmas are in
`RB/Proofs/Lemmas/Session.lean`.

`RB.Session.loop` is the scheduler loop of one session for an arbitrary
scheduler (`batch`, `roundRobin`, `random` with an arbitrary choice stream), an
arbitrary iteration order of the run set and an arbitrary stop point; the
harness is deterministic (`Harness.out` is a function of run and invocation).
`recordedInTheEnd H c i` is `K r` of DESIGN.md: the longest prefix of
invocations `1..N` that all deliver data (0 if a build of the run fails).
-/
import RB.Proofs.Lemmas.Session
import RB.Proofs.Lemmas.Resume

namespace RB.Session
open RB.DataFile

variable {κ β : Type} [DecidableEq κ] [DecidableEq β] (benchOf : κ → β)

/-- a run as a new session sees it: restored progress, fresh `TerminationCheck` -/
def restored (p : Nat × Nat) : RunSt := { m := p.1, samples := p.2, consec := 0, failed := 0, failImm := false }

/-- state at the start of a session whose loading restored `ms` (completed invocations, samples) -/
def startState (files : List (FP κ β)) (ms : List (Nat × Nat)) : St κ β :=
  { files := files, runs := ms.map restored, builds := [], trace := [] }

/-- the work list: the runs of `order` that are not yet complete -/
def workList (cfg : List (RunC κ)) (ms : List (Nat × Nat)) (order : List Nat) : List Nat :=
  order.filter (fun i => match cfg[i]? with
    | some c => ! terminated c ((ms.map restored).getD i dfltRun)
    | none => false)

omit [DecidableEq κ] [DecidableEq β] in
theorem startState_inv (cfg : List (RunC κ)) (H : Harness) (files : List (FP κ β)) (ms : List (Nat × Nat))
    (order : List Nat) (hlen : ms.length = cfg.length) (hord : ∀ i, i < cfg.length → i ∈ order)
    (hle : ∀ i c, cfg[i]? = some c → (ms.getD i (0, 0)).1 ≤ recordedInTheEnd H c i) :
    LInv cfg H (workList cfg ms order) (startState files ms) := by
  have hget : ∀ i, i < cfg.length → (ms.map restored).getD i dfltRun = restored (ms.getD i (0, 0)) := by
    intro i hi
    simp [List.getD_eq_getElem?_getD, hlen ▸ hi]
  refine ⟨by simp [startState, hlen], ?_, ?_, ?_, ?_⟩
  · intro b ok h; simp [startState] at h
  · intro i c hc
    have hi : i < cfg.length := (List.getElem?_eq_some_iff.mp hc).1
    simp only [startState, hget i hi]
    exact ⟨hle i c hc, by simp [restored], by simp [restored], by simp [restored]⟩
  · intro i c hc hni
    have hi : i < cfg.length := (List.getElem?_eq_some_iff.mp hc).1
    have := hord i hi
    simp only [workList, List.mem_filter, hc, this, true_and, Bool.not_eq_true', Bool.not_eq_false] at hni
    simpa [startState] using hni
  · intro i hi
    simp only [workList, List.mem_filter] at hi
    cases hc : cfg[i]? with
    | none => simp [hc] at hi
    | some c => exact (List.getElem?_eq_some_iff.mp hc).1

/-- `final_recorded_spec`: with a deterministic harness, *any* session — any
scheduler, any choice stream, any order of the run set — that starts from a
file in which `m ≤ K r` invocations of every run `r` are recorded and runs to
completion ends with exactly `K r` invocations recorded for every run. -/
theorem c08_final_recorded_spec (cfg : List (RunC κ)) (H : Harness) (sched : Sched) (fuel : Nat)
    (choices order : List Nat) (files : List (FP κ β)) (ms : List (Nat × Nat))
    (hlen : ms.length = cfg.length) (hord : ∀ i, i < cfg.length → i ∈ order)
    (hle : ∀ i c, cfg[i]? = some c → (ms.getD i (0, 0)).1 ≤ recordedInTheEnd H c i)
    (s' : St κ β)
    (hrun : loop benchOf cfg H none sched fuel choices (workList cfg ms order) (startState files ms) = (s', some false)) :
    ∀ i c, cfg[i]? = some c → (s'.runs.getD i dfltRun).m = recordedInTheEnd H c i := by
  have hinv := startState_inv cfg H files ms order hlen hord hle
  obtain ⟨_, h2, h3⟩ := loop_spec benchOf cfg H none sched fuel choices _ _ hinv s' _ hrun
  intro i c hc
  exact terminated_final H c i _ (h2 i c hc).1 (h3 rfl i c hc)

/-- a session stopped at *any* point (or running out of fuel) never loses a
recorded invocation and never records one beyond `K r` -/
theorem c08_interrupted_safe (cfg : List (RunC κ)) (H : Harness) (stop : Option Nat) (sched : Sched) (fuel : Nat)
    (choices order : List Nat) (files : List (FP κ β)) (ms : List (Nat × Nat))
    (hlen : ms.length = cfg.length) (hord : ∀ i, i < cfg.length → i ∈ order)
    (hle : ∀ i c, cfg[i]? = some c → (ms.getD i (0, 0)).1 ≤ recordedInTheEnd H c i)
    (s' : St κ β) (res : Option Bool)
    (hrun : loop benchOf cfg H stop sched fuel choices (workList cfg ms order) (startState files ms) = (s', res)) :
    s'.runs.length = cfg.length ∧
    ∀ i c, cfg[i]? = some c →
      (ms.getD i (0, 0)).1 ≤ (s'.runs.getD i dfltRun).m ∧ (s'.runs.getD i dfltRun).m ≤ recordedInTheEnd H c i := by
  have hinv := startState_inv cfg H files ms order hlen hord hle
  obtain ⟨h1, h2, _⟩ := loop_spec benchOf cfg H stop sched fuel choices _ _ hinv s' _ hrun
  refine ⟨h1, fun i c hc => ⟨?_, (h2 i c hc).1.le⟩⟩
  have hi : i < cfg.length := (List.getElem?_eq_some_iff.mp hc).1
  have := (h2 i c hc).2
  simpa [startState, List.getD_eq_getElem?_getD, List.getElem?_map, hlen ▸ hi, restored] using this

/-- "executes exactly the invocations not yet recorded … recorded ones never": in any session — any
scheduler, choice stream, order, stop point — every benchmark process that is started is for an invocation
number beyond those recorded when the session began, and it is the next unrecorded one of its run at that
moment (so a recorded invocation is never started again, and an interrupted or failed one is) -/
theorem c08_recorded_never_restarted (cfg : List (RunC κ)) (H : Harness) (stop : Option Nat) (sched : Sched)
    (fuel : Nat) (choices order : List Nat) (files : List (FP κ β)) (ms : List (Nat × Nat))
    (hlen : ms.length = cfg.length) (hord : ∀ i, i < cfg.length → i ∈ order)
    (hle : ∀ i c, cfg[i]? = some c → (ms.getD i (0, 0)).1 ≤ recordedInTheEnd H c i)
    (s' : St κ β) (res : Option Bool)
    (hrun : loop benchOf cfg H stop sched fuel choices (workList cfg ms order) (startState files ms) = (s', res)) :
    ∀ j inv, Ev.start j inv ∈ s'.trace →
      (ms.getD j (0, 0)).1 < inv ∧ inv ≤ (s'.runs.getD j dfltRun).m + 1 := by
  have hinv := startState_inv cfg H files ms order hlen hord hle
  let F : St κ β → Prop := fun s =>
    (∀ j inv, Ev.start j inv ∈ s.trace → (ms.getD j (0, 0)).1 < inv ∧ inv ≤ (s.runs.getD j dfltRun).m + 1) ∧
    (∀ j, j < cfg.length → (ms.getD j (0, 0)).1 ≤ (s.runs.getD j dfltRun).m)
  have hF0 : F (startState files ms) := by
    refine ⟨by intro j inv h; simp [startState] at h, ?_⟩
    intro j hj
    simp [startState, List.getD_eq_getElem?_getD, List.getElem?_map, hlen ▸ hj, restored]
  have hstepF : ∀ (tasks : List Nat) (s : St κ β) (i : Nat) (c : RunC κ) (s1 : St κ β) (r1 : StepRes),
      LInv cfg H tasks s → i ∈ tasks → cfg[i]? = some c → F s →
      step benchOf cfg H stop s i = (s1, r1) → F s1 := by
    intro tasks s i c s1 r1 hL himem hc hFs hst
    have hi : i < s.runs.length := by rw [hL.len]; exact hL.inRange i himem
    obtain ⟨_, _, q3, _, _, q6⟩ := step_spec benchOf cfg H stop s i c hc hi hL.b (hL.r i c hc) s1 r1 hst
    obtain ⟨evs, ht, hev⟩ := step_trace benchOf cfg H stop s i c hc s1 r1 hst
    have hmono : ∀ j, (s.runs.getD j dfltRun).m ≤ (s1.runs.getD j dfltRun).m := by
      intro j
      by_cases hji : j = i
      · subst hji; exact q6
      · rw [q3 j hji]
    refine ⟨?_, fun j hj => Nat.le_trans (hFs.2 j hj) (hmono j)⟩
    intro j inv hmem
    rw [ht] at hmem
    rcases List.mem_append.mp hmem with h | h
    · have := hFs.1 j inv h
      have := hmono j
      omega
    · rcases hev _ h with ⟨b, hb⟩ | hb
      · cases hb
      · injection hb with e1 e2
        subst e1
        have h1 := hFs.2 j (hL.inRange j himem)
        have h2 := hmono j
        omega
  obtain ⟨hF', _⟩ := loop_spec_with benchOf cfg H stop sched F hstepF fuel choices _ _ hinv hF0 s' res hrun
  exact hF'.1

/-- A history of sessions on the same files: each session starts from the
progress the previous one ended with (which is what loading the file restores:
C07 `c07_load_persist`; the restored sample counts are arbitrary), with fresh
retry counters, its own scheduler, choice stream, order of the run set and
stop point.  `Chain ms ms' done`: from recorded counts `ms` the history ends
with recorded counts `ms'`, the last session having completed iff `done`. -/
inductive Chain (cfg : List (RunC κ)) (H : Harness) : List Nat → List Nat → Bool → Prop
  | last (ms : List (Nat × Nat)) (files : List (FP κ β)) (sched : Sched) (fuel : Nat) (choices order : List Nat)
      (stop : Option Nat) (s' : St κ β) (res : Option Bool) :
      ms.length = cfg.length → (∀ i, i < cfg.length → i ∈ order) →
      loop benchOf cfg H stop sched fuel choices (workList cfg ms order) (startState files ms) = (s', res) →
      Chain cfg H (ms.map (·.1)) (s'.runs.map (·.m)) (res == some false)
  | cons (ms : List (Nat × Nat)) (files : List (FP κ β)) (sched : Sched) (fuel : Nat) (choices order : List Nat)
      (stop : Option Nat) (s' : St κ β) (res : Option Bool) (msEnd : List Nat) (done : Bool) :
      ms.length = cfg.length → (∀ i, i < cfg.length → i ∈ order) →
      loop benchOf cfg H stop sched fuel choices (workList cfg ms order) (startState files ms) = (s', res) →
      Chain cfg H (s'.runs.map (·.m)) msEnd done →
      Chain cfg H (ms.map (·.1)) msEnd done

/-- `resume_equiv` in terms of recorded invocations (the file-level statement is `c08_resume_equiv` below): for every list of stop
points, every scheduler and every schedule, running sessions one after the
other until one completes ends with exactly `K r` invocations recorded for
every run `r` — which is also what the uninterrupted session from the empty
file yields (`c08_final_recorded_spec` with `ms = 0`); along the way no
session records an invocation beyond `K r` and none loses one
(`c08_interrupted_safe`), so every invocation `1..K r` is recorded exactly
once over the whole history, interrupted invocations being started again and
recorded ones never (a start of run `r` is always for invocation `m + 1`). -/
theorem c08_resume_equiv_counts (cfg : List (RunC κ)) (H : Harness) (ms0 msEnd : List Nat)
    (hchain : Chain benchOf cfg H ms0 msEnd true)
    (hle : ∀ i c, cfg[i]? = some c → ms0.getD i 0 ≤ recordedInTheEnd H c i) :
    msEnd.length = cfg.length ∧ ∀ i c, cfg[i]? = some c → msEnd.getD i 0 = recordedInTheEnd H c i := by
  generalize hd : true = done at hchain
  induction hchain with
  | last ms files sched fuel choices order stop s' res hlen hord hrun =>
    have hle' : ∀ i c, cfg[i]? = some c → (ms.getD i (0, 0)).1 ≤ recordedInTheEnd H c i := by
      intro i c hc
      have hi : i < cfg.length := (List.getElem?_eq_some_iff.mp hc).1
      have := hle i c hc
      simpa [List.getD_eq_getElem?_getD, List.getElem?_map, hlen ▸ hi] using this
    have hres : res = some false := by
      have : (res == some false) = true := hd.symm
      simpa using this
    subst hres
    have hs := c08_interrupted_safe benchOf cfg H stop sched fuel choices order files ms hlen hord hle' s' _ hrun
    have hinv := startState_inv cfg H files ms order hlen hord hle'
    obtain ⟨_, h2, h3⟩ := loop_spec benchOf cfg H stop sched fuel choices _ _ hinv s' _ hrun
    refine ⟨by simp [hs.1], ?_⟩
    intro i c hc
    have hi : i < cfg.length := (List.getElem?_eq_some_iff.mp hc).1
    have := terminated_final H c i _ (h2 i c hc).1 (h3 rfl i c hc)
    simpa [List.getD_eq_getElem?_getD, List.getElem?_map, hs.1 ▸ hi] using this
  | cons ms files sched fuel choices order stop s' res msEnd done hlen hord hrun _ ih =>
    have hle' : ∀ i c, cfg[i]? = some c → (ms.getD i (0, 0)).1 ≤ recordedInTheEnd H c i := by
      intro i c hc
      have hi : i < cfg.length := (List.getElem?_eq_some_iff.mp hc).1
      have := hle i c hc
      simpa [List.getD_eq_getElem?_getD, List.getElem?_map, hlen ▸ hi] using this
    have hs := c08_interrupted_safe benchOf cfg H stop sched fuel choices order files ms hlen hord hle' s' _ hrun
    apply ih _ hd
    intro i c hc
    have hi : i < cfg.length := (List.getElem?_eq_some_iff.mp hc).1
    have := (hs.2 i c hc).2
    simpa [List.getD_eq_getElem?_getD, List.getElem?_map, hs.1 ▸ hi] using this

/-! ## File level -/

omit [DecidableEq κ] [DecidableEq β] in
theorem between_empty (cfg : List (RunC κ)) (H : Harness) (nfiles : Nat) [DecidableEq κ] [DecidableEq β] :
    Between benchOf cfg H nfiles (List.replicate nfiles ([] : List (Line κ β))) (fun _ => 0) := by
  refine ⟨by simp, ?_, ?_, ?_, fun _ _ _ => Nat.zero_le _⟩
  · intro f c hc
    have : c = [] := by
      have := List.mem_of_getElem? hc
      exact (List.mem_replicate.mp this).2
    subst this; exact .empty
  · intro f i c cont _ hcont
    have : cont = [] := (List.mem_replicate.mp (List.mem_of_getElem? hcont)).2
    subst this
    simp [measRows, expectedRows]
  · intro f cont hcont p hp
    have : cont = [] := (List.mem_replicate.mp (List.mem_of_getElem? hcont)).2
    subst this
    simp [measRows] at hp

/-- any history of sessions keeps the files in step with the recorded invocations -/
theorem sessions_between (cfg : List (RunC κ)) (H : Harness) (nfiles : Nat) (hcfg : CfgOK cfg nfiles)
    (hH : HarnessOK H) :
    ∀ (specs : List (Sched × List Nat × List Nat × Option Nat)) (contents : List (List (Line κ β))) (m : Nat → Nat),
      (∀ sp ∈ specs, ∀ i, i < cfg.length → i ∈ sp.2.1) → Between benchOf cfg H nfiles contents m →
      ∀ r, (sessions benchOf (fun x => x) (fun x => x) cfg H specs contents).getLast? = some r →
        ∃ m', Between benchOf cfg H nfiles r.contents m' ∧
          (r.ending = .complete → ∀ (i : Nat) (c : RunC κ), cfg[i]? = some c → m' i = recordedInTheEnd H c i) := by
  intro specs
  induction specs with
  | nil => intro contents m _ _ r hr; simp [sessions] at hr
  | cons sp rest ih =>
    intro contents m hord hB r hr
    obtain ⟨sched, order, choices, stop⟩ := sp
    simp only [sessions] at hr
    obtain ⟨m0, hB0, _, hdone0⟩ := session_between benchOf cfg H nfiles hcfg hH sched order choices stop
      (hord (sched, order, choices, stop) (by simp)) contents m hB
    cases hrest : sessions benchOf (fun x => x) (fun x => x) cfg H rest
        (session benchOf (fun x => x) (fun x => x) cfg H sched order choices stop contents).contents with
    | nil =>
      rw [hrest] at hr
      simp at hr
      subst hr
      exact ⟨m0, hB0, hdone0⟩
    | cons r1 rs =>
      rw [hrest, List.getLast?_cons_cons] at hr
      rw [← hrest] at hr
      exact ih _ m0 (fun sp hsp => hord sp (List.mem_cons_of_mem _ hsp)) hB0 r hr

/-- `resume_equiv`: for every list of stop points, every scheduler and every
schedule — any history of sessions on initially absent data files, each
interrupted at any process start or not at all, each with its own scheduler,
choice stream and order of the run set, reloading the files in between — if
the last session runs to completion then every data file contains, as a
multiset, exactly the measurement lines of an uninterrupted session: none
lost, none duplicated.  (`CfgOK`: distinct runs, each recorded in at least
one file; `HarnessOK`: every delivered data point has a readable `total`.) -/
theorem c08_resume_equiv (cfg : List (RunC κ)) (H : Harness) (nfiles : Nat) (hcfg : CfgOK cfg nfiles)
    (hH : HarnessOK H)
    (specs : List (Sched × List Nat × List Nat × Option Nat))
    (hord : ∀ sp ∈ specs, ∀ i, i < cfg.length → i ∈ sp.2.1)
    (csched : Sched) (corder cchoices : List Nat) (hcord : ∀ i, i < cfg.length → i ∈ corder)
    (r : SessionResult κ β)
    (hr : (sessions benchOf (fun x => x) (fun x => x) cfg H specs (List.replicate nfiles [])).getLast? = some r)
    (hcomplete : r.ending = .complete)
    (hctl : (session benchOf (fun x => x) (fun x => x) cfg H csched corder cchoices none
              (List.replicate nfiles [])).ending = .complete)
    (f : Nat) (c1 c2 : List (Line κ β)) (h1 : r.contents[f]? = some c1)
    (h2 : (session benchOf (fun x => x) (fun x => x) cfg H csched corder cchoices none
              (List.replicate nfiles [])).contents[f]? = some c2) :
    (measRows c1).Perm (measRows c2) := by
  obtain ⟨m1, hB1, hd1⟩ := sessions_between benchOf cfg H nfiles hcfg hH specs _ _ hord
    (between_empty benchOf cfg H nfiles) r hr
  obtain ⟨m2, hB2, _, hd2⟩ := session_between benchOf cfg H nfiles hcfg hH csched corder cchoices none hcord
    _ _ (between_empty benchOf cfg H nfiles)
  apply perm_of_keyed (fun p => p.1) (cfg.map (·.key))
  · intro k hk
    obtain ⟨c, hc, rfl⟩ := List.mem_map.mp hk
    obtain ⟨i, hi⟩ := List.getElem?_of_mem hc
    have e1 := hB1.rows f i c c1 hi h1
    have e2 := hB2.rows f i c c2 hi h2
    rw [hd1 hcomplete i c hi] at e1
    rw [hd2 hctl i c hi] at e2
    show List.filter (fun p => p.1 = c.key) (measRows c1) = List.filter (fun p => p.1 = c.key) (measRows c2)
    rw [e1, e2]
  · intro p hp
    obtain ⟨i, c, hc, hk⟩ := hB1.known f c1 h1 p hp
    exact List.mem_map.mpr ⟨c, List.mem_of_getElem? hc, hk.symm⟩
  · intro p hp
    obtain ⟨i, c, hc, hk⟩ := hB2.known f c2 h2 p hp
    exact List.mem_map.mpr ⟨c, List.mem_of_getElem? hc, hk.symm⟩

-- non-vacuity of the hypotheses: two runs on one file, a harness whose data points have a total
example : CfgOK ([{ key := 0, invocations := 2, retries := 0, warmup := 0, files := [0], builds := [] },
                  { key := 1, invocations := 1, retries := 0, warmup := 0, files := [0], builds := [] }] : List (RunC Nat)) 1 :=
  ⟨by decide, by intro c hc; simp at hc; rcases hc with rfl | rfl <;> simp⟩
example : HarnessOK { out := fun _ _ => some [[{ crit := "total", unit := "ms", value := .raw "1".toList }]],
                      buildOk := fun _ => true } := by
  intro i t dps h ms hms
  simp at h; subst h
  simp at hms; subst hms
  exact ⟨{ crit := "total", unit := "ms", value := .raw "1".toList }, by simp, rfl, by decide +kernel⟩

omit [DecidableEq κ] [DecidableEq β] in
theorem loadAllWith_contents (ld : List (Line κ β) → Except LoadErr (Tables κ β × List (Loaded κ)))
    (contents : List (List (Line κ β)))
    (loaded : List (FP κ β × List (Loaded κ))) (h : loadAllWith ld contents = .ok loaded) :
    (loaded.map (·.1)).map (·.content) = contents := by
  induction contents generalizing loaded with
  | nil => simp [loadAllWith] at h; subst h; rfl
  | cons c cs ih =>
    unfold loadAllWith at h
    cases hl : ld c with
    | error e => simp [hl] at h
    | ok p =>
      obtain ⟨t, ls⟩ := p
      cases hr : loadAllWith ld cs with
      | error e => simp [hl, hr] at h
      | ok rest =>
        simp only [hl, hr, Except.ok.injEq] at h
        subst h
        simp [FP.ofTables, ih rest hr]

omit [DecidableEq κ] [DecidableEq β] in
theorem loadAll_contents (rtK : κ → κ) (rtB : β → β) [DecidableEq κ] [DecidableEq β] (contents : List (List (Line κ β)))
    (loaded : List (FP κ β × List (Loaded κ))) (h : loadAll rtK rtB contents = .ok loaded) :
    (loaded.map (·.1)).map (·.content) = contents :=
  loadAllWith_contents _ contents loaded h

/-- `rerun_noop`: a session on files in which every run is complete after
loading (in particular: every run has its `N` invocations recorded) starts no
process at all — no build, no benchmark — and, because the files are opened
lazily, leaves every file exactly as it was; whatever the scheduler, the order
of the run set and the stop point. -/
theorem c08_rerun_noop (rtK : κ → κ) (rtB : β → β) (cfg : List (RunC κ)) (H : Harness) (sched : Sched)
    (order choices : List Nat) (stop : Option Nat) (contents : List (List (Line κ β)))
    (loaded : List (FP κ β × List (Loaded κ))) (hl : loadAll rtK rtB contents = .ok loaded)
    (hdone : ∀ (i : Nat) (c : RunC κ), cfg[i]? = some c → terminated c (initRun c (loaded.map (·.2))) = true) :
    (session benchOf rtK rtB cfg H sched order choices stop contents).ending = .complete ∧
    (session benchOf rtK rtB cfg H sched order choices stop contents).trace = [] ∧
    (session benchOf rtK rtB cfg H sched order choices stop contents).contents = contents := by
  unfold session sessionWith
  simp only [hl]
  generalize hf : List.filter _ order = tasks
  have htasks : tasks = [] := by
    rw [← hf, List.filter_eq_nil_iff]
    intro i _
    cases hc : cfg[i]? with
    | none => simp
    | some c =>
      have hi : i < cfg.length := (List.getElem?_eq_some_iff.mp hc).1
      have hci : cfg[i] = c := (List.getElem?_eq_some_iff.mp hc).2
      simp [List.getD_eq_getElem?_getD, hi, hci, hdone i c hc]
  subst htasks
  have hfuel : fuelFor cfg = (cfg.map (fun c => c.invocations + 9)).sum + 1 := rfl
  rw [hfuel]
  simp only [loop]
  exact ⟨trivial, trivial, loadAll_contents rtK rtB contents loaded hl⟩

-- non-vacuity: a one-run configuration whose two invocations are recorded
example : terminated ({ key := 0, invocations := 2, retries := 0, warmup := 0, files := [0], builds := [] } : RunC Nat)
    (restored (2, 2)) = true := by decide

end RB.Session
