/-
C17 — ReBenchDB receives every data point exactly once despite transport failures.
Property theorems only; helper lemmas are in `RB/Proofs/Lemmas/DB.lean`,
`RB/Proofs/Lemmas/DBv2.lean`.

The statements quantify over every list of events (any interleaving of
`persist`, clock-gated `send_data` and `close`), every attempt script of every
request, every clock value, and every cache content.  `step` follows the
**repaired** `_send_data_and_empty_cache`; `stepPinned` is the pinned tree.
-/
import RB.Proofs.Lemmas.DB
import RB.Proofs.Lemmas.DBv2

namespace RB.DB

/-! ### "is contained in at most one request the server acknowledged" -/

/-- every data point occurs in acknowledged requests at most as often as it was
handed to the back end (so: a data point persisted once is acknowledged at most
once), after any sequence of events from the initial state — including data
points handed over by other threads while a request is in flight -/
theorem c17_ack_at_most_once (m : Meta) (v2 : Bool) (t0 : Nat) (es : List Event) (x : Run × DP) :
    (ackedItems (run (init m v2 t0) es)).count x ≤ (persisted es).count x := by
  have h := (run_conserves (init m v2 t0) es).count_eq x
  simp only [List.count_append] at h
  have h0 : (ackedItems (init m v2 t0)).count x = 0 := by simp [ackedItems, init]
  have h1 : (items (init m v2 t0).cache).count x = 0 := by simp [items, init]
  omega

/-- the same holds for any way of emptying the cache that never invents data points
(in particular the pinned tree and the tree after the first repair: losing data
does not duplicate it) -/
theorem ack_at_most_once_of (send : State → List Attempt → List (Run × DP) → State)
    (hsend : ∀ s script during x, (ackedItems (send s script during)).count x +
        (items (send s script during).cache).count x ≤
        (ackedItems s).count x + (items s.cache).count x + during.count x)
    (m : Meta) (v2 : Bool) (t0 : Nat) (es : List Event) (x : Run × DP) :
    (ackedItems (es.foldl (stepWith send) (init m v2 t0))).count x ≤ (persisted es).count x := by
  suffices h : ∀ s : State, (ackedItems (es.foldl (stepWith send) s)).count x ≤
      (ackedItems s).count x + (items s.cache).count x + (persisted es).count x by
    have := h (init m v2 t0)
    simpa [ackedItems, items, init] using this
  induction es with
  | nil => intro s; simp [persisted]
  | cons e es ih =>
    intro s
    rw [List.foldl_cons]
    refine Nat.le_trans (ih _) ?_
    cases e with
    | persist r d =>
      have hp := (items_cacheAdd s.cache r d).count_eq x
      simp only [stepWith, persisted, List.count_cons, List.count_append, List.count_nil] at hp ⊢
      have : ackedItems { s with cache := cacheAdd s.cache r d } = ackedItems s := rfl
      rw [this]; omega
    | sendData now script during =>
      simp only [stepWith, persisted, List.count_append]
      split
      · have := hsend s script during x
        have e1 : ackedItems { send s script during with lastSend := now + sleptIn s script }
            = ackedItems (send s script during) := rfl
        rw [e1]; simp only; omega
      · have hp := (items_addAll s.cache during).count_eq x
        have : ackedItems { s with cache := addAll s.cache during } = ackedItems s := rfl
        rw [this]
        simp only [List.count_append] at hp
        simp only; omega
    | close script during =>
      simp only [stepWith, persisted, List.count_append]
      have := hsend s script during x
      omega

theorem c17_ack_at_most_once_pinned (m : Meta) (v2 : Bool) (t0 : Nat) (es : List Event) (x : Run × DP) :
    (ackedItems (runPinned (init m v2 t0) es)).count x ≤ (persisted es).count x := by
  refine ack_at_most_once_of sendAndEmptyPinned ?_ m v2 t0 es x
  intro s script during x
  unfold sendAndEmptyPinned
  split
  · rename_i hc
    have hp := (items_addAll_nil during).count_eq x
    have : ackedItems { s with cache := addAll [] during } = ackedItems s := rfl
    rw [this, hc]; simp only [items, List.flatMap_nil, List.count_nil] at hp ⊢; omega
  · rename_i hc
    by_cases h : (sendWithRetries script).success = true
    · simp [ackedItems, h, items, hc]
    · simp only [ackedItems, h, List.flatMap_append, List.flatMap_cons, List.flatMap_nil,
        Bool.false_eq_true, if_false, List.append_nil, items, List.count_nil]
      omega

theorem c17_ack_at_most_once_unlocked (m : Meta) (v2 : Bool) (t0 : Nat) (es : List Event) (x : Run × DP) :
    (ackedItems (runUnlocked (init m v2 t0) es)).count x ≤ (persisted es).count x := by
  refine ack_at_most_once_of sendAndEmptyUnlocked ?_ m v2 t0 es x
  intro s script during x
  unfold sendAndEmptyUnlocked
  split
  · rename_i hc
    have hp := (items_addAll_nil during).count_eq x
    have : ackedItems { s with cache := addAll [] during } = ackedItems s := rfl
    rw [this, hc]; simp only [items, List.flatMap_nil, List.count_nil] at hp ⊢; omega
  · rename_i hc
    by_cases h : (sendWithRetries script).success = true
    · simp [ackedItems, h, items, hc]
    · have hp := (items_addAll s.cache during).count_eq x
      simp only [List.count_append] at hp
      simp only [ackedItems, h, List.flatMap_append, List.flatMap_cons, List.flatMap_nil,
        Bool.false_eq_true, if_false, List.append_nil]
      rw [hc] at hp ⊢
      omega

/-! ### "is kept for the next attempt whenever a request fails" -/

/-- a transmission point whose request fails keeps every data point: the new cache is
the old one with the data points handed over meanwhile appended (the unsent ones
first, per run in their order), whatever other threads did while it was in flight -/
theorem c17_kept_on_failure (s : State) (script : List Attempt) (during : List (Run × DP))
    (hc : s.cache ≠ []) (h : (sendWithRetries script).success = false) :
    (sendAndEmpty s script during).cache = mergeBack s.cache (addAll [] during) ∧
    (items (sendAndEmpty s script during).cache).Perm (items s.cache ++ during) := by
  have heq : (sendAndEmpty s script during).cache = mergeBack s.cache (addAll [] during) := by
    unfold sendAndEmpty
    split
    · rename_i h0; exact absurd h0 hc
    · simp [h]
  refine ⟨heq, ?_⟩
  rw [heq]
  exact (items_mergeBack _ _).trans (List.Perm.append_left _ (items_addAll_nil during))

/-- … and without interleaving the cache is literally unchanged -/
theorem c17_kept_on_failure_quiet (s : State) (script : List Attempt)
    (h : (sendWithRetries script).success = false) :
    (sendAndEmpty s script []).cache = s.cache := by
  unfold sendAndEmpty
  split
  · rename_i hc; simp [addAll, hc]
  · simp [h, mergeBack, addAll, items]

/-- … at every transmission point of a session -/
theorem c17_kept_on_failure_step (s : State) (e : Event) (x : Run × DP) :
    (∀ now script during, e = .sendData now script during → (sendWithRetries script).success = false →
        (items s.cache).count x ≤ (items (step s e).cache).count x) ∧
    (∀ script during, e = .close script during → (sendWithRetries script).success = false →
        (items s.cache).count x ≤ (items (step s e).cache).count x) := by
  have key : ∀ script during, (sendWithRetries script).success = false →
      (items s.cache).count x ≤ (items (sendAndEmpty s script during).cache).count x := by
    intro script during h
    by_cases hc : s.cache = []
    · simp [hc, items]
    · have := ((c17_kept_on_failure s script during hc h).2).count_eq x
      simp only [List.count_append] at this
      omega
  constructor
  · intro now script during he h
    subst he
    simp only [step, stepWith]
    split
    · exact key script during h
    · have := (items_addAll s.cache during).count_eq x
      simp only [List.count_append] at this
      simp only; omega
  · intro script during he h
    subst he
    exact key script during h

-- non-vacuity: a failing script exists, and the cache it leaves is non-empty
example : (sendWithRetries [.server, .refused, .server, .refused, .server]).success = false := by decide
example : (sendWithRetries [.client]).success = false := by decide

/-- the pinned tree violates it: one data point, one refused request, cache empty -/
theorem c17_kept_on_failure_pinned_fails :
    ¬ (∀ (s : State) (script : List Attempt), (sendWithRetries script).success = false →
        (sendAndEmptyPinned s script []).cache = s.cache) := by
  intro h
  have := h { info := ⟨"t", "e", "s"⟩, v2 := false, cache := [(0, [⟨1, 1, []⟩])], lastSend := 0, reqs := [] }
    [.client] (by decide)
  revert this
  decide

/-! ### "has been acknowledged exactly once if the session's final transmission succeeds" -/

/-- after any session — any interleaving of persists, transmission points and data
points handed over by other threads while requests are in flight — that ends with a
`close` (all workers done) whose request is acknowledged, the acknowledged requests
contain exactly the data points handed to the back end, each as often as it was
handed over (a permutation) -/
theorem c17_final_ok_all_once (m : Meta) (v2 : Bool) (t0 : Nat) (es : List Event) (script : List Attempt)
    (h : (sendWithRetries script).success = true) :
    (ackedItems (run (init m v2 t0) (es ++ [.close script []]))).Perm (persisted es) := by
  have hc := run_conserves (init m v2 t0) (es ++ [.close script []])
  have hempty : (run (init m v2 t0) (es ++ [.close script []])).cache = [] := by
    simp only [run, List.foldl_append, List.foldl_cons, List.foldl_nil, step, stepWith]
    unfold sendAndEmpty
    split
    · simp [addAll]
    · simp [h, addAll]
  rw [hempty] at hc
  simpa [items, ackedItems, init, persisted_append, persisted] using hc

/-- as counts: exactly once per hand-over -/
theorem c17_final_ok_count (m : Meta) (v2 : Bool) (t0 : Nat) (es : List Event) (script : List Attempt)
    (h : (sendWithRetries script).success = true) (x : Run × DP) :
    (ackedItems (run (init m v2 t0) (es ++ [.close script []]))).count x = (persisted es).count x :=
  (c17_final_ok_all_once m v2 t0 es script h).count_eq x

-- non-vacuity: a session with a failed and a successful transmission, and a data point that
-- another thread hands over while the first (acknowledged) request is in flight
example : (sendWithRetries [.refused, .server, .ok]).success = true := by decide
example :
    ackedItems (run (init ⟨"t", "e", "s"⟩ true 0)
      [.persist 0 ⟨1, 1, []⟩, .sendData 30 [.ok] [(1, ⟨1, 1, []⟩)], .sendData 60 [.client] [(1, ⟨1, 2, []⟩)],
       .close [.ok] []])
    = [(0, ⟨1, 1, []⟩), (1, ⟨1, 1, []⟩), (1, ⟨1, 2, []⟩)] := by decide

/-- on the pinned tree a data point is lost after a failed request -/
theorem c17_final_ok_all_once_pinned_fails :
    ¬ (∀ (es : List Event) (script : List Attempt), (sendWithRetries script).success = true →
        (ackedItems (runPinned (init ⟨"t", "e", "s"⟩ true 0) (es ++ [.close script []]))).Perm (persisted es)) := by
  intro h
  have := (h [.persist 0 ⟨1, 1, []⟩, .sendData 30 [.client] [], .persist 1 ⟨1, 1, []⟩] [.ok] (by decide)).length_eq
  revert this
  decide

/-- after the first repair alone the statement is still false with the parallel
scheduler: a data point handed over by another thread while an acknowledged request
is in flight is dropped when the cache is replaced by `{}` -/
theorem c17_final_ok_all_once_full_fails :
    ¬ (∀ (es : List Event) (script : List Attempt), (sendWithRetries script).success = true →
        (ackedItems (runUnlocked (init ⟨"t", "e", "s"⟩ true 0) (es ++ [.close script []]))).Perm (persisted es)) := by
  intro h
  have := (h [.persist 0 ⟨1, 1, []⟩, .sendData 30 [.ok] [(1, ⟨1, 1, []⟩)]] [.ok] (by decide)).length_eq
  revert this
  decide

/-- what did hold after the first repair: the statement for sessions without interleaving -/
def quiet : List Event → Prop
  | [] => True
  | .persist _ _ :: es => quiet es
  | .sendData _ _ during :: es => during = [] ∧ quiet es
  | .close _ during :: es => during = [] ∧ quiet es

theorem sendAndEmptyUnlocked_quiet (s : State) (script : List Attempt) :
    sendAndEmptyUnlocked s script [] = sendAndEmpty s script [] := by
  unfold sendAndEmptyUnlocked sendAndEmpty
  split
  · rfl
  · by_cases h : (sendWithRetries script).success = true
    · simp [h, addAll]
    · simp [h, addAll, mergeBack, items]

theorem c17_final_ok_all_once_unlocked_partial (s : State) (es : List Event) (hq : quiet es) :
    runUnlocked s es = run s es := by
  induction es generalizing s with
  | nil => rfl
  | cons e es ih =>
    have hstep : stepUnlocked s e = step s e := by
      cases e with
      | persist r d => rfl
      | sendData now script during =>
        obtain ⟨hd, _⟩ := hq; subst hd
        simp only [stepUnlocked, step, stepWith, sendAndEmptyUnlocked_quiet]
      | close script during =>
        obtain ⟨hd, _⟩ := hq; subst hd
        simp only [stepUnlocked, step, stepWith, sendAndEmptyUnlocked_quiet]
    have hq' : quiet es := by cases e <;> simp_all [quiet]
    simp only [runUnlocked, run, List.foldl_cons] at ih ⊢
    rw [hstep]
    exact ih (step s e) hq'

/-! ### retry policy of one request -/

/-- at most 5 `_send_payload` calls per request, for every script -/
theorem c17_retry_bound (script : List Attempt) : (sendWithRetries script).used ≤ 5 :=
  sendLoop_used_le 4 10 script

/-- the sleeps are 10, 20, 40, 80 s: one before each retry -/
theorem c17_retry_waits (script : List Attempt) :
    (sendWithRetries script).waits = [10, 20, 40, 80].take ((sendWithRetries script).used - 1) := by
  have h := sendLoop_waits 4 10 script
  have hb := c17_retry_bound script
  unfold sendWithRetries at *
  rw [h]
  generalize (sendLoop 4 10 script).used = u at *
  have : u = 0 ∨ u = 1 ∨ u = 2 ∨ u = 3 ∨ u = 4 ∨ u = 5 := by omega
  rcases this with h | h | h | h | h | h <;> subst h <;> rfl

/-- a request succeeds iff one of its first five attempts is acknowledged and all
earlier ones failed in a retryable way -/
theorem c17_success_iff (script : List Attempt) :
    (sendWithRetries script).success = true ↔
      ∃ k, k ≤ 4 ∧ script[k]? = some .ok ∧ ∀ j, j < k → retryable (script[j]?.getD .refused) = true :=
  sendLoop_success_iff 4 10 script

/-- a client error (HTTP 4xx) is never retried: the request ends with that attempt -/
theorem c17_client_error_not_retried (script : List Attempt) (k : Nat) (hk : k ≤ 4)
    (h4 : script[k]? = some .client)
    (hall : ∀ j, j < k → retryable (script[j]?.getD .refused) = true) :
    (sendWithRetries script).success = false ∧ (sendWithRetries script).used = k + 1 :=
  sendLoop_stops_at 4 10 script k .client hk h4 (by decide) (by decide) hall

example : (sendWithRetries [.server, .client, .ok]).used = 2 := by decide

/-- a connection that is dropped after the request was received (reset, time-out, broken pipe,
RemoteDisconnected, IncompleteRead) is a failed attempt like any other: it is retried, and if
all five attempts end that way the request has failed — it never escapes as an exception -/
theorem c17_dropped_is_retried (script : List Attempt) (k : Nat) (hk : k ≤ 4)
    (hok : script[k]? = some .ok)
    (hall : ∀ j, j < k → script[j]? = some .dropped) :
    (sendWithRetries script).success = true := by
  rw [c17_success_iff]
  refine ⟨k, hk, hok, fun j hj => ?_⟩
  rw [hall j hj]; rfl

example : sendWithRetries [.dropped, .dropped, .dropped, .dropped, .dropped, .ok] = ⟨false, 5, [10, 20, 40, 80]⟩ := by decide

/-! ### payload conversion -/

/-- API v1: decoding the payload gives back exactly the cache it was made from
(every run, every data point with invocation and iteration, every measurement
with criterion, unit and value, in order), for every cache -/
theorem c17_decode_encode_v1 (c : Cache) : decodeV1 (encodeV1 c) = some c := by
  have := (encRuns1_spec [] c).2 []
  simpa [decodeV1, encodeV1] using this

/-- API v2: the value the payload holds for (run, invocation, iteration, criterion)
is exactly the value the cache holds for it — nothing lost, nothing invented,
nothing moved — for caches in the shape the adapters produce (C12): per run the
data points are in strictly increasing (invocation, iteration) order with
iterations ≥ 1, and a data point names each criterion at most once.  Criteria
sets may be sparse and differ between data points (null padding). -/
theorem c17_decode_encode_v2 (c : Cache) (h : wellShaped c) (r : Run) (inv it : Nat) (cr : Crit) :
    lookupV2 (encodeV2 c) r inv it cr = lookupCache c r inv it cr :=
  encodeV2_lookup c h r inv it cr

-- non-vacuity: sparse, differing criteria sets over two invocations
example : wellShaped [(0, [⟨1, 1, [⟨("total", "ms"), 5⟩]⟩, ⟨1, 2, [⟨("mem", "kb"), 7⟩, ⟨("total", "ms"), 6⟩]⟩,
                           ⟨2, 1, [⟨("gc", "ms"), 1⟩]⟩]),
                      (1, [⟨1, 2, [⟨("gc", "ms"), 9⟩]⟩])] := by
  decide
-- without the shape the payload moves values: a repeated iteration number
example : lookupV2 (encodeV2 [(0, [⟨1, 1, [⟨("t", "ms"), 5⟩]⟩, ⟨1, 1, [⟨("t", "ms"), 6⟩]⟩])]) 0 1 2 ("t", "ms")
    ≠ lookupCache [(0, [⟨1, 1, [⟨("t", "ms"), 5⟩]⟩, ⟨1, 1, [⟨("t", "ms"), 6⟩]⟩])] 0 1 2 ("t", "ms") := by
  decide

/-- every request of a session carries the session's start time, environment and
source details, the API version asked for, and covers exactly the cache content
of that moment -/
theorem c17_payload_carries (s : State) (script : List Attempt) (during : List (Run × DP)) (q : Req)
    (hq : q ∈ (sendAndEmpty s script during).reqs) (hs : ∀ q' ∈ s.reqs, q'.payload.info = s.info) :
    q.payload.info = s.info := by
  unfold sendAndEmpty at hq
  split at hq
  · exact hs q hq
  · simp only [List.mem_append, List.mem_singleton] at hq
    rcases hq with hq | hq
    · exact hs q hq
    · subst hq; rfl

theorem c17_payload_carries_run (m : Meta) (v2 : Bool) (t0 : Nat) (es : List Event) :
    ∀ q ∈ (run (init m v2 t0) es).reqs, q.payload.info = m ∧ q.payload.v2 = v2 := by
  suffices h : ∀ s : State, (∀ q ∈ s.reqs, q.payload.info = s.info ∧ q.payload.v2 = s.v2) →
      (∀ q ∈ (run s es).reqs, q.payload.info = s.info ∧ q.payload.v2 = s.v2) by
    exact h (init m v2 t0) (by simp [init])
  induction es with
  | nil => intro s hs; simpa [run] using hs
  | cons e es ih =>
    intro s hs
    have hrun : run s (e :: es) = run (step s e) es := rfl
    have hsend : ∀ script during, (sendAndEmpty s script during).info = s.info ∧
        (sendAndEmpty s script during).v2 = s.v2 ∧
        ∀ q ∈ (sendAndEmpty s script during).reqs, q.payload.info = s.info ∧ q.payload.v2 = s.v2 := by
      intro script during
      unfold sendAndEmpty
      split
      · exact ⟨rfl, rfl, hs⟩
      · refine ⟨rfl, rfl, ?_⟩
        intro q hq
        simp only [List.mem_append, List.mem_singleton] at hq
        rcases hq with hq | hq
        · exact hs q hq
        · subst hq; exact ⟨rfl, rfl⟩
    have key : (step s e).info = s.info ∧ (step s e).v2 = s.v2 ∧
        ∀ q ∈ (step s e).reqs, q.payload.info = s.info ∧ q.payload.v2 = s.v2 := by
      cases e with
      | persist r d => exact ⟨rfl, rfl, hs⟩
      | sendData now script during =>
        simp only [step, stepWith]
        split
        · exact hsend script during
        · exact ⟨rfl, rfl, hs⟩
      | close script during => exact hsend script during
    rw [hrun]
    have := ih (step s e) (by rw [key.1, key.2.1]; exact key.2.2)
    rw [key.1, key.2.1] at this
    exact this

end RB.DB
