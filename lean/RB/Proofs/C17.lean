/-
C17 — ReBenchDB receives every data point exactly once despite transport failures.
Property theorems only; helper lemmas are in `RB/Proofs/Lemmas/DB.lean`,
`RB/Proofs/Lemmas/DBv2.lean`.

The statements quantify over every list of events (any interleaving of
`persist`, clock-gated `send_data` and `close`), every attempt script of every
request, every clock value, and every cache content.  `step` follows the
**repaired** `_send_data_and_empty_cache`; `stepPinned` is the pinned tree.
-/
import RB.Proofs.Lemmas.DB
import RB.Proofs.Lemmas.DBv2

namespace RB.DB

/-! ### "is contained in at most one request the server acknowledged" -/

/-- every data point occurs in acknowledged requests at most as often as it was
handed to the back end (so: a data point persisted once is acknowledged at most
once), after any sequence of events from the initial state -/
theorem c17_ack_at_most_once (m : Meta) (v2 : Bool) (t0 : Nat) (es : List Event) (x : Run × DP) :
    (ackedItems (run (init m v2 t0) es)).count x ≤ (persisted es).count x := by
  have h := (run_conserves (init m v2 t0) es).count_eq x
  simp only [List.count_append] at h
  have h0 : (ackedItems (init m v2 t0)).count x = 0 := by simp [ackedItems, init]
  have h1 : (items (init m v2 t0).cache).count x = 0 := by simp [items, init]
  omega

/-- the same holds on the pinned tree (losing data does not duplicate it) -/
theorem c17_ack_at_most_once_pinned (m : Meta) (v2 : Bool) (t0 : Nat) (es : List Event) (x : Run × DP) :
    (ackedItems (runPinned (init m v2 t0) es)).count x ≤ (persisted es).count x := by
  suffices h : ∀ s : State, (ackedItems (runPinned s es)).count x ≤
      (ackedItems s).count x + (items s.cache).count x + (persisted es).count x by
    have := h (init m v2 t0)
    simpa [ackedItems, items, init] using this
  induction es with
  | nil => intro s; simp [runPinned, persisted]
  | cons e es ih =>
    intro s
    have hrun : runPinned s (e :: es) = runPinned (stepPinned s e) es := rfl
    rw [hrun]
    refine Nat.le_trans (ih _) ?_
    have hsend : ∀ script, (ackedItems (sendAndEmptyPinned s script)).count x +
        (items (sendAndEmptyPinned s script).cache).count x ≤
        (ackedItems s).count x + (items s.cache).count x := by
      intro script
      unfold sendAndEmptyPinned
      split
      · exact Nat.le_refl _
      · rename_i hc
        by_cases h : (sendWithRetries script).success = true
        · simp [ackedItems, h, items, hc]
        · simp [ackedItems, h, items]
    cases e with
    | persist r d =>
      have hp := (items_cacheAdd s.cache r d).count_eq x
      simp only [stepPinned, stepWith, persisted, List.count_cons, List.count_append,
        List.count_nil] at hp ⊢
      have : ackedItems { s with cache := cacheAdd s.cache r d } = ackedItems s := rfl
      rw [this]; omega
    | sendData now script =>
      simp only [stepPinned, stepWith, persisted]
      split
      · have := hsend script
        have e1 : ackedItems { sendAndEmptyPinned s script with lastSend := now + sleptIn s script }
            = ackedItems (sendAndEmptyPinned s script) := rfl
        rw [e1]; simp only; omega
      · omega
    | close script =>
      simp only [stepPinned, stepWith, persisted]
      have := hsend script
      omega

/-! ### "is kept for the next attempt whenever a request fails" -/

/-- a transmission point whose request fails leaves the cache exactly as it was -/
theorem c17_kept_on_failure (s : State) (script : List Attempt)
    (h : (sendWithRetries script).success = false) :
    (sendAndEmpty s script).cache = s.cache := by
  unfold sendAndEmpty
  split
  · rfl
  · simp [h]

/-- … at every transmission point of a session: whatever the event, if it made a
request and the request failed, nothing left the cache; and a `persist` only adds -/
theorem c17_kept_on_failure_step (s : State) (e : Event) :
    (∀ now script, e = .sendData now script → (sendWithRetries script).success = false →
        (step s e).cache = s.cache) ∧
    (∀ script, e = .close script → (sendWithRetries script).success = false →
        (step s e).cache = s.cache) := by
  constructor
  · intro now script he h
    subst he
    simp only [step, stepWith]
    split
    · exact c17_kept_on_failure s script h
    · rfl
  · intro script he h
    subst he
    exact c17_kept_on_failure s script h

-- non-vacuity: a failing script exists, and the cache it leaves is non-empty
example : (sendWithRetries [.server, .refused, .server, .refused, .server]).success = false := by decide
example : (sendWithRetries [.client]).success = false := by decide

/-- the pinned tree violates it: one data point, one refused request, cache empty -/
theorem c17_kept_on_failure_pinned_fails :
    ¬ (∀ (s : State) (script : List Attempt), (sendWithRetries script).success = false →
        (sendAndEmptyPinned s script).cache = s.cache) := by
  intro h
  have := h { info := ⟨"t", "e", "s"⟩, v2 := false, cache := [(0, [⟨1, 1, []⟩])], lastSend := 0, reqs := [] }
    [.client] (by decide)
  revert this
  decide

/-! ### "has been acknowledged exactly once if the session's final transmission succeeds" -/

/-- after any session that ends with a `close` whose request is acknowledged, the
acknowledged requests contain exactly the data points handed to the back end,
each as often as it was handed over (a permutation) -/
theorem c17_final_ok_all_once (m : Meta) (v2 : Bool) (t0 : Nat) (es : List Event) (script : List Attempt)
    (h : (sendWithRetries script).success = true) :
    (ackedItems (run (init m v2 t0) (es ++ [.close script]))).Perm (persisted es) := by
  have hc := run_conserves (init m v2 t0) (es ++ [.close script])
  have hempty : (run (init m v2 t0) (es ++ [.close script])).cache = [] := by
    simp only [run, List.foldl_append, List.foldl_cons, List.foldl_nil, step, stepWith]
    unfold sendAndEmpty
    split
    · assumption
    · simp [h]
  rw [hempty] at hc
  simpa [items, ackedItems, init, persisted_append, persisted] using hc

/-- as counts: exactly once per hand-over -/
theorem c17_final_ok_count (m : Meta) (v2 : Bool) (t0 : Nat) (es : List Event) (script : List Attempt)
    (h : (sendWithRetries script).success = true) (x : Run × DP) :
    (ackedItems (run (init m v2 t0) (es ++ [.close script]))).count x = (persisted es).count x :=
  (c17_final_ok_all_once m v2 t0 es script h).count_eq x

-- non-vacuity: a session with a failed and a successful transmission
example : (sendWithRetries [.refused, .server, .ok]).success = true := by decide
example :
    ackedItems (run (init ⟨"t", "e", "s"⟩ true 0)
      [.persist 0 ⟨1, 1, []⟩, .sendData 30 [.client], .persist 1 ⟨1, 1, []⟩, .close [.ok]])
    = [(0, ⟨1, 1, []⟩), (1, ⟨1, 1, []⟩)] := by decide

/-- on the pinned tree the data point of the example above is lost -/
theorem c17_final_ok_all_once_pinned_fails :
    ¬ (∀ (es : List Event) (script : List Attempt), (sendWithRetries script).success = true →
        (ackedItems (runPinned (init ⟨"t", "e", "s"⟩ true 0) (es ++ [.close script]))).Perm (persisted es)) := by
  intro h
  have := (h [.persist 0 ⟨1, 1, []⟩, .sendData 30 [.client], .persist 1 ⟨1, 1, []⟩] [.ok] (by decide)).length_eq
  revert this
  decide

/-! ### retry policy of one request -/

/-- at most 5 `_send_payload` calls per request, for every script -/
theorem c17_retry_bound (script : List Attempt) : (sendWithRetries script).used ≤ 5 :=
  sendLoop_used_le 4 10 script

/-- the sleeps are 10, 20, 40, 80 s: one before each retry -/
theorem c17_retry_waits (script : List Attempt) :
    (sendWithRetries script).waits = [10, 20, 40, 80].take ((sendWithRetries script).used - 1) := by
  have h := sendLoop_waits 4 10 script
  have hb := c17_retry_bound script
  unfold sendWithRetries at *
  rw [h]
  generalize (sendLoop 4 10 script).used = u at *
  have : u = 0 ∨ u = 1 ∨ u = 2 ∨ u = 3 ∨ u = 4 ∨ u = 5 := by omega
  rcases this with h | h | h | h | h | h <;> subst h <;> rfl

/-- a request succeeds iff one of its first five attempts is acknowledged and all
earlier ones failed in a retryable way -/
theorem c17_success_iff (script : List Attempt) :
    (sendWithRetries script).success = true ↔
      ∃ k, k ≤ 4 ∧ script[k]? = some .ok ∧ ∀ j, j < k → retryable (script[j]?.getD .refused) = true :=
  sendLoop_success_iff 4 10 script

/-- a client error (HTTP 4xx) is never retried: the request ends with that attempt -/
theorem c17_client_error_not_retried (script : List Attempt) (k : Nat) (hk : k ≤ 4)
    (h4 : script[k]? = some .client)
    (hall : ∀ j, j < k → retryable (script[j]?.getD .refused) = true) :
    (sendWithRetries script).success = false ∧ (sendWithRetries script).used = k + 1 :=
  sendLoop_stops_at 4 10 script k .client hk h4 (by decide) (by decide) hall

example : (sendWithRetries [.server, .client, .ok]).used = 2 := by decide

/-! ### payload conversion -/

/-- API v1: decoding the payload gives back exactly the cache it was made from
(every run, every data point with invocation and iteration, every measurement
with criterion, unit and value, in order), for every cache -/
theorem c17_decode_encode_v1 (c : Cache) : decodeV1 (encodeV1 c) = some c := by
  have := (encRuns1_spec [] c).2 []
  simpa [decodeV1, encodeV1] using this

/-- API v2: the value the payload holds for (run, invocation, iteration, criterion)
is exactly the value the cache holds for it — nothing lost, nothing invented,
nothing moved — for caches in the shape the adapters produce (C12): per run the
data points are in strictly increasing (invocation, iteration) order with
iterations ≥ 1, and a data point names each criterion at most once.  Criteria
sets may be sparse and differ between data points (null padding). -/
theorem c17_decode_encode_v2 (c : Cache) (h : wellShaped c) (r : Run) (inv it : Nat) (cr : Crit) :
    lookupV2 (encodeV2 c) r inv it cr = lookupCache c r inv it cr :=
  encodeV2_lookup c h r inv it cr

-- non-vacuity: sparse, differing criteria sets over two invocations
example : wellShaped [(0, [⟨1, 1, [⟨("total", "ms"), 5⟩]⟩, ⟨1, 2, [⟨("mem", "kb"), 7⟩, ⟨("total", "ms"), 6⟩]⟩,
                           ⟨2, 1, [⟨("gc", "ms"), 1⟩]⟩]),
                      (1, [⟨1, 2, [⟨("gc", "ms"), 9⟩]⟩])] := by
  decide
-- without the shape the payload moves values: a repeated iteration number
example : lookupV2 (encodeV2 [(0, [⟨1, 1, [⟨("t", "ms"), 5⟩]⟩, ⟨1, 1, [⟨("t", "ms"), 6⟩]⟩])]) 0 1 2 ("t", "ms")
    ≠ lookupCache [(0, [⟨1, 1, [⟨("t", "ms"), 5⟩]⟩, ⟨1, 1, [⟨("t", "ms"), 6⟩]⟩])] 0 1 2 ("t", "ms") := by
  decide

/-- every request of a session carries the session's start time, environment and
source details, the API version asked for, and covers exactly the cache content
of that moment -/
theorem c17_payload_carries (s : State) (script : List Attempt) (q : Req)
    (hq : q ∈ (sendAndEmpty s script).reqs) (hs : ∀ q' ∈ s.reqs, q'.payload.info = s.info) :
    q.payload.info = s.info := by
  unfold sendAndEmpty at hq
  split at hq
  · exact hs q hq
  · simp only [List.mem_append, List.mem_singleton] at hq
    rcases hq with hq | hq
    · exact hs q hq
    · subst hq; rfl

theorem c17_payload_carries_run (m : Meta) (v2 : Bool) (t0 : Nat) (es : List Event) :
    ∀ q ∈ (run (init m v2 t0) es).reqs, q.payload.info = m ∧ q.payload.v2 = v2 := by
  suffices h : ∀ s : State, (∀ q ∈ s.reqs, q.payload.info = s.info ∧ q.payload.v2 = s.v2) →
      (∀ q ∈ (run s es).reqs, q.payload.info = s.info ∧ q.payload.v2 = s.v2) by
    exact h (init m v2 t0) (by simp [init])
  induction es with
  | nil => intro s hs; simpa [run] using hs
  | cons e es ih =>
    intro s hs
    have hrun : run s (e :: es) = run (step s e) es := rfl
    have hsend : ∀ script, (sendAndEmpty s script).info = s.info ∧ (sendAndEmpty s script).v2 = s.v2 ∧
        ∀ q ∈ (sendAndEmpty s script).reqs, q.payload.info = s.info ∧ q.payload.v2 = s.v2 := by
      intro script
      unfold sendAndEmpty
      split
      · exact ⟨rfl, rfl, hs⟩
      · refine ⟨rfl, rfl, ?_⟩
        intro q hq
        simp only [List.mem_append, List.mem_singleton] at hq
        rcases hq with hq | hq
        · exact hs q hq
        · subst hq; exact ⟨rfl, rfl⟩
    have key : (step s e).info = s.info ∧ (step s e).v2 = s.v2 ∧
        ∀ q ∈ (step s e).reqs, q.payload.info = s.info ∧ q.payload.v2 = s.v2 := by
      cases e with
      | persist r d => exact ⟨rfl, rfl, hs⟩
      | sendData now script =>
        simp only [step, stepWith]
        split
        · exact hsend script
        · exact ⟨rfl, rfl, hs⟩
      | close script => exact hsend script
    rw [hrun]
    have := ih (step s e) (by rw [key.1, key.2.1]; exact key.2.2)
    rw [key.1, key.2.1] at this
    exact this

end RB.DB
