/-
Model of ReBench's data-file loader (C09, reused by C14's `Rewrite`).

Level 1 (text): a file is a list of characters; `fileLines` splits it the way
Python's text-mode iteration does (each line with its `\n`, the last one
possibly unterminated); `classify` turns one line into a record.
Level 2 (records): `step` / `loadFrom` is the state machine of
`_FilePersistence._process_lines` + `_parse_data_line` + `DataPoint.add_measurement`
+ `RunId._new_data_point`; `sessionRecs` is what a session appends
(`_open_file_and_append_execution_comment`, `_ensure_*_is_persisted`,
`_persists_data_point_in_open_file`).

Two variants of the loader are kept: `Variant.pinned` is the code of the pinned
tree, `Variant.repaired` the code after the three `fix:` commits (metadata
parsed inside the tolerant block; open data point reset at every comment line;
an unterminated last line ignored).  Imports nothing outside core Lean.
-/

namespace RB.Loader

abbrev Text := List Char

/-! ## Level 1: text -/

/-- Python `str.split(sep)`: always at least one field -/
def splitOn (sep : Char) : Text → List Text
  | [] => [[]]
  | c :: cs =>
    if c = sep then [] :: splitOn sep cs
    else match splitOn sep cs with
      | f :: fs => (c :: f) :: fs
      | [] => [[c]]

/-- the inverse direction: fields joined by `sep` -/
def joinWith (sep : Char) : List Text → Text
  | [] => []
  | [f] => f
  | f :: g :: fs => f ++ sep :: joinWith sep (g :: fs)

/-- a line as Python's `for line in data_file` yields it: content without the
newline, and whether the newline was there (only the last line can lack it) -/
structure Line where
  content : Text
  terminated : Bool
  deriving Repr, DecidableEq

def mkLines : List Text → List Line
  | [] => []
  | [l] => if l = [] then [] else [⟨l, false⟩]
  | l :: m :: ls => ⟨l, true⟩ :: mkLines (m :: ls)

/-- text-mode line iteration (persistence.py:281 `for line in data_file`);
`\r` is assumed absent (see the trusted base) -/
def fileLines (t : Text) : List Line := mkLines (splitOn '\n' t)

/-- the exception classes that matter: what `except (ValueError, IndexError)` catches and what not -/
inductive Exc | value | index | assertion | decode
  deriving Repr, DecidableEq

/-- a measurement line (measurement.py:50-60 `from_str_list`): the fields the loader looks at -/
structure Meas where
  inv : Nat
  it : Nat
  value : Text
  crit : Text
  total : Bool
  runIdx : Nat
  deriving Repr, DecidableEq

inductive Rec
  | session                                 -- `#!…` first line of a session block
  | comment                                 -- any other `#` line
  | header                                  -- the column header line
  | bench (id : Nat) (key : Nat)            -- `# benchmark: id=<json>` that parses
  | run (id : Nat) (benchId : Nat) (key : Nat)  -- `# run_id: id=<json>` that parses
  | metaErr (e : Exc)                       -- a metadata line whose parsing raises `e`
  | meas (m : Meas)
  | dataErr (e : Exc)                       -- a data line whose parsing raises `e`
  deriving Repr, DecidableEq

def isDigit (c : Char) : Bool := '0' ≤ c && c ≤ '9'

/-- Python `int(s)` on what ReBench renders: a non-empty string of ASCII digits.
(`int` also accepts signs, blanks, underscores — never rendered into these fields by the
generator's alphabet; stated in the trusted base) -/
def pyNat? (s : Text) : Option Nat :=
  if s = [] then none
  else if s.all isDigit then some (s.foldl (fun n c => 10 * n + (c.toNat - 48)) 0)
  else none

/-- the value column is accepted: Python `float(s)` succeeds on `digits[.digits]` with at least one
digit (the shape `%f` and every prefix of it has), and the two boolean texts are accepted -/
def pyFloatOk (s : Text) : Bool :=
  let ds := s.filter (fun c => c ≠ '.')
  (ds ≠ [] && ds.all isDigit && (s.filter (fun c => c = '.')).length ≤ 1)
    -- boolean measurements (ValidationLog's Success) are written as True / False and read back
    -- as booleans (measurement.py `_value_from_str`)
    || s = "True".toList || s = "False".toList

def totalName : Text := "total".toList

/-- the run-id column: `RunId.from_str_list(str_list[5:])` reads `[-1]` -/
def lastAfter5 (f : List Text) : Option Text := (f.drop 5).getLast?

/-- `Measurement.from_str_list` in its order of evaluation (measurement.py:50-60,
run_id.py:472-478 up to the table lookup, which needs the loader state) -/
def classifyData (f : List Text) : Rec :=
  match pyNat? (f.headD []) with
  | none => .dataErr .value
  | some inv =>
  match f[1]? with
  | none => .dataErr .index
  | some f1 =>
  match pyNat? f1 with
  | none => .dataErr .value
  | some it =>
  match f[2]? with
  | none => .dataErr .index
  | some f2 =>
  if !pyFloatOk f2 then .dataErr .value else
  match f[3]? with
  | none => .dataErr .index
  | some _ =>
  match f[4]? with
  | none => .dataErr .index
  | some crit =>
  match lastAfter5 f with
  | none => .dataErr .index
  | some last =>
  match pyNat? last with
  | none => .dataErr .value
  | some idx => .meas ⟨inv, it, f2, crit, crit == totalName, idx⟩

/-- `rest_line.split("=", 1)` -/
def splitFirstEq : Text → Option (Text × Text)
  | [] => none
  | c :: cs => if c = '=' then some ([], cs) else
      match splitFirstEq cs with
      | some (a, b) => some (c :: a, b)
      | none => none

/-- which JSON payloads `json.loads` + `from_dict` accept, and what they denote (abstract keys):
`bench js = some key`, `run js = some (run key, benchmark_id)`.  A payload the decoder does not
know makes `json.loads` raise (ValueError).  The driver builds the decoders from the complete
payloads that were ever rendered (`Payloads.ofLists`). -/
structure Payloads where
  bench : Text → Option Nat
  run : Text → Option (Nat × Nat)
  /-- `none`: a benchmark data file.  `some ok`: a profile data file (`_ProfileFilePersistence`);
  `ok js` says whether `json.loads` accepts the last column `js` (the loader of the pinned tree
  does not look: `some (fun _ => true)`) -/
  profile : Option (Text → Bool) := none

def lookup {β} (t : List (Text × β)) (p : Text) : Option β :=
  match t with
  | [] => none
  | (k, v) :: rest => if k = p then some v else lookup rest p

def Payloads.ofLists (b : List (Text × Nat)) (r : List (Text × Nat × Nat)) : Payloads :=
  { bench := lookup b, run := lookup r }

/-- no payload is accepted -/
def Payloads.none : Payloads := { bench := fun _ => Option.none, run := fun _ => Option.none }

def benchPrefix : Text := "# benchmark: ".toList
def runPrefix : Text := "# run_id: ".toList
def sessionPrefix : Text := "#!".toList

/-- persistence.py:287-308 up to the state-dependent assertions -/
def classifyComment (pl : Payloads) (l : Text) : Rec :=
  if benchPrefix.isPrefixOf l then
    match splitFirstEq (l.drop benchPrefix.length) with
    | none => .metaErr .value
    | some (id, js) =>
      match pl.bench js with
      | none => .metaErr .value
      | some key => match pyNat? id with
        | none => .metaErr .value
        | some n => .bench n key
  else if runPrefix.isPrefixOf l then
    match splitFirstEq (l.drop runPrefix.length) with
    | none => .metaErr .value
    | some (id, js) =>
      match pl.run js with
      | none => .metaErr .value
      | some (key, bid) => match pyNat? id with
        | none => .metaErr .value
        | some n => .run n bid key
  else if sessionPrefix.isPrefixOf l then .session
  else .comment

/-- a profile data line: `ProfileData.from_str_list` (profile_data.py:33-44) — the JSON column
is checked first (repaired loader), then invocation, number of iterations and the run id column
(second to last).  Every line is a complete data point: it is modelled as a data point whose only
measurement is its total, with the JSON text as value. -/
def classifyProfile (ok : Text → Bool) (f : List Text) : Rec :=
  if !ok (f.getLast?.getD []) then .dataErr .value else
  match pyNat? (f.headD []) with
  | none => .dataErr .value
  | some inv =>
  match f[1]? with
  | none => .dataErr .index
  | some f1 =>
  match pyNat? f1 with
  | none => .dataErr .value
  | some nit =>
  match ((f.drop 2).dropLast).getLast? with
  | none => .dataErr .index
  | some idx =>
  match pyNat? idx with
  | none => .dataErr .value
  | some i => .meas ⟨inv, nit, f.getLast?.getD [], totalName, true, i⟩

/-- a data line of a benchmark or of a profile data file -/
def classifyLine (pl : Payloads) (f : List Text) : Rec :=
  match pl.profile with
  | none => classifyData f
  | some ok => classifyProfile ok f

/-- one line → one record (persistence.py:282, 311, 315) -/
def classify (pl : Payloads) (hdr : Text) (l : Line) : Rec :=
  match l.content with
  | '#' :: _ => classifyComment pl l.content
  | _ => if l.content = hdr && l.terminated then .header
         else classifyLine pl (splitOn '\t' l.content)

/-! ## Level 2: records -/

structure Variant where
  /-- metadata lines are parsed inside `try … except (ValueError, IndexError)` -/
  metaTolerant : Bool
  /-- every `#` line resets the open data point -/
  resetAtComment : Bool
  /-- a last line without `\n` is ignored -/
  skipUnterminated : Bool
  deriving Repr, DecidableEq

def Variant.pinned : Variant := ⟨false, false, false⟩
def Variant.repaired : Variant := ⟨true, true, true⟩

/-- the records the loader sees for a text -/
def records (v : Variant) (pl : Payloads) (hdr : Text) (t : Text) : List Rec :=
  ((fileLines t).filter (fun l => l.terminated || !v.skipUnterminated)).map (classify pl hdr)

/-- a measurement inside a data point: (iteration, criterion, value) -/
abbrev M := Nat × Text × Text

/-- a data point handed to `RunId.loaded_data_point` -/
structure DP where
  run : Nat
  inv : Nat
  ms : List M
  deriving Repr, DecidableEq

/-- the open data point (`data_point`, whose run is `previous_run_id`; data_point.py:29-52) -/
structure Open where
  run : Nat
  inv : Option Nat
  ms : List M
  deriving Repr, DecidableEq

def fresh (r : Nat) : Open := ⟨r, none, []⟩

structure LState where
  benches : List Nat      -- `_id_to_benchmark` (keys)
  runs : List Nat         -- `_id_to_run_id` (keys)
  cur : Option Open       -- `data_point` / `previous_run_id`
  loaded : List DP        -- calls of `loaded_data_point`, in order
  deriving Repr, DecidableEq

def LState.init : LState := ⟨[], [], none, []⟩

/-- how a load ends other than normally -/
inductive End
  | uiError          -- UIError: exit status 3
  | crash (e : Exc)  -- an exception nobody catches: traceback
  deriving Repr, DecidableEq

/-- an exception of class `e` raised while a line is parsed: swallowed or not -/
def tolerate (tolerant : Bool) (st : LState) (e : Exc) : Except End LState :=
  match e with
  | .assertion => .error (.crash .assertion)
  | e => if tolerant then .ok st else .error (.crash e)

/-- `_parse_data_line` + `DataPoint.add_measurement` + `RunId.loaded_data_point`
(persistence.py:327-352, data_point.py:39-52, run_id.py:253-264) without `-r` filtering -/
def stepMeas (st : LState) (m : Meas) : Except End LState :=
  match st.runs[m.runIdx]? with
  | none => .error .uiError           -- run_id.py:477 "Possibly corrupted data file"
  | some r =>
    let o := match st.cur with
      | some o => if o.run = r then o else fresh r
      | none => fresh r
    if o.inv.isSome && o.inv ≠ some m.inv then .error .uiError   -- data_point.py:42-45
    else
      let ms := o.ms ++ [(m.it, m.crit, m.value)]
      if m.total then
        .ok { st with loaded := st.loaded ++ [⟨r, m.inv, ms⟩], cur := some (fresh r) }
      else
        .ok { st with cur := some ⟨r, some m.inv, ms⟩ }

/-- a `#` line: the repaired loader forgets the open data point (comment lines are never
written inside a data point) -/
def atComment (v : Variant) (st : LState) : LState :=
  if v.resetAtComment then { st with cur := none } else st

def step (v : Variant) (st0 : LState) : Rec → Except End LState
  | .session => .ok (atComment v st0)
  | .comment => .ok (atComment v st0)
  | .header => .ok st0
  | .bench id key =>
      let st := atComment v st0
      -- persistence.py:292-295
      if key ∈ st.benches then .error (.crash .assertion)
      else if st.benches.length ≠ id then .error (.crash .assertion)
      else .ok { st with benches := st.benches ++ [key] }
  | .run id bid _bkey =>
      let st := atComment v st0
      -- persistence.py:303-308
      if bid < st.benches.length then
        if st.runs.length ≠ id then .error (.crash .assertion)
        else .ok { st with runs := st.runs ++ [_bkey] }
      else tolerate v.metaTolerant st .index
  | .metaErr e => tolerate v.metaTolerant (atComment v st0) e
  | .meas m => stepMeas st0 m
  | .dataErr e => tolerate true st0 e

def loadFrom (v : Variant) (st : LState) : List Rec → Except End LState
  | [] => .ok st
  | r :: rs => match step v st r with
    | .ok st' => loadFrom v st' rs
    | .error e => .error e

def load (v : Variant) (rs : List Rec) : Except End LState := loadFrom v LState.init rs

/-! ### decoding the file

The text of the model is the file's bytes, one character per byte.  Python reads the data file
in text mode (UTF-8): the loader of the tree before the repair lets a byte sequence that is not
valid UTF-8 raise `UnicodeDecodeError` while it iterates over the lines (outside the tolerant
block); the repaired loader opens the file with `errors="replace"`. -/

/-- UTF-8 well-formedness of a byte text (lead byte classes and continuation bytes; overlong forms
and surrogates are not distinguished) -/
def utf8Go (need : Nat) : Text → Bool
  | [] => need == 0
  | c :: cs =>
    let b := c.toNat
    if need = 0 then
      if b < 0x80 then utf8Go 0 cs
      else if 0xC2 ≤ b && b < 0xE0 then utf8Go 1 cs
      else if 0xE0 ≤ b && b < 0xF0 then utf8Go 2 cs
      else if 0xF0 ≤ b && b < 0xF5 then utf8Go 3 cs
      else false
    else if 0x80 ≤ b && b < 0xC0 then utf8Go (need - 1) cs else false

def utf8Valid (t : Text) : Bool := utf8Go 0 t

/-- loading a file given as bytes -/
def loadText (decodeTolerant : Bool) (v : Variant) (pl : Payloads) (hdr : Text) (t : Text) : Except End LState :=
  if decodeTolerant || utf8Valid t then load v (records v pl hdr t) else .error (.crash .decode)

/-- `RunId.completed_invocations` after loading (run_id.py:253-258, 139-141) -/
def maxInv (loaded : List DP) (r : Nat) : Nat :=
  loaded.foldl (fun m d => if d.run = r then max m d.inv else m) 0

/-! ## What a session appends -/

/-- a data point as the executor hands it to `persist_data_point` -/
structure WDP where
  run : Nat
  bench : Nat
  inv : Nat
  it : Nat
  crits : List (Text × Text)     -- (criterion, value) of the non-total measurements
  total : Text                   -- value of the total
  deriving Repr, DecidableEq

def WDP.ms (d : WDP) : List M :=
  d.crits.map (fun cv => (d.it, cv.1, cv.2)) ++ [(d.it, totalName, d.total)]

def WDP.toDP (d : WDP) : DP := ⟨d.run, d.inv, d.ms⟩

/-- the measurement lines of one data point (persistence.py:410-414) -/
def dpRecs (idx : Nat) (d : WDP) : List Rec :=
  d.crits.map (fun cv => Rec.meas ⟨d.inv, d.it, cv.2, cv.1, false, idx⟩)
    ++ [Rec.meas ⟨d.inv, d.it, d.total, totalName, true, idx⟩]

structure Tables where
  benches : List Nat
  runs : List Nat
  deriving Repr, DecidableEq

def LState.tables (st : LState) : Tables := ⟨st.benches, st.runs⟩

/-- tables after `_ensure_run_id_is_persisted` -/
def Tables.ensure (tb : Tables) (d : WDP) : Tables :=
  if d.run ∈ tb.runs then tb
  else ⟨if d.bench ∈ tb.benches then tb.benches else tb.benches ++ [d.bench], tb.runs ++ [d.run]⟩

/-- metadata records written before a data point (persistence.py:388-408) -/
def metaRecs (tb : Tables) (d : WDP) : List Rec :=
  if d.run ∈ tb.runs then []
  else
    (if d.bench ∈ tb.benches then [] else [Rec.bench tb.benches.length d.bench])
      ++ [Rec.run tb.runs.length ((tb.ensure d).benches.idxOf d.bench) d.run]

/-- everything one `persist_data_point` writes before its flush -/
def emitDP (tb : Tables) (d : WDP) : List Rec :=
  metaRecs tb d ++ dpRecs ((tb.ensure d).runs.idxOf d.run) d

def emitAll (tb : Tables) : List WDP → List Rec
  | [] => []
  | d :: ds => emitDP tb d ++ emitAll (tb.ensure d) ds

/-- the session block (persistence.py:359-381): `#!…`, start time, environment, source,
and the header when the file was empty.  `glued`: the file ended in a torn line without
newline, so the `#!` line became part of that line and is not seen as a record of its own -/
def blockRecs (glued empty : Bool) : List Rec :=
  (if glued then [] else [.session]) ++ [.comment, .comment, .comment] ++ (if empty then [.header] else [])

/-- everything a session appends for the data points `ds` (nothing when there are none:
the file is opened lazily, persistence.py:429-431) -/
def sessionRecs (glued empty : Bool) (tb : Tables) (ds : List WDP) : List Rec :=
  match ds with
  | [] => []
  | _ => blockRecs glued empty ++ emitAll tb ds

/-- the writer's tables after a list of data points -/
def ensureAll (tb : Tables) (ds : List WDP) : Tables := ds.foldl Tables.ensure tb

/-! ## What a session appends, as text -/

/-- lines written with their newline -/
def renderLines (ls : List Text) : Text := ls.flatMap (fun l => l ++ ['\n'])

/-- the first line of a session block: `#!` and the command line (persistence.py:365) -/
def sessLine (cmd : Text) : Text := '#' :: '!' :: cmd

/-- a rendered line together with the record the writer means by it -/
structure RLine where
  text : Text
  cls : Rec
  deriving Repr, DecidableEq

/-- a session that appends: its command line, whether it found the file empty, the lines it writes
after the `#!` line as a function of the writer's tables (`_benchmarks_in_file`/`_run_ids_in_file`,
which are the loader's), and the data points these lines stand for -/
structure Sess where
  cmd : Text
  empty : Bool
  body : Tables → List RLine
  ds : List WDP

def sessText (tb : Tables) (s : Sess) : Text :=
  renderLines (sessLine s.cmd :: (s.body tb).map RLine.text)

/-- sessions appended one after the other; each starts from the tables the previous one left -/
def sessionsText (tb : Tables) : List Sess → Text
  | [] => []
  | s :: ss => sessText tb s ++ sessionsText (ensureAll tb s.ds) ss

/-! ### a concrete renderer (persistence.py:359-414, measurement.py:38-48, run_id.py:420-430) -/

/-- Python `str(n)` for a natural number -/
def natText (n : Nat) : Text := Nat.toDigits 10 n

/-- what the renderer needs to know beyond the data points: the run's columns (benchmark …
machine), the unit, the JSON payloads of the metadata records, the three comment lines of a
session block, the column header -/
structure Rend where
  cols : Nat → List Text
  unit : Text → Text             -- unit of a criterion
  benchJson : Nat → Text
  runJson : Nat → Nat → Text     -- run key, benchmark id
  comment : Nat → Text
  hdr : Text
  /-- a profile data file: lines are `invocation, numIterations, run columns, run id, JSON`
  (profile_data.py:27-30) -/
  profile : Bool := false

def measLineText (R : Rend) (run : Nat) (m : Meas) : Text :=
  if R.profile then
    joinWith '\t' ([natText m.inv, natText m.it] ++ R.cols run ++ [natText m.runIdx, m.value])
  else
    joinWith '\t' ([natText m.inv, natText m.it, m.value, R.unit m.crit, m.crit] ++ R.cols run ++ [natText m.runIdx])

def recText (R : Rend) (run : Nat) : Rec → Text
  | .bench id key => benchPrefix ++ natText id ++ '=' :: R.benchJson key
  | .run id bid key => runPrefix ++ natText id ++ '=' :: R.runJson key bid
  | .meas m => measLineText R run m
  | .header => R.hdr
  | _ => R.comment 0

/-- the lines of one `persist_data_point` -/
def renderDP (R : Rend) (tb : Tables) (d : WDP) : List RLine :=
  (emitDP tb d).map (fun r => ⟨recText R d.run r, r⟩)

def renderAll (R : Rend) (tb : Tables) : List WDP → List RLine
  | [] => []
  | d :: ds => renderDP R tb d ++ renderAll R (tb.ensure d) ds

/-- the lines of a session after its `#!` line -/
def renderBody (R : Rend) (empty : Bool) (tb : Tables) (ds : List WDP) : List RLine :=
  [⟨R.comment 0, .comment⟩, ⟨R.comment 1, .comment⟩, ⟨R.comment 2, .comment⟩]
    ++ (if empty then [⟨R.hdr, .header⟩] else []) ++ renderAll R tb ds

def mkSess (R : Rend) (cmd : Text) (empty : Bool) (ds : List WDP) : Sess :=
  ⟨cmd, empty, fun tb => renderBody R empty tb ds, ds⟩

def plainField (t : Text) : Bool := !t.contains '\t' && !t.contains '\n' && !t.contains '\r'

def plainLine (t : Text) : Bool := !t.contains '\n' && !t.contains '\r'

/-- a comment line of a session block: starts with `#`, is none of the three special kinds -/
def commentOk (t : Text) : Bool :=
  plainLine t && t.head? == some '#' && !benchPrefix.isPrefixOf t && !runPrefix.isPrefixOf t
    && !sessionPrefix.isPrefixOf t

/-- decidable conditions on the data points: values are `%f` numerals, criteria are plain fields
and only the last measurement is called `total`; the run's columns are plain fields (profile
data file: no criteria, the JSON column is a plain field) -/
def dpOk (R : Rend) (d : WDP) : Bool :=
  if R.profile then d.crits.isEmpty && plainField d.total && (R.cols d.run).all plainField else
  d.crits.all (fun cv => plainField cv.1 && plainField cv.2 && pyFloatOk cv.2 && cv.1 != totalName
      && plainField (R.unit cv.1))
    && plainField (R.unit totalName) && plainField d.total && pyFloatOk d.total && (R.cols d.run).all plainField

def rendOk (R : Rend) : Bool :=
  commentOk (R.comment 0) && commentOk (R.comment 1) && commentOk (R.comment 2)
    && plainLine R.hdr && !(R.hdr.head?.any (fun c => isDigit c || c == '#')) && !R.hdr.contains '#'

/-- decidable side conditions of the text level (see the trusted base): no carriage return in
the text (Python's universal newlines would split there) -/
def noCR (t : Text) : Bool := !t.contains '\r'

/-- a command line as `subprocess.list2cmdline(sys.argv)` gives it for the generated sessions:
one line, no tab, not ending in `}`, `]` or `"` (what a JSON payload ends in) -/
def cmdOk (cmd : Text) : Bool :=
  !cmd.contains '\t' && !cmd.contains '\n' && cmd.getLast? != some '}' && cmd.getLast? != some ']'
    && cmd.getLast? != some '"'

/-- every JSON payload the decoders accept is an object: it ends in `}` -/
def PlOk (pl : Payloads) : Prop :=
  (∀ js k, pl.bench js = some k → js.getLast? = some '}') ∧ (∀ js kb, pl.run js = some kb → js.getLast? = some '}')
    ∧ (∀ ok js, pl.profile = some ok → ok js = true → js.getLast? = some ']' ∨ js.getLast? = some '"')

/-- number of `total` measurement records: each completes one data point -/
def countTotals (rs : List Rec) : Nat :=
  (rs.filter (fun r => match r with | .meas m => m.total | _ => false)).length

/-! ## The executor's resume logic -/

/-- a configured run: key, benchmark key, invocations, data points per invocation -/
structure RunCfg where
  run : Nat
  bench : Nat
  invocations : Nat
  iterations : Nat
  deriving Repr, DecidableEq

/-- invocation numbers the next session executes for a run
(termination_check.py:69, executor.py `completed_invocations + 1`) -/
def todo (loaded : List DP) (c : RunCfg) : List Nat :=
  (List.range c.invocations).filterMap (fun i => if maxInv loaded c.run ≤ i then some (i + 1) else none)

/-- data points of one invocation; values are left abstract (`val`) -/
def invDPs (val : Nat → Nat → Nat → Text) (c : RunCfg) (inv : Nat) : List WDP :=
  (List.range c.iterations).map (fun j => ⟨c.run, c.bench, inv, j + 1, [], val c.run inv (j + 1)⟩)

/-- what the (batch) executor produces when every invocation succeeds -/
def resumeDPs (val : Nat → Nat → Nat → Text) (loaded : List DP) (cfg : List RunCfg) : List WDP :=
  cfg.flatMap (fun c => (todo loaded c).flatMap (invDPs val c))

/-- number of data points recorded for (run, invocation) -/
def countInv (loaded : List DP) (r i : Nat) : Nat :=
  (loaded.filter (fun d => d.run = r && d.inv = i)).length

end RB.Loader
