/-
C16 — model of "timed-out or interrupted invocations are killed with their tree".

Mirrors
  * `rebench/subprocess_kill.py:23-45`          `kill_process`, `_get_process_children` → `descendants`, `killList`
  * `rebench/subprocess_with_timeout.py:122-182` `run`, `_join_with_keep_alive`          → `decide`, `runTrace`, `joinPlan`
  * `rebench/executor.py:546-553, 577-590`       classification of the return code        → `classify`, `invocation`

The operating system (pgrep, kill(2), signal delivery) and the interpreter (what
`Thread.is_alive()` reports after a `join` that was interrupted by a signal)
are inputs of the model, not part of it: the process tree is a static rose tree,
`aliveReported` is what `is_alive()` says, `childRunning` is the truth.
-/
namespace RB.Kill

/-- a process with its children, in the order `pgrep -P` lists them -/
inductive Tree where
  | node (pid : Nat) (children : List Tree)
deriving Repr

def Tree.pid : Tree → Nat
  | .node p _ => p

def Tree.children : Tree → List Tree
  | .node _ cs => cs

mutual
/-- `_get_process_children(pid)`: the direct children, then, child by child, their
own `_get_process_children` -/
def descendants : Tree → List Nat
  | .node _ cs => cs.map Tree.pid ++ descList cs
def descList : List Tree → List Nat
  | [] => []
  | c :: cs => descendants c ++ descList cs
end

/-- `kill_process`: `pids = [pid]` and, if `recursively`, the discovered descendants -/
def killList (t : Tree) (recursively : Bool) : List Nat :=
  t.pid :: (if recursively then descendants t else [])

mutual
/-- specification: every process of the tree, root first (pre-order) -/
def allPids : Tree → List Nat
  | .node p cs => p :: allPidsList cs
def allPidsList : List Tree → List Nat
  | [] => []
  | c :: cs => allPids c ++ allPidsList cs
end

/-- the strict descendants: everything but the root -/
def strictDescendants : Tree → List Nat
  | .node _ cs => allPidsList cs

/-! ## process groups and sessions

A descendant may leave the process group / session it was born into (`setsid`,
`setpgid`, `start_new_session=True`, coreutils `timeout`). Parent links are not
affected by that, group membership is. -/

/-- a process tree in which a node may be the leader of a process group of its own — or, read more generally, may have left the scope a scoped query selects by default (own session, own controlling terminal, another user id) -/
inductive GTree where
  | node (pid : Nat) (leader : Bool) (children : List GTree)
deriving Repr

mutual
/-- forget the groups: the tree that `pgrep -P` walks -/
def GTree.forget : GTree → Tree
  | .node p _ cs => .node p (forgetList cs)
def forgetList : List GTree → List Tree
  | [] => []
  | c :: cs => c.forget :: forgetList cs
end

mutual
/-- the members of the group a node was born into, found below it: descend, but not into
subtrees whose root leads a group of its own (what `pgrep -g <root>` would list for a root
that leads its group, minus the root) -/
def groupBelow : GTree → List Nat
  | .node _ _ cs => groupBelowList cs
def groupBelowList : List GTree → List Nat
  | [] => []
  | .node _ true _ :: cs => groupBelowList cs
  | .node p false cs' :: cs => p :: (groupBelowList cs' ++ groupBelowList cs)
end

/-- a kill list built from one process-group query instead of the parent links -/
def killListByGroup (t : GTree) : List Nat :=
  match t with
  | .node p _ _ => p :: groupBelow t

/-! ## the kill channel with denoise (`uses_sudo`) -/

mutual
/-- the process with pid `p` and everything below it, as the privileged helper finds it again -/
def findSub (p : Nat) : Tree → Option Tree
  | .node q cs => if q = p then some (.node q cs) else findSubList p cs
def findSubList (p : Nat) : List Tree → Option Tree
  | [] => none
  | c :: cs =>
      match findSub p c with
      | some t => some t
      | none => findSubList p cs
end

/-- `deliver_kill_signal(pid)` (denoise_client.py:166-174): one call of
`sudo -n <denoise> --json kill <pid>` per entry of the kill list; the argument vector
after `sudo -n <denoise>` -/
def sudoCalls (t : Tree) (killTree : Bool) : List (List String) :=
  (killList t killTree).map (fun p => ["--json", "kill", toString p])

/-- the privileged side, `denoise.py kill pid` → `kill_process(pid, True, None, None)`:
SIGKILL for that process and all its descendants (nothing if it is gone) -/
def privilegedKill (t : Tree) (p : Nat) : List Nat :=
  match findSub p t with
  | some st => killList st true
  | none => []

/-- every SIGKILL sent on behalf of one `kill_process` call with the sudo channel, in order -/
def sudoKilled (t : Tree) (killTree : Bool) : List Nat :=
  (killList t killTree).flatMap (privilegedKill t)

/-! ## the decision of `subprocess_with_timeout.run` -/

/-- how `_join_with_keep_alive` ended -/
inductive JoinEnd where
  | finished    -- the worker thread ended (child exited, output read) before any limit
  | deadline    -- the time limit passed and the worker is still running
  | interrupt   -- KeyboardInterrupt (Ctrl-C, or SIGTERM through the handler) arrived while run() waited for
                -- the worker: in `thread.start()` or in the join
deriving DecidableEq, Repr

structure Situation where
  timeout       : Int       -- `max_invocation_time`; -1 disables the limit
  joinEnd       : JoinEnd
  aliveReported : Bool      -- `thread.is_alive()` as the interpreter reports it after the join
  childRunning  : Bool      -- the truth: the worker was launched and has stored no result yet
                            -- (`ident is not None and returncode is None and exception is None`): its child runs or is about to
  workerRaised  : Bool      -- the worker thread stored an exception (e.g. OSError from Popen)
deriving DecidableEq, Repr

inductive Result where
  | returned      -- `(returncode, stdout, stderr)` of the finished child
  | timedOut      -- `(E_TIMEOUT, stdout so far, stderr so far)`
  | interrupted   -- KeyboardInterrupt re-raised
  | raised        -- the worker's exception re-raised
deriving DecidableEq, Repr

/-- "is the child still to be killed?" — **as repaired**: after an interrupt the
question is answered from the worker's own result fields (`returncode is None
and exception is None`), because `is_alive()` is not reliable after an
interrupted `join` (CPython 3.12); otherwise `is_alive()` -/
def stillRunning (s : Situation) : Bool :=
  if s.joinEnd = .interrupt then s.childRunning else s.aliveReported

/-- the pinned tree asks `thread.is_alive()` in both cases -/
def stillRunningPinned (s : Situation) : Bool := s.aliveReported

def wasInterrupted (s : Situation) : Bool := decide (s.joinEnd = .interrupt)

/-- `if (timeout != -1 or was_interrupted) and <still running>:` -/
def killsWith (still : Situation → Bool) (s : Situation) : Bool :=
  (decide (s.timeout ≠ -1) || wasInterrupted s) && still s

def kills := killsWith stillRunning
def killsPinned := killsWith stillRunningPinned

/-- what `run` returns or raises (subprocess_with_timeout.py:140-157) -/
def resultWith (still : Situation → Bool) (s : Situation) : Result :=
  if killsWith still s then (if wasInterrupted s then .interrupted else .timedOut)
  else if wasInterrupted s then .interrupted
  else if !s.aliveReported && s.workerRaised then .raised
  else .returned

def result := resultWith stillRunning
def resultPinned := resultWith stillRunningPinned

/-- observable effects of `run` after the join, in order -/
inductive Ev where
  | kill (pid : Nat)    -- `_kill(proc_id, …)`: SIGKILL, or the denoise helper with sudo
  | joinWorker          -- `thread.join()` inside `kill_process`
  | raiseInterrupt      -- `raise KeyboardInterrupt()`
  | raiseWorkerExc
  | ret (timedOut : Bool)
deriving DecidableEq, Repr

def endEv : Result → Ev
  | .returned => .ret false
  | .timedOut => .ret true
  | .interrupted => .raiseInterrupt
  | .raised => .raiseWorkerExc

/-- the whole tail of `run`: kill list (if any), join, then return / raise -/
def runTraceWith (still : Situation → Bool) (s : Situation) (t : Tree) (killTree : Bool) : List Ev :=
  (if killsWith still s then (killList t killTree).map .kill ++ [.joinWorker] else [])
    ++ [endEv (resultWith still s)]

def runTrace := runTraceWith stillRunning
def runTracePinned := runTraceWith stillRunningPinned

/-- has the worker already published the child's pid when the interrupt arrives? `Popen` can be
slow to return. `run` does not ask: a launched worker without a result has a child or is about to
have one, and `get_pid()` waits for the pid — so the decision **as repaired** ignores it -/
def killsAtPid (_pidKnown : Bool) (s : Situation) : Bool := kills s

/-- a decision that requires the pid to be known already misses the signal at a process start -/
def killsOnlyIfPidKnown (pidKnown : Bool) (s : Situation) : Bool :=
  kills s && (!(wasInterrupted s) || pidKnown)

/-- where an interrupt reaches `run`: while it is still inside `thread.start()`, or in the join -/
inductive InterruptAt where
  | start
  | join
deriving DecidableEq, Repr

/-- **as repaired**: `thread.start()` is inside the `try`, so the place makes no difference -/
def runTraceAt (_at : InterruptAt) (s : Situation) (t : Tree) (killTree : Bool) : List Ev :=
  runTrace s t killTree

/-- before that repair `thread.start()` stood before the `try`: a KeyboardInterrupt raised
there left `run` at once, nothing was killed -/
def runTraceStartOutside (at_ : InterruptAt) (s : Situation) (t : Tree) (killTree : Bool) : List Ev :=
  match at_ with
  | .start => [.raiseInterrupt]
  | .join => runTrace s t killTree

/-- `_join_with_keep_alive`: the time-outs handed to `thread.join`, for a worker
that never finishes: one join for limits below 10 minutes, otherwise slices of at
most 600 s (a keep-alive message between slices) -/
def joinSlices : Nat → Nat → List Nat
  | 0, _ => []
  | fuel + 1, remaining =>
      if remaining = 0 then []
      else if 600 < remaining then 600 :: joinSlices fuel (remaining - 600)
      else [remaining]

def joinPlan (timeout : Nat) : List Nat :=
  if timeout < 600 then [timeout] else joinSlices (timeout / 600 + 1) timeout

/-! ## the executor's classification of the return code (executor.py:563-603) -/

def E_TIMEOUT : Int := -9

inductive Class where
  | failImmediately   -- 127: command not found
  | failed            -- counted as a failed execution; the output is not parsed
  | evaluated         -- the output is handed to the gauge adapter
deriving DecidableEq, Repr

def classify (rc : Int) (includeFaulty ignoreTimeouts : Bool) : Class :=
  if rc = 127 then .failImmediately
  else if rc ≠ 0 ∧ !includeFaulty ∧ !(decide (rc = E_TIMEOUT) && ignoreTimeouts) then .failed
  else .evaluated

structure Invocation where
  successful : Bool    -- `indicate_successful_execution` vs `indicate_failed_execution`
  recorded   : Nat     -- data points handed to the run
  continues  : Bool    -- `execute_run` returns to the scheduler (no exception)
deriving DecidableEq, Repr

/-- `parsed`: the data points the adapter finds in the (partial) output; none = the
adapter raises `ExecutionDeliveredNoResults` -/
def invocation (rc : Int) (includeFaulty ignoreTimeouts : Bool) (parsed : Option Nat) : Invocation :=
  match classify rc includeFaulty ignoreTimeouts with
  | .failImmediately => ⟨false, 0, true⟩
  | .failed => ⟨false, 0, true⟩
  | .evaluated =>
      match parsed with
      | some n => ⟨true, n, true⟩
      | none => ⟨false, 0, true⟩

end RB.Kill
