/-
C17 — model of the ReBenchDB persistence back end.

Mirrors
  * `rebench/rebenchdb.py:122-150`   `_send_with_retries`            → `sendLoop`, `sendWithRetries`
  * `rebench/persistence.py:476-506` `_ReBenchDB` cache, `send_data`,
                                     `_send_data_and_empty_cache`, `close` → `State`, `step`
  * `rebench/persistence.py:508-546` `convert_data_to_api_format` / `_20_format`
  * `rebench/model/data_point.py:63-128` `measurements_as_dict`, `add_measurements_api_v20`
                                     → `encodeV1`, `encodeV2` and the decoders

An HTTP request is "acknowledged, or it fails with a status class"; what the
server does with an acknowledged request is not modelled.  Measurement values
are exact rationals (every double is one); the encoders never compute with them.
-/
namespace RB.DB

/-! ## one request: `_send_with_retries` -/

/-- what one call of `_send_payload` (urlopen) does -/
inductive Attempt where
  | ok        -- response read
  | refused   -- URLError / connection refused / HTTPException: an IOError without `.status`
  | server    -- HTTPError with status 5xx (or any status outside 400..499)
  | client    -- HTTPError with 400 <= status < 500
  | typeErr   -- TypeError ("can't handle this, just abort")
  | dropped   -- the request was received, but no complete answer came back: connection reset, time-out
              -- or broken pipe while the response is read (a bare OSError out of `getresponse()`, not
              -- wrapped in URLError), RemoteDisconnected / IncompleteRead (HTTPException)
deriving DecidableEq, Repr

structure SendResult where
  success : Bool
  used    : Nat        -- number of `_send_payload` calls
  waits   : List Nat   -- the `sleep(wait_sec)` calls, in order
deriving DecidableEq, Repr

/-- `not is_client_error` for the two exception classes that are caught by the retry branch -/
def retryable : Attempt → Bool
  | .refused => true
  | .server  => true
  | .dropped => true
  | _        => false

/-- the `while True` loop with `attempts` retries left and the current `wait_sec`.
The script says what the successive `_send_payload` calls do; a script that is
too short continues with `refused` (the server stays away). -/
def sendLoop : Nat → Nat → List Attempt → SendResult
  | 0, _, script =>
      ⟨script.headD .refused == .ok, 1, []⟩
  | r + 1, wait, script =>
      let a := script.headD .refused
      if a = .ok then ⟨true, 1, []⟩
      else if retryable a then
        let res := sendLoop r (wait * 2) script.tail
        ⟨res.success, res.used + 1, wait :: res.waits⟩
      else ⟨false, 1, []⟩

/-- `attempts = 4; wait_sec = 10` -/
def sendWithRetries (script : List Attempt) : SendResult := sendLoop 4 10 script

/-! ## data points and the cache -/

/-- `(m.criterion, m.unit)`: the key of the `criteria` dict -/
abbrev Crit := String × String

structure Meas where
  crit  : Crit
  value : Rat
deriving DecidableEq, Repr

/-- a data point: invocation, iteration (shared by all its measurements, asserted
by both converters) and its measurements in order -/
structure DP where
  inv : Nat
  it  : Nat
  ms  : List Meas
deriving DecidableEq, Repr

/-- a run is identified by a key chosen by the harness (RunId identity is C07's business) -/
abbrev Run := Nat

/-- `self._cache`: a dict `run_id -> [data points]` in insertion order -/
abbrev Cache := List (Run × List DP)

/-- `persist_data_point` (persistence.py:476-480) -/
def cacheAdd : Cache → Run → DP → Cache
  | [], r, d => [(r, [d])]
  | (r', ds) :: rest, r, d =>
      if r' = r then (r', ds ++ [d]) :: rest else (r', ds) :: cacheAdd rest r d

/-- all (run, data point) occurrences a cache holds -/
def items (c : Cache) : List (Run × DP) := c.flatMap (fun p => p.2.map (fun d => (p.1, d)))

/-! ## payload conversion, API v1 (`measurements_as_dict`) -/

/-- the `criteria` dict: insertion ordered, the index of a key is its position -/
abbrev CritTab := List Crit

def findIdx (c : Crit) : CritTab → Option Nat
  | [] => none
  | x :: xs => if x = c then some 0 else (findIdx c xs).map (· + 1)

/-- `if criterion not in criteria: criteria[criterion] = len(criteria)`; `criteria[criterion]` -/
def critIdx (t : CritTab) (c : Crit) : CritTab × Nat :=
  match findIdx c t with
  | some i => (t, i)
  | none => (t ++ [c], t.length)

/-- `{'in': …, 'it': …, 'm': [{'v': value, 'c': index}, …]}` -/
structure E1 where
  inv : Nat
  it  : Nat
  m   : List (Rat × Nat)
deriving DecidableEq, Repr

def encMs1 (t : CritTab) : List Meas → CritTab × List (Rat × Nat)
  | [] => (t, [])
  | m :: ms =>
      let r := critIdx t m.crit
      let r2 := encMs1 r.1 ms
      (r2.1, (m.value, r.2) :: r2.2)

def encDPs1 (t : CritTab) : List DP → CritTab × List E1
  | [] => (t, [])
  | d :: ds =>
      let r := encMs1 t d.ms
      let r2 := encDPs1 r.1 ds
      (r2.1, ⟨d.inv, d.it, r.2⟩ :: r2.2)

def encRuns1 (t : CritTab) : Cache → CritTab × List (Run × List E1)
  | [] => (t, [])
  | (r, ds) :: rest =>
      let e := encDPs1 t ds
      let e2 := encRuns1 e.1 rest
      (e2.1, (r, e.2) :: e2.2)

structure P1 where
  data     : List (Run × List E1)
  criteria : CritTab           -- entry i is `{"c": …, "u": …, "i": i}`
deriving DecidableEq, Repr

/-- `convert_data_to_api_format` (persistence.py:508-527) -/
def encodeV1 (c : Cache) : P1 :=
  let r := encRuns1 [] c
  ⟨r.2, r.1⟩

/-- reading a v1 payload back: look every index up in the criteria list -/
def decMs1 (t : CritTab) : List (Rat × Nat) → Option (List Meas)
  | [] => some []
  | (v, i) :: rest =>
      match t[i]?, decMs1 t rest with
      | some c, some ms => some (⟨c, v⟩ :: ms)
      | _, _ => none

def decDPs1 (t : CritTab) : List E1 → Option (List DP)
  | [] => some []
  | e :: es =>
      match decMs1 t e.m, decDPs1 t es with
      | some ms, some ds => some (⟨e.inv, e.it, ms⟩ :: ds)
      | _, _ => none

def decRuns1 (t : CritTab) : List (Run × List E1) → Option Cache
  | [] => some []
  | (r, es) :: rest =>
      match decDPs1 t es, decRuns1 t rest with
      | some ds, some c => some ((r, ds) :: c)
      | _, _ => none

def decodeV1 (p : P1) : Option Cache := decRuns1 p.criteria p.data

/-! ## payload conversion, API v2 (`add_measurements_api_v20`) -/

/-- `{"in": n, "m": [[v | null, …] per criterion index]}`; position `p` of a
column is iteration `p + 1` -/
structure Entry where
  inv  : Nat
  cols : List (List (Option Rat))
deriving DecidableEq, Repr

/-- `while len(ms[c_idx]) + 1 < iteration: ms[c_idx].append(None)` then `append(value)` -/
def putVal (col : List (Option Rat)) (it : Nat) (v : Rat) : List (Option Rat) :=
  col ++ List.replicate (it - 1 - col.length) none ++ [some v]

/-- one measurement (data_point.py:111-121).  `ms[c_idx]` with an index that is
still out of range after the single `append([])` is an IndexError in Python; the
model's `modify` leaves the columns unchanged there (unreachable for data points
in (invocation, iteration) order, see `c17_decode_encode_v2`). -/
def addMeas (it : Nat) (st : CritTab × List (List (Option Rat))) (m : Meas) :
    CritTab × List (List (Option Rat)) :=
  let r := critIdx st.1 m.crit
  let cols1 := if st.2.length ≤ r.2 then st.2 ++ [[]] else st.2
  (r.1, cols1.modify r.2 (fun col => putVal col it m.value))

def entryIdx (inv : Nat) : List Entry → Option Nat
  | [] => none
  | e :: es => if e.inv = inv then some 0 else (entryIdx inv es).map (· + 1)

/-- one data point (data_point.py:86-128): nothing at all happens for a data
point without measurements; otherwise the entry of its invocation is found (first
match) or appended with one empty column per criterion known so far. -/
def addDP (st : CritTab × List Entry) (d : DP) : CritTab × List Entry :=
  match d.ms with
  | [] => st
  | _ :: _ =>
      let es1k : List Entry × Nat :=
        match entryIdx d.inv st.2 with
        | some k => (st.2, k)
        | none => (st.2 ++ [⟨d.inv, List.replicate st.1.length []⟩], st.2.length)
      let cols := (es1k.1[es1k.2]?.map (·.cols)).getD []
      let r := d.ms.foldl (addMeas d.it) (st.1, cols)
      (r.1, es1k.1.modify es1k.2 (fun e => { e with cols := r.2 }))

def encRuns2 (t : CritTab) : Cache → CritTab × List (Run × List Entry)
  | [] => (t, [])
  | (r, ds) :: rest =>
      let e := ds.foldl addDP (t, [])
      let e2 := encRuns2 e.1 rest
      (e2.1, (r, e.2) :: e2.2)

structure P2 where
  data     : List (Run × List Entry)
  criteria : CritTab
deriving DecidableEq, Repr

/-- `convert_data_to_api_20_format` (persistence.py:529-546) -/
def encodeV2 (c : Cache) : P2 :=
  let r := encRuns2 [] c
  ⟨r.2, r.1⟩

/-- reading a v2 payload: the value recorded for (run, invocation, iteration, criterion) -/
def lookupEntries (t : CritTab) (es : List Entry) (inv it : Nat) (c : Crit) : Option Rat :=
  match it, findIdx c t, entryIdx inv es with
  | p + 1, some ci, some k =>
      (((es[k]?.bind (·.cols[ci]?)).bind (·[p]?)).join)
  | _, _, _ => none

def findRun {β : Type} (r : Run) : List (Run × β) → Option β
  | [] => none
  | (r', b) :: rest => if r' = r then some b else findRun r rest

def lookupV2 (p : P2) (r : Run) (inv it : Nat) (c : Crit) : Option Rat :=
  (findRun r p.data).bind (fun es => lookupEntries p.criteria es inv it c)

/-- the same question asked of the cache itself: first data point with that
invocation and iteration, first measurement with that criterion -/
def findMeas (c : Crit) : List Meas → Option Rat
  | [] => none
  | m :: ms => if m.crit = c then some m.value else findMeas c ms

def lookupDPs (ds : List DP) (inv it : Nat) (c : Crit) : Option Rat :=
  match ds with
  | [] => none
  | d :: rest =>
      if d.inv = inv ∧ d.it = it then findMeas c d.ms else lookupDPs rest inv it c

def lookupCache (ch : Cache) (r : Run) (inv it : Nat) (c : Crit) : Option Rat :=
  (findRun r ch).bind (fun ds => lookupDPs ds inv it c)

/-- all measurements a v2 payload contains, flattened: (run, inv, it, criterion index, value) -/
def flatCol (r : Run) (inv ci : Nat) : Nat → List (Option Rat) → List (Run × Nat × Nat × Nat × Rat)
  | _, [] => []
  | p, none :: rest => flatCol r inv ci (p + 1) rest
  | p, some v :: rest => (r, inv, p + 1, ci, v) :: flatCol r inv ci (p + 1) rest

def flatCols (r : Run) (inv : Nat) : Nat → List (List (Option Rat)) → List (Run × Nat × Nat × Nat × Rat)
  | _, [] => []
  | ci, col :: rest => flatCol r inv ci 0 col ++ flatCols r inv (ci + 1) rest

def flatV2 (p : P2) : List (Run × Nat × Nat × Nat × Rat) :=
  p.data.flatMap (fun re => re.2.flatMap (fun e => flatCols re.1 e.inv 0 e.cols))


/-! ## the shape of data the adapters produce (C12) -/

/-- strictly increasing (invocation, iteration) -/
def dpLt (a b : DP) : Prop := a.inv < b.inv ∨ (a.inv = b.inv ∧ a.it < b.it)

instance (a b : DP) : Decidable (dpLt a b) := by unfold dpLt; infer_instance

/-- the data points of one run: in (invocation, iteration) order, iterations
numbered from 1, no criterion named twice in one data point -/
def dpsShaped (ds : List DP) : Prop :=
  ds.Pairwise dpLt ∧ ∀ d ∈ ds, 1 ≤ d.it ∧ (d.ms.map (·.crit)).Nodup

instance (ds : List DP) : Decidable (dpsShaped ds) := by unfold dpsShaped; infer_instance

def wellShaped (c : Cache) : Prop := ∀ p ∈ c, dpsShaped p.2

instance (c : Cache) : Decidable (wellShaped c) := by unfold wellShaped; infer_instance

/-- is there a data point with that invocation and iteration? -/
def hasKey (ds : List DP) (inv it : Nat) : Bool := ds.any (fun d => d.inv = inv ∧ d.it = it)

/-! ## the session: cache, clock, transmission points -/

/-- what every payload carries besides the data (persistence.py:556-561) -/
structure Meta where
  startTime : String   -- `# Execution Start:` of the data file's first block
  env       : String   -- `determine_environment()`
  source    : String   -- `determine_source_details(configurator)`
deriving DecidableEq, Repr

structure Payload where
  info  : Meta
  v2    : Bool
  cache : Cache        -- the data points covered; `encodeV1` / `encodeV2` give the wire form
deriving DecidableEq, Repr

/-- one request (one payload, sent with retries) and how it ended -/
structure Req where
  payload : Payload
  result  : SendResult
deriving DecidableEq, Repr

structure State where
  info     : Meta
  v2       : Bool
  cache    : Cache
  lastSend : Nat        -- `_last_send`, in seconds
  reqs     : List Req   -- trace of requests, oldest first
deriving DecidableEq, Repr

def init (m : Meta) (v2 : Bool) (t0 : Nat) : State :=
  { info := m, v2 := v2, cache := [], lastSend := t0, reqs := [] }

/-- several `persist_data_point` calls in a row -/
def addAll (c : Cache) (xs : List (Run × DP)) : Cache := xs.foldl (fun c x => cacheAdd c x.1 x.2) c

/-- after a failed request: the data points that were not sent go back in front of those
recorded meanwhile (`for run_id, dps in self._cache.items(): cache.setdefault(run_id, []).extend(dps)`) -/
def mergeBack (unsent newer : Cache) : Cache := addAll unsent (items newer)

/-- `_send_data_and_empty_cache` **as repaired (twice)**. `during` are the data points
that other worker threads hand over while the request is in flight (between "payload
built" and "cache emptied"; the parallel scheduler). The cache is swapped out under the
lock, the request is made from the private copy, and on failure the copy is merged back:
    with self._lock: cache = self._cache; self._cache = {}
    success, _ = self._send_data(cache)
    if not success: with self._lock: <merge back> -/
def sendAndEmpty (s : State) (script : List Attempt) (during : List (Run × DP)) : State :=
  match s.cache with
  | [] => { s with cache := addAll [] during }
  | _ :: _ =>
      let res := sendWithRetries script
      { s with reqs := s.reqs ++ [⟨⟨s.info, s.v2, s.cache⟩, res⟩],
               cache := if res.success then addAll [] during else mergeBack s.cache (addAll [] during) }

/-- the tree after the first repair only (`success, _ = …; if success: self._cache = {}`,
no lock in `send_data`): the payload is built from the shared dict, other threads keep
appending to it, and a successful request replaces it by `{}` -/
def sendAndEmptyUnlocked (s : State) (script : List Attempt) (during : List (Run × DP)) : State :=
  match s.cache with
  | [] => { s with cache := addAll [] during }
  | _ :: _ =>
      let res := sendWithRetries script
      { s with reqs := s.reqs ++ [⟨⟨s.info, s.v2, s.cache⟩, res⟩],
               cache := if res.success then [] else addAll s.cache during }

/-- the pinned tree: `if self._send_data(self._cache):` tests the pair
`(success, response)`, which is always truthy -/
def sendAndEmptyPinned (s : State) (script : List Attempt) (during : List (Run × DP)) : State :=
  match s.cache with
  | [] => { s with cache := addAll [] during }
  | _ :: _ =>
      let res := sendWithRetries script
      { s with reqs := s.reqs ++ [⟨⟨s.info, s.v2, s.cache⟩, res⟩], cache := [] }

def sumWaits (r : SendResult) : Nat := r.waits.foldl (· + ·) 0

inductive Event where
  /-- `persist_data_point` / `loaded_data_point` -/
  | persist (r : Run) (d : DP)
  /-- `send_data()` at clock `now` (from `run_completed` and after `load_data`): only if
  30 s have passed since `_last_send`; `during`: data points other threads hand over
  while this call is under way -/
  | sendData (now : Nat) (script : List Attempt) (during : List (Run × DP))
  /-- `close()`: unconditional -/
  | close (script : List Attempt) (during : List (Run × DP))
deriving Repr

/-- seconds slept inside the request that `sendAndEmpty` makes (none if the cache is empty) -/
def sleptIn (s : State) (script : List Attempt) : Nat :=
  match s.cache with
  | [] => 0
  | _ :: _ => sumWaits (sendWithRetries script)

def stepWith (send : State → List Attempt → List (Run × DP) → State) (s : State) : Event → State
  | .persist r d => { s with cache := cacheAdd s.cache r d }
  | .sendData now script during =>
      if now - s.lastSend ≥ 30 ∧ s.lastSend ≤ now then
        let s' := send s script during
        { s' with lastSend := now + sleptIn s script }
      else { s with cache := addAll s.cache during }
  | .close script during => send s script during

def step := stepWith sendAndEmpty
def stepUnlocked := stepWith sendAndEmptyUnlocked
def stepPinned := stepWith sendAndEmptyPinned

def run (s : State) (es : List Event) : State := es.foldl step s
def runUnlocked (s : State) (es : List Event) : State := es.foldl stepUnlocked s
def runPinned (s : State) (es : List Event) : State := es.foldl stepPinned s

/-- every data point handed to the back end, in order -/
def persisted : List Event → List (Run × DP)
  | [] => []
  | .persist r d :: es => (r, d) :: persisted es
  | .sendData _ _ during :: es => during ++ persisted es
  | .close _ during :: es => during ++ persisted es

/-- the data points contained in acknowledged requests -/
def ackedItems (s : State) : List (Run × DP) :=
  s.reqs.flatMap (fun q => if q.result.success then items q.payload.cache else [])

end RB.DB
