/-
C03 — model of how ReBench composes the command line, working directory and
environment of a benchmark process, and of the execution plan (`-p`).

Mirrors (file:lines of the ReBench tree):
* `rebench/model/run_id.py:38-57`   `expand_user`
* `rebench/model/run_id.py:130-137` `RunId.env`
* `rebench/model/run_id.py:166-170` `RunId.location`
* `rebench/model/run_id.py:303-362` `_expand_vars`, `cmdline`,
  `cmdline_for_next_invocation`, `_construct_cmdline`
* `rebench/model/executor.py:34-37`, `rebench/model/benchmark_suite.py:36-38`
  (`os.path.abspath` of path / location unless it starts with `~`)
* `rebench/executor.py:474-485` (plan), `:528-553` (`_generate_data_point`),
  `rebench/subprocess_with_timeout.py:61-72` (`Popen(shell=True, env=…, cwd=…)`)
* CPython: `str % dict` for the documented template language, `str.strip`,
  `shlex.split/quote/join`, `posixpath.expanduser/join/normpath/abspath`.

Strings are `List Char`.  The model is restricted to the property's
"shell-safe alphabet": no quotes, no backslash, no whitespace other than the
ASCII space, no shell metacharacters.  Outside the documented template
language (`%(name)s`, `%%`) every use of `%` is an error in the model; Python
agrees for the characters the generators produce (see `harness/corr/c03.py`).
-/
namespace RB.Cmdline

abbrev Str := List Char

/-! ## 1. The `%`-template language (`str % dict`) -/

inductive Tok where
  | lit (c : Char)      -- a literal character, never `%`
  | pct                 -- written `%%`
  | ph (name : Str)     -- written `%(name)s`
deriving DecidableEq, Repr

/-- scanner state of CPython's `PyUnicode_Format` restricted to the language -/
inductive St where
  | text
  | pct                 -- just read `%`
  | key (acc : Str)     -- inside `%( … `, reversed accumulator
  | close (name : Str)  -- read `%(name)`, conversion character expected

def scan : St → Str → Option (List Tok)
  | .text, [] => some []
  | .text, c :: cs =>
      if c = '%' then scan .pct cs else (scan .text cs).map (Tok.lit c :: ·)
  | .pct, [] => none                       -- ValueError: incomplete format
  | .pct, c :: cs =>
      if c = '%' then (scan .text cs).map (Tok.pct :: ·)
      else if c = '(' then scan (.key []) cs
      else none                            -- ValueError / TypeError
  | .key _, [] => none                     -- ValueError: incomplete format key
  | .key acc, c :: cs =>
      if c = ')' then scan (.close acc.reverse) cs else scan (.key (c :: acc)) cs
  | .close _, [] => none                   -- ValueError: incomplete format
  | .close n, c :: cs =>
      if c = 's' then (scan .text cs).map (Tok.ph n :: ·) else none

def parse (s : Str) : Option (List Tok) := scan .text s

/-- the written form of a token list -/
def unparseTok : Tok → Str
  | .lit c => [c]
  | .pct => ['%', '%']
  | .ph n => '%' :: '(' :: n ++ [')', 's']

def unparse (ts : List Tok) : Str := ts.flatMap unparseTok

abbrev Env := List (Str × Str)

def lookup : Env → Str → Option Str
  | [], _ => none
  | (k, v) :: rest, n => if k = n then some v else lookup rest n

/-- what the property says a template means: literal text stays, `%%` is `%`,
every placeholder is replaced by its value; an unknown name is an error
(`KeyError` → `UIError`). -/
def render (env : Env) : List Tok → Option Str
  | [] => some []
  | .lit c :: ts => (render env ts).map (c :: ·)
  | .pct :: ts => (render env ts).map ('%' :: ·)
  | .ph n :: ts =>
      match lookup env n with
      | none => none
      | some v => (render env ts).map (v ++ ·)

/-- `s % env` -/
def fmt (env : Env) (s : Str) : Option Str := (parse s).bind (render env)

/-! ## 2. Values of a run -/

inductive Val where
  | none
  | int (i : Int)
  | str (s : Str)
deriving DecidableEq, Repr

def decimal (n : Nat) : Str := Nat.toDigits 10 n

def intStr : Int → Str
  | .ofNat n => decimal n
  | .negSucc n => '-' :: decimal (n + 1)

/-- `cores_as_str`, `input_size_as_str`, `var_value_as_str`, `tag_as_str` -/
def Val.asStr : Val → Str
  | .none => []
  | .int i => intStr i
  | .str s => s

/-- `'%s' % v` for a raw value (iterations, warmup): `None` renders as the text `None` -/
def Val.pyStr : Val → Str
  | .none => ['N', 'o', 'n', 'e']
  | .int i => intStr i
  | .str s => s

/-! ### gauge adapters that change the command (`GaugeAdapter.acquire_command`) -/

/-- what `acquire_command` does with `cmdline_for_next_invocation()`:
* `plain` — the default (`interop/adapter.py:42-43`; RebenchLog, TimeManual, JMH, …, and
  custom adapters that inherit it),
* `time formatted bin` — `TimeAdapter._create_command` (`interop/time_adapter.py:49-56`)
  after `_check_which_time_command_is_available` decided,
* `perf command recordArgs reportArgs` — `PerfAdapter.acquire_command`
  (`interop/perf_adapter.py:20-23`) with `PerfProfiler.command` / `.record_args` /
  `.report_args` (`model/profiler.py:43-51`); after a successful recording `parse_data` starts
  the report step (`model/profiler.py:88-97`). -/
inductive Adapter where
  | plain
  | time (formatted : Bool) (bin : Str)
  | perf (command recordArgs reportArgs : Str)
deriving DecidableEq, Repr

/-- the raw configuration of one run as far as C03 is concerned -/
structure Run where
  benchCommand : Str          -- `benchmark.command`
  cores : Val
  input : Val
  varValue : Val
  tag : Val
  executorName : Str
  suiteName : Str
  iterations : Val
  warmup : Val
  pathRaw : Option Str        -- executor `path:` as written
  executable : Str
  args : Option Str
  command : Str               -- suite `command:`
  extraArgs : Option Str
  hasLocation : Bool          -- suite has a `location:` key
  locationRaw : Option Str
  env : Env                   -- effective `env:` map (C02 decides which level wins)
  invocations : Nat
  adapter : Adapter := .plain  -- the run's gauge adapter as far as `acquire_command` goes
deriving Repr

/-- `"%(invocation)s"` -/
def invPlaceholder : Str := ['%', '(', 'i', 'n', 'v', 'o', 'c', 'a', 't', 'i', 'o', 'n', ')', 's']

def kBenchmark : Str := ['b', 'e', 'n', 'c', 'h', 'm', 'a', 'r', 'k']
def kCores : Str := ['c', 'o', 'r', 'e', 's']
def kExecutor : Str := ['e', 'x', 'e', 'c', 'u', 't', 'o', 'r']
def kInput : Str := ['i', 'n', 'p', 'u', 't']
def kIterations : Str := ['i', 't', 'e', 'r', 'a', 't', 'i', 'o', 'n', 's']
def kInvocation : Str := ['i', 'n', 'v', 'o', 'c', 'a', 't', 'i', 'o', 'n']
def kSuite : Str := ['s', 'u', 'i', 't', 'e']
def kVariable : Str := ['v', 'a', 'r', 'i', 'a', 'b', 'l', 'e']
def kTag : Str := ['t', 'a', 'g']
def kWarmup : Str := ['w', 'a', 'r', 'm', 'u', 'p']

/-- the entries of the dictionary of `_expand_vars` before / after `invocation` -/
def envPre (r : Run) : Env :=
  [ (kBenchmark, r.benchCommand),
    (kCores, r.cores.asStr),
    (kExecutor, r.executorName),
    (kInput, r.input.asStr),
    (kIterations, r.iterations.pyStr) ]

def envPost (r : Run) : Env :=
  [ (kSuite, r.suiteName),
    (kVariable, r.varValue.asStr),
    (kTag, r.tag.asStr),
    (kWarmup, r.warmup.pyStr) ]

/-- the dictionary of `_expand_vars` with the given text for `invocation` -/
def envWith (r : Run) (inv : Str) : Env :=
  envPre r ++ (kInvocation, inv) :: envPost r

/-- phase one: the invocation number is left as a placeholder (`run_id.py:303-317`) -/
def env1 (r : Run) : Env := envWith r invPlaceholder
/-- phase two of the pinned tree: only `invocation` is known (`run_id.py:339`) -/
def env2 (k : Nat) : Env := [(kInvocation, decimal k)]
/-- all placeholders at once -/
def envAll (r : Run) (k : Nat) : Env := envWith r (decimal k)

/-! ## 3. Paths -/

def splitOn (sep : Char) : Str → List Str
  | [] => [[]]
  | c :: cs =>
    match splitOn sep cs with
    | [] => [[]]
    | w :: ws => if c = sep then [] :: w :: ws else (c :: w) :: ws

def joinWith (sep : Str) : List Str → Str
  | [] => []
  | [w] => w
  | w :: ws => w ++ sep ++ joinWith sep ws

def dotdot : Str := ['.', '.']

def normStep (initial : Nat) (acc : List Str) (c : Str) : List Str :=
  if c = [] ∨ c = ['.'] then acc
  else if c ≠ dotdot ∨ (initial = 0 ∧ acc = []) ∨ (acc.getLast? = some dotdot) then acc ++ [c]
  else acc.dropLast

/-- `posixpath.normpath` -/
def normpath (p : Str) : Str :=
  if p = [] then ['.'] else
  let nlead := (p.takeWhile (· = '/')).length
  let initial := if nlead = 0 then 0 else if nlead = 2 then 2 else 1
  let comps := (splitOn '/' p).foldl (normStep initial) []
  let r := List.replicate initial '/' ++ joinWith ['/'] comps
  if r = [] then ['.'] else r

/-- `posixpath.join cwd p` -/
def pjoin (cwd p : Str) : Str :=
  if p.head? = some '/' then p
  else if cwd = [] ∨ cwd.getLast? = some '/' then cwd ++ p
  else cwd ++ '/' :: p

/-- `os.path.abspath` with the process' working directory `cwd` -/
def abspath (cwd p : Str) : Str := normpath (pjoin cwd p)

/-- `if path and not path.startswith("~"): path = os.path.abspath(path)`
(`model/executor.py:35-37`, `model/benchmark_suite.py:36-38`) -/
def compilePath (cwd : Str) : Option Str → Option Str
  | none => none
  | some p => if p = [] then some [] else if p.head? = some '~' then some p else some (abspath cwd p)

/-- Python truthiness of an optional string -/
def truthy : Option Str → Option Str
  | some (c :: cs) => some (c :: cs)
  | _ => none

def Run.path (cwd : Str) (r : Run) : Option Str := compilePath cwd r.pathRaw

/-- `suite.get("location", executor.path)`, then made absolute -/
def Run.locationCfg (cwd : Str) (r : Run) : Option Str :=
  compilePath cwd (if r.hasLocation then r.locationRaw else r.path cwd)

/-! ## 4. `~` expansion, words, shlex -/

/-- what ReBench's own process sees: its environment, the password database -/
structure World where
  cwd : Str
  parent : Env               -- ReBench's own environment
  pwHome : Option Str        -- home of the current uid according to `pwd`
  users : Env                -- `pwd.getpwnam`
deriving Repr

def World.home (w : World) : Option Str :=
  match lookup w.parent ['H', 'O', 'M', 'E'] with
  | some h => some h
  | none => w.pwHome

def rstripSlash (s : Str) : Str := (s.reverse.dropWhile (· = '/')).reverse

/-- `posixpath.expanduser` -/
def expanduser (w : World) (p : Str) : Str :=
  match p with
  | '~' :: rest =>
    let name := rest.takeWhile (· ≠ '/')
    let tail := rest.dropWhile (· ≠ '/')
    let userhome := if name = [] then w.home else lookup w.users name
    match userhome with
    | none => p
    | some h =>
      let r := rstripSlash h ++ tail
      if r = [] then ['/'] else r
  | _ => p

/-- one word of `expand_user` (`run_id.py:43-50`) -/
def expandWord (w : World) (word : Str) : Str :=
  let e := expanduser w word
  if '~' ∈ e ∧ ':' ∈ e then joinWith [':'] ((splitOn ':' e).map (expanduser w)) else e

/-- `shlex.split` on the shell-safe alphabet: split at spaces, drop empty words -/
def words (s : Str) : List Str := (splitOn ' ' s).filter (· ≠ [])

def safeChar (c : Char) : Bool :=
  c.isAlphanum || c = '_' || c = '@' || c = '%' || c = '+' || c = '=' || c = ':' ||
  c = ',' || c = '.' || c = '/' || c = '-'

/-- `shlex.quote` -/
def quote (s : Str) : Str :=
  if s = [] then ['\'', '\'']
  else if s.all safeChar then s
  else '\'' :: s.flatMap (fun c => if c = '\'' then ['\'', '"', '\'', '"', '\''] else [c]) ++ ['\'']

/-- `expand_user(line, shell_escape)` -/
def expandUserLine (w : World) (escape : Bool) (s : Str) : Str :=
  let parts := words s
  let parts' := parts.map (expandWord w)
  if parts' = parts then s
  else if escape then joinWith [' '] (parts'.map quote)
  else joinWith [' '] parts'

/-- Python's `str.strip()` on the alphabet (only the ASCII space is whitespace) -/
def strip (s : Str) : Str :=
  ((s.dropWhile (· = ' ')).reverse.dropWhile (· = ' ')).reverse

/-! ## 5. Command line, launch record -/

/-- three endings (DESIGN section 4) -/
inductive Res (α : Type) where
  | ok (a : α)
  | uiError          -- `UIError`: exit 3 with a message
  | crash            -- an exception nobody catches
deriving Repr, DecidableEq

def Res.ofOption {α} : Option α → Res α
  | some a => .ok a
  | none => .uiError

/-- the unexpanded command line (`run_id.py:343-356`) -/
def template (cwd : Str) (r : Run) : Str :=
  (match truthy (r.path cwd) with | some p => p ++ ['/'] | none => []) ++
  r.executable ++
  (match truthy r.args with | some a => ' ' :: a | none => []) ++
  ' ' :: r.command ++
  (match truthy r.extraArgs with | some a => ' ' :: a | none => [])

/-- `RunId.cmdline()`: the identity string, `%(invocation)s` left in -/
def cmdline (cwd : Str) (r : Run) : Option Str :=
  (fmt (env1 r) (template cwd r)).map strip

/-- the pinned tree's second phase: `cmdline() % {"invocation": k}` (`run_id.py:339`);
`none` = `TypeError` / `ValueError` / `KeyError` escaping as a traceback -/
def twoPhase (cwd : Str) (r : Run) (k : Nat) : Option (Option Str) :=
  (cmdline cwd r).map (fun s => fmt (env2 k) s)

/-- all placeholders substituted at once -/
def direct (cwd : Str) (r : Run) (k : Nat) : Option Str :=
  (fmt (envAll r k) (template cwd r)).map strip

/-- the two-phase mechanism on an arbitrary template text (without the `strip`) -/
def twoPhaseFmt (r : Run) (k : Nat) (t : Str) : Option Str :=
  (fmt (env1 r) t).bind (fmt (env2 k))

/-- substitution of all placeholders at once on an arbitrary template text -/
def directFmt (r : Run) (k : Nat) (t : Str) : Option Str := fmt (envAll r k) t

/-- the text of invocation `k` before `~` expansion — the repaired tree
substitutes directly (`fix: … invocation number … in one step`) -/
def nextText (cwd : Str) (r : Run) (k : Nat) : Option Str := direct cwd r k

/-- `RunId.location` -/
def location (cwd : Str) (r : Run) : Option (Option Str) :=
  match truthy (r.locationCfg cwd) with
  | none => some none
  | some l => (fmt (env1 r) l).map some

/-- `RunId.env` -/
def runEnv (w : World) (r : Run) : Env :=
  r.env.map (fun kv => (kv.1, expandUserLine w false kv.2))

/-- `subprocess.Popen(env=…)`: `None` inherits, a mapping replaces -/
def popenEnv (parent : Env) : Option Env → Env
  | none => parent
  | some e => e

/-! ### `acquire_command` -/

def usrBinTime : Str := ['/', 'u', 's', 'r', '/', 'b', 'i', 'n', '/', 't', 'i', 'm', 'e']
def gtimeBin : Str := ['/', 'o', 'p', 't', '/', 'l', 'o', 'c', 'a', 'l', '/', 'b', 'i', 'n', '/', 'g', 't', 'i', 'm', 'e']

/-- `TimeAdapter.time_format`, with its double quotes and line feeds -/
def timeFormat : Str := ['"', 'm', 'a', 'x', ' ', 'r', 's', 's', ' ', '(', 'k', 'b', ')', ':', ' ', '%', 'M', '\n', 'w', 'a', 'l', 'l', '-', 't', 'i', 'm', 'e', ' ', '(', 's', 'e', 'c', 'o', 'u', 'n', 'd', 's', ')', ':', ' ', '%', 'e', '\n', '"']
/-- the same as the shell hands it to `time` (quotes removed) -/
def timeFormatArg : Str := ['m', 'a', 'x', ' ', 'r', 's', 's', ' ', '(', 'k', 'b', ')', ':', ' ', '%', 'M', '\n', 'w', 'a', 'l', 'l', '-', 't', 'i', 'm', 'e', ' ', '(', 's', 'e', 'c', 'o', 'u', 'n', 'd', 's', ')', ':', ' ', '%', 'e', '\n']

/-- `_check_which_time_command_is_available` (`time_adapter.py:65-87`): exit status of
`/usr/bin/time -f … /bin/sleep 0` and, only if that is 1 (also on `OSError`), of the same with
`/opt/local/bin/gtime`; `none` = `OSError`.  Returns (`_use_formatted_time`, `_time_bin`). -/
def timeDecision (rc1 rc2 : Option Int) : Bool × Str :=
  let r1 : Int := rc1.getD 1
  if r1 = 1 then
    match rc2 with
    | some r2 => (r2 = 0, if r2 = 0 then gtimeBin else usrBinTime)
    | none => (false, usrBinTime)
  else (r1 = 0, usrBinTime)

/-- the text `acquire_command` returns for the command text `cmd` -/
def acquire (a : Adapter) (cmd : Str) : Str :=
  match a with
  | .plain => cmd
  | .time false _ => usrBinTime ++ [' ', '-', 'p', ' '] ++ cmd
  | .time true bin => bin ++ [' ', '-', 'f', ' '] ++ timeFormat ++ [' '] ++ cmd
  | .perf c ra _ => c ++ [' '] ++ ra ++ [' '] ++ cmd

/-- the words the wrapper puts in front of the command's own words -/
def wrapperArgv (a : Adapter) : List Str :=
  match a with
  | .plain => []
  | .time false _ => [usrBinTime, ['-', 'p']]
  | .time true bin => [bin, ['-', 'f'], timeFormatArg]
  | .perf c ra _ => words (c ++ [' '] ++ ra)

structure Launch where
  text : Str               -- handed to `sh -c`
  argv : List Str          -- what the process receives (shell-safe alphabet)
  cwd : Option Str         -- `None`: ReBench's own working directory
  env : Env                -- the complete environment of the process
deriving Repr, DecidableEq

/-- start of the invocation after `completed` recorded ones
(`executor.py:528-553`, `acquire_command` of the run's adapter, `subprocess_with_timeout.py:66-68`) -/
def launch (w : World) (r : Run) (completed : Nat) : Res Launch :=
  match nextText w.cwd r (completed + 1), location w.cwd r with
  | some t, some loc =>
    .ok { text := acquire r.adapter (expandUserLine w true t),
          argv := wrapperArgv r.adapter ++ (words t).map (expandWord w),
          cwd := loc.map (expanduser w),
          env := popenEnv w.parent (some (runEnv w r)) }
  | _, _ => .uiError

/-! ## 6. Sessions: starts, plan -/

inductive Outcome where
  | ok          -- the invocation delivered data and is recorded
  | fail        -- the benchmark process failed: nothing recorded
  | failReport  -- profiling only: the recording succeeded, the report step did not
deriving DecidableEq, Repr

inductive Event where
  | start (run : Nat) (inv : Nat) (l : Launch)
  | report (run : Nat) (inv : Nat) (l : Launch)   -- the profiler's report step
  | append (run : Nat) (inv : Nat)
  | plan (run : Nat) (cd : Option Str) (cmd : Str)
  | uiError (run : Nat)
deriving Repr, DecidableEq

/-- the report step of a profile run (`PerfProfiler.process_profile` with `-D`): `command
report_args` through the shell, in the working directory and environment of the recording -/
def reportEvents (r : Run) (id inv : Nat) (l : Launch) : List Event :=
  match r.adapter with
  | .perf c _ rep =>
    let text := c ++ [' '] ++ rep
    [.report id inv { text := text, argv := words text, cwd := l.cwd, env := l.env }]
  | _ => []

/-- one run inside an executing session: every outcome is one benchmark process start
(plus the report step of a profile run); returns the events and the new number of
completed invocations -/
def runStarts (w : World) (r : Run) (id : Nat) : Nat → List Outcome → List Event × Nat
  | c, [] => ([], c)
  | c, o :: os =>
    match launch w r c with
    | .ok l =>
      match o with
      | .ok =>
        let (ev, c') := runStarts w r id (c + 1) os
        (.start id (c + 1) l :: (reportEvents r id (c + 1) l ++ .append id (c + 1) :: ev), c')
      | .fail =>
        let (ev, c') := runStarts w r id c os
        (.start id (c + 1) l :: ev, c')
      | .failReport =>
        let (ev, c') := runStarts w r id c os
        (.start id (c + 1) l :: (reportEvents r id (c + 1) l ++ ev), c')
    | _ => ([.uiError id], c)

/-- the plan entry of one run (`executor.py:474-485`) -/
def planRun (w : World) (r : Run) (id : Nat) (c : Nat) : List Event :=
  if c < r.invocations then
    match launch w r c, location w.cwd r with
    | .ok l, some loc => [.plan id (truthy loc) l.text]
    | _, _ => [.uiError id]
  else []

/-- a session over the runs in scheduling order; `outs` gives, per run, the
outcomes of the processes the session started for it -/
def session (w : World) (plan : Bool) :
    List Run → Nat → List Nat → List (List Outcome) → List Event × List Nat
  | [], _, _, _ => ([], [])
  | r :: rs, id, cs, outs =>
    let c := cs.headD 0
    let o := outs.headD []
    if plan then
      let (ev, cs') := session w plan rs (id + 1) cs.tail outs.tail
      (planRun w r id c ++ ev, c :: cs')
    else
      let (e1, c') := runStarts w r id c o
      let (ev, cs') := session w plan rs (id + 1) cs.tail outs.tail
      (e1 ++ ev, c' :: cs')

end RB.Cmdline
