/-
How the run-filter part of the C01 model (`RB.Runs`: `Sel`, `group`, `appliesToBench`, `appliesToTag`)
reads Python values (`RB.Py.V`): the abstraction used by the translation tie of C01's filters
(`RB.Proofs.GenC01`) and by its directed search (`drivers/C01gen.lean`).
-/
import RB.Util.PyVal
import RB.Model.Runs

namespace RB.Runs
open RB.Py

/-- a Python `str` as the model's `String` -/
def absStr : V → Option String
  | .str cs => some (String.ofList cs)
  | _ => none

/-- a tag (a YAML scalar of a `tags:` list, or `None` for "no tag") as the model's `Val` -/
def absTagVal : V → Option Val
  | .none => some .none
  | .int i => some (.int i)
  | .str cs => some (.str (String.ofList cs))
  | _ => none

/-- the text of a filter expression as given on the command line -/
inductive FilterSpec where
  | exec (name : List Char)                      -- e:NAME
  | suite (name : List Char)                     -- s:SUITE
  | bench (suite name : List Char)               -- s:SUITE:BENCH
  | tag (name : List Char)                       -- t:TAG
deriving Repr, DecidableEq

def FilterSpec.render : FilterSpec → List Char
  | .exec n => 'e' :: ':' :: n
  | .suite n => 's' :: ':' :: n
  | .bench s n => 's' :: ':' :: (s ++ ':' :: n)
  | .tag n => 't' :: ':' :: n

/-- the names contain no colon -/
def FilterSpec.WellFormed : FilterSpec → Prop
  | .exec n => ':' ∉ n
  | .suite n => ':' ∉ n
  | .bench s n => ':' ∉ s ∧ ':' ∉ n
  | .tag n => ':' ∉ n

/-- the selection a list of filter expressions stands for (no experiment named) -/
def selOfSpecs : List FilterSpec → Sel
  | [] => { expName := none, execFilters := [], suiteFilters := [], tagFilters := [] }
  | f :: r =>
    let s := selOfSpecs r
    match f with
    | .exec n => { s with execFilters := String.ofList n :: s.execFilters }
    | .suite n => { s with suiteFilters := (String.ofList n, none) :: s.suiteFilters }
    | .bench su n => { s with suiteFilters := (String.ofList su, some (String.ofList n)) :: s.suiteFilters }
    | .tag n => { s with tagFilters := String.ofList n :: s.tagFilters }

end RB.Runs
