/-
C06 / C07 / C08 — model of ReBench's data file.

* text level (`List Char`): tab-separated measurement lines, universal-newline
  reading, decimal integers, `"%f"` (six decimals, correctly rounded, ties to
  even) and its reader        — `rebench/model/measurement.py:39-60`,
  `rebench/persistence.py:281,327-331`
* the repository-URL password removal — `rebench/environment.py:94-99`
* the file as a list of abstract lines, the lazily opening writer
  (`_FilePersistence.persist_data_point`) and the loader (`_process_lines`)
  with their id tables — `rebench/persistence.py:270-431`

Imports nothing outside core Lean.
-/
namespace RB.DataFile

/-! ## Text level -/

/-- `sep.join(fields)` -/
def joinSep (sep : Char) : List (List Char) → List Char
  | [] => []
  | [f] => f
  | f :: g :: fs => f ++ sep :: joinSep sep (g :: fs)

/-- `s.split(sep)` for a one-character separator (never returns `[]`) -/
def splitSep (sep : Char) : List Char → List (List Char)
  | [] => [[]]
  | c :: cs =>
    if c = sep then [] :: splitSep sep cs
    else match splitSep sep cs with
      | [] => [[c]]
      | f :: fs => (c :: f) :: fs

/-- Text-mode reading with universal newlines (`open(f, "r")` then `for line in f`):
a line ends at `\n`, at `\r\n` or at a lone `\r`; the terminator is dropped here
(the loader strips it with `rstrip('\n')` after translation to `\n`).  A final
unterminated line is returned too. -/
def splitLinesAux : List Char → List Char → List (List Char)
  | acc, [] => if acc.isEmpty then [] else [acc.reverse]
  | acc, '\r' :: '\n' :: cs => acc.reverse :: splitLinesAux [] cs
  | acc, '\r' :: cs => acc.reverse :: splitLinesAux [] cs
  | acc, '\n' :: cs => acc.reverse :: splitLinesAux [] cs
  | acc, c :: cs => splitLinesAux (c :: acc) cs

def splitLines (text : List Char) : List (List Char) := splitLinesAux [] text

/-- `str(n)` for a non-negative integer -/
def natToDec (n : Nat) : List Char := Nat.toDigits 10 n

/-- `int(s)` restricted to what ReBench writes: a non-empty string of ASCII digits -/
def decToNat? (cs : List Char) : Option Nat :=
  if cs ≠ [] ∧ cs.all Char.isDigit then some (Nat.ofDigitChars 10 cs 0) else none

/-- `q·10⁶` rounded to the nearest integer, ties to even, for `q ≥ 0`
(what `"%f"` does with the exact value of a double) -/
def roundMicro (q : Rat) : Nat :=
  let a := q.num.toNat * 1000000
  let n := a / q.den
  let r := a % q.den
  if 2 * r < q.den then n
  else if q.den < 2 * r then n + 1
  else if n % 2 = 0 then n else n + 1

def pad6 (d : List Char) : List Char := List.replicate (6 - d.length) '0' ++ d

/-- the text of a non-negative number of millionths: `iii.ffffff` -/
def fmtMicro (u : Nat) : List Char :=
  natToDec (u / 1000000) ++ '.' :: pad6 (natToDec (u % 1000000))

/-- `"%f" % x` for the exact rational value `q` of the double `x` -/
def fmt6 (q : Rat) : List Char :=
  if q < 0 then '-' :: fmtMicro (roundMicro (-q)) else fmtMicro (roundMicro q)

/-- reader for `[-]digits[.digits]` (the part of `float()` that matters for
files written by ReBench; anything else — `True`, an empty field — is the
`ValueError` that the loader tolerates by skipping the line) -/
def readUnsigned (cs : List Char) : Option Rat :=
  match splitSep '.' cs with
  | [i] => (decToNat? i).map (fun n => (n : Rat))
  | [i, f] => do
      let n ← decToNat? i
      let m ← decToNat? f
      pure ((n : Rat) + (m : Rat) / ((10 ^ f.length : Nat) : Rat))
  | _ => none

def readFixed (cs : List Char) : Option Rat :=
  match cs with
  | '-' :: rest => (readUnsigned rest).map (fun q => -q)
  | _ => readUnsigned cs

/-- the value column: a float is written with `"%f"`, anything else with `"%s"` -/
inductive Value where
  | flt (q : Rat)
  | raw (s : List Char)
deriving DecidableEq, Repr

def Value.text : Value → List Char
  | .flt q => fmt6 q
  | .raw s => s

/-- one measurement line as text fields: invocation, iteration, value, unit,
criterion, then the run's nine identifying columns, then the run id -/
structure MeasLine where
  inv : Nat
  it : Nat
  value : List Char
  unit : List Char
  crit : List Char
  cols : List (List Char)
  rid : Nat
deriving DecidableEq, Repr

/-- `"\t".join(measurement.as_str_list(run_id_id))` -/
def renderMeas (l : MeasLine) : List Char :=
  joinSep '\t' ([natToDec l.inv, natToDec l.it, l.value, l.unit, l.crit] ++ l.cols ++ [natToDec l.rid])

/-- `as_table_cell`: a tab, line feed or carriage return inside a cell is written as a space -/
def cleanCell (s : List Char) : List Char :=
  s.map (fun c => if c = '\t' ∨ c = '\n' ∨ c = '\r' then ' ' else c)

/-- the cells as ReBench writes them: unit and criterion in `Measurement.as_str_list`,
the run's columns in `RunId.as_str_list` -/
def MeasLine.cleaned (l : MeasLine) : MeasLine :=
  { l with unit := cleanCell l.unit, crit := cleanCell l.crit, cols := l.cols.map cleanCell }

/-- the line that is written for a measurement reported with these texts -/
def writeMeas (l : MeasLine) : List Char := renderMeas l.cleaned

/-- what the loader recovers from one line (`Measurement.from_str_list`):
`none` stands for the tolerated `ValueError` / `IndexError` (line skipped) -/
structure ParsedMeas where
  inv : Nat
  it : Nat
  value : Rat
  unit : List Char
  crit : List Char
  rid : Nat
deriving DecidableEq, Repr

/-- `Measurement._value_from_str`: `float(text)`, and the two texts a boolean value
is written as (`True == 1`, `False == 0` in Python) -/
def readValue (cs : List Char) : Option Rat :=
  match readFixed cs with
  | some v => some v
  | none => if cs = "True".toList then some 1 else if cs = "False".toList then some 0 else none

theorem readValue_of_readFixed {cs : List Char} {v : Rat} (h : readFixed cs = some v) : readValue cs = some v := by
  simp [readValue, h]

def parseMeas (line : List Char) : Option ParsedMeas :=
  match splitSep '\t' line with
  | a :: b :: c :: d :: e :: rest => do
      let inv ← decToNat? a
      let it ← decToNat? b
      let v ← readValue c
      let last ← rest.getLast?
      let rid ← decToNat? last
      pure { inv := inv, it := it, value := v, unit := d, crit := e, rid := rid }
  | _ => none

/-- no tab, line feed or carriage return -/
def sepFree (s : List Char) : Bool := s.all (fun c => c ≠ '\t' ∧ c ≠ '\n' ∧ c ≠ '\r')

def MeasLine.SepFree (l : MeasLine) : Prop :=
  sepFree l.unit = true ∧ sepFree l.crit = true ∧ (∀ c ∈ l.cols, sepFree c = true)

/-! ## Repository URL (`determine_source_details`) -/

/-- `urlparse` restricted to `scheme://[user[:password]@]host[:port][/rest]`;
a text without `://` has no network location, hence no password. -/
structure Url where
  scheme : List Char
  auth : Option (List Char × Option (List Char))   -- user name (may be empty), optional password
  host : List Char
  port : Option (List Char)
  rest : List Char           -- path, query, fragment: everything from the first `/` on
deriving DecidableEq, Repr

def Url.netloc (u : Url) : List Char :=
  (match u.auth with
   | some (us, some pw) => us ++ ':' :: pw ++ ['@']
   | some (us, none) => us ++ ['@']
   | none => []) ++ u.host ++ (match u.port with | some p => ':' :: p | none => [])

def Url.render (u : Url) : List Char := u.scheme ++ "://".toList ++ u.netloc ++ u.rest

def Url.password (u : Url) : Option (List Char) :=
  match u.auth with
  | some (_, some pw) => some pw
  | _ => none

/-- `urlparse(...).hostname`: lower-cased, an IPv6 literal without its brackets -/
def Url.hostname (u : Url) : List Char :=
  (match u.host with
   | '[' :: rest => rest.takeWhile (· ≠ ']')
   | h => h).map Char.toLower

/-- `environment.py:94-98`: when a non-empty password is present the network
location is rebuilt as `username@hostname` — `hostname` is lower-cased by
`urlparse`, an IPv6 literal loses its brackets, and the port is dropped along with the password; otherwise the URL
is left as it is. -/
def stripPassword (u : Url) : List Char :=
  match u.auth with
  | some (us, some pw) =>
    if pw.isEmpty then u.render
    else u.scheme ++ "://".toList ++ us ++ '@' :: u.hostname ++ u.rest
  | _ => u.render

/-- the URL with user name only, lower-cased host and no port -/
def Url.userOnly (u : Url) (us : List Char) : Url :=
  { scheme := u.scheme, auth := some (us, none), host := u.hostname, port := none, rest := u.rest }

/-- sub-list test -/
def isInfix (p : List Char) : List Char → Bool
  | [] => p.isEmpty
  | c :: cs => p.isPrefixOf (c :: cs) || isInfix p cs

/-! ## The file as abstract lines, writer and loader -/

structure Meas where
  crit : String
  unit : String
  value : Value
deriving DecidableEq, Repr

/-- the order in which `_persists_data_point_in_open_file` writes the measurements of a data point: the
`total` last, whatever position the adapter gave it (the loader takes the total for the end of a data point) -/
def totalLast (ms : List Meas) : List Meas :=
  ms.filter (fun m => m.crit ≠ "total") ++ ms.filter (fun m => m.crit = "total")

/-- a data point as `persist_data_point` writes it (measurements in written order) -/
structure DP where
  inv : Nat
  it : Nat
  ms : List Meas
deriving DecidableEq, Repr

/-- `κ` run identity, `β` benchmark identity -/
inductive Line (κ β : Type) where
  | sess (i : Nat)                                   -- i-th line of the four-line session block
  | header                                           -- the column header
  | bench (id : Nat) (b : β)                         -- `# benchmark: id={…}`
  | run (id : Nat) (benchId : Nat) (k : κ)           -- `# run_id: id={…,"benchmark_id":benchId}`
  | meas (inv it : Nat) (m : Meas) (k : κ) (rid : Nat)  -- measurement line with k's columns and run id
deriving DecidableEq, Repr

/-- `_FilePersistence` as far as writing is concerned: file contents, whether
the file was opened in this session, the two dictionaries -/
structure FP (κ β : Type) where
  content : List (Line κ β)
  isOpen : Bool
  runDict : List (κ × Nat)
  benchDict : List (β × Nat)
deriving Repr

section Writer
variable {κ β : Type} [DecidableEq κ] [DecidableEq β] (benchOf : κ → β)

def sessionBlock : List (Line κ β) := [.sess 0, .sess 1, .sess 2, .sess 3]

/-- `_open_file_to_add_new_data` / `_open_file_and_append_execution_comment`:
lazily, append mode, header only when the file is empty -/
def openFile (fp : FP κ β) : FP κ β :=
  if fp.isOpen then fp
  else { fp with isOpen := true,
                 content := fp.content ++ sessionBlock ++ (if fp.content.isEmpty then [.header] else []) }

/-- `_ensure_benchark_is_persisted`: the new id is the *dictionary's* size -/
def ensureBench (b : β) (fp : FP κ β) : Nat × FP κ β :=
  match fp.benchDict.lookup b with
  | some id => (id, fp)
  | none =>
    let id := fp.benchDict.length
    (id, { fp with content := fp.content ++ [.bench id b], benchDict := fp.benchDict ++ [(b, id)] })

/-- `_ensure_run_id_is_persisted` -/
def ensureRun (k : κ) (fp : FP κ β) : Nat × FP κ β :=
  match fp.runDict.lookup k with
  | some id => (id, fp)
  | none =>
    let id := fp.runDict.length
    let r := ensureBench (benchOf k) fp
    (id, { r.2 with content := r.2.content ++ [.run id r.1 k], runDict := r.2.runDict ++ [(k, id)] })

def measLines (k : κ) (rid : Nat) (dp : DP) : List (Line κ β) :=
  dp.ms.map (fun m => .meas dp.inv dp.it m k rid)

/-- `persist_data_point` (open lazily, metadata if needed, one line per measurement, flush) -/
def persist (k : κ) (dp : DP) (fp : FP κ β) : FP κ β :=
  let r := ensureRun benchOf k (openFile fp)
  { r.2 with content := r.2.content ++ measLines k r.1 dp }

end Writer

/-- the loader's tables -/
structure Tables (κ β : Type) where
  runDict : List (κ × Nat)
  benchDict : List (β × Nat)
  idToRun : List κ
  idToBench : List β
deriving Repr

/-- what ends a load with a traceback (`AssertionError`, `IndexError` on the
benchmark id) or with exit 3 (`UIError` for an unknown run id) -/
inductive LoadErr where
  | assertBenchDup | assertBenchId | benchIndex | assertRunId | unknownRunId
  | mixedDataPoint      -- `UIError`: the open data point holds another invocation (exit 3)
deriving DecidableEq, Repr

/-- a complete data point seen by the loader: run, invocation, iteration of its `total` line -/
structure Loaded (κ : Type) where
  k : κ
  inv : Nat
  it : Nat
deriving DecidableEq, Repr

/-- `d[k] = v` -/
def dictSet {α : Type} [DecidableEq α] (d : List (α × Nat)) (a : α) (v : Nat) : List (α × Nat) :=
  if (d.lookup a).isSome then d.map (fun p => if p.1 = a then (a, v) else p) else d ++ [(a, v)]

/-- can `Measurement._value_from_str` read what was written in the value column -/
def Value.loads (v : Value) : Bool := (readValue v.text).isSome

section Loader
variable {κ β : Type} [DecidableEq κ] [DecidableEq β]
/- `rtK`, `rtB`: what `from_dict(json.loads(json.dumps(as_dict())))` makes of a key -/
variable (rtK : κ → κ) (rtB : β → β)

def emptyTables : Tables κ β := { runDict := [], benchDict := [], idToRun := [], idToBench := [] }

/-- one line of `_process_lines` -/
def loadLine (st : Tables κ β × List (Loaded κ)) (l : Line κ β) :
    Except LoadErr (Tables κ β × List (Loaded κ)) :=
  let t := st.1
  match l with
  | .sess _ => .ok st
  | .header => .ok st
  | .bench id b =>
    let b' := rtB b
    if (t.benchDict.lookup b').isSome then .error .assertBenchDup
    else if t.idToBench.length ≠ id then .error .assertBenchId
    else .ok ({ t with benchDict := dictSet t.benchDict b' id, idToBench := t.idToBench ++ [b'] }, st.2)
  | .run id bid k =>
    if t.idToBench.length ≤ bid then .error .benchIndex
    else
      let k' := rtK k
      if t.idToRun.length ≠ id then .error .assertRunId
      else .ok ({ t with runDict := dictSet t.runDict k' id, idToRun := t.idToRun ++ [k'] }, st.2)
  | .meas inv it m _ rid =>
    if ¬ m.value.loads then .ok st          -- ValueError, tolerated: line skipped
    else match t.idToRun[rid]? with
      | none => .error .unknownRunId
      | some k' => if m.crit = "total" then .ok (t, st.2 ++ [{ k := k', inv := inv, it := it }]) else .ok st

def loadFrom (st : Tables κ β × List (Loaded κ)) : List (Line κ β) →
    Except LoadErr (Tables κ β × List (Loaded κ))
  | [] => .ok st
  | l :: ls => match loadLine rtK rtB st l with
    | .ok st' => loadFrom st' ls
    | .error e => .error e

def load (c : List (Line κ β)) : Except LoadErr (Tables κ β × List (Loaded κ)) :=
  loadFrom rtK rtB (emptyTables, []) c

end Loader

/-- restored progress of run `k` with warm-up `w`: `_max_invocation` and the number of samples -/
def maxInv {κ : Type} [DecidableEq κ] (k : κ) (ls : List (Loaded κ)) : Nat :=
  ls.foldl (fun m l => if l.k = k then max m l.inv else m) 0

def sampleCount {κ : Type} [DecidableEq κ] (k : κ) (w : Nat) (ls : List (Loaded κ)) : Nat :=
  (ls.filter (fun l => l.k = k ∧ w < l.it)).length

/-- a fresh `_FilePersistence` of a new session on existing contents -/
def FP.ofTables {κ β : Type} (c : List (Line κ β)) (t : Tables κ β) : FP κ β :=
  { content := c, isOpen := false, runDict := t.runDict, benchDict := t.benchDict }

/-- projections used by the property statements -/
def isMeas {κ β : Type} : Line κ β → Bool
  | .meas .. => true
  | _ => false

def measOf {κ β : Type} (c : List (Line κ β)) : List (Line κ β) := c.filter isMeas

def headerCount {κ β : Type} (c : List (Line κ β)) : Nat :=
  (c.filter (fun l => match l with | .header => true | _ => false)).length

def runIds {κ β : Type} (c : List (Line κ β)) : List Nat :=
  c.filterMap (fun l => match l with | .run id _ _ => some id | _ => none)

def benchIds {κ β : Type} (c : List (Line κ β)) : List Nat :=
  c.filterMap (fun l => match l with | .bench id _ => some id | _ => none)

/-! ## The loader at text level

`load` above reads abstract lines.  `loadT` reads what is really on disk: every
measurement line is rendered (`renderMeas`, with the run's columns `colsOf k`),
cut at `\n`, `\r\n`, `\r` as text-mode reading does, split at tabs and parsed
(`parseMeas`); pieces that do not parse are skipped (the tolerated `ValueError`
/ `IndexError`).  It also follows the *open data point* of `_process_lines` /
`_parse_data_line`: measurements are collected per run until a `total`; a
measurement with another invocation number than the open data point's is the
`UIError` of `DataPoint.add_measurement`; comment lines reset the open data
point.  On files whose strings contain no separator and whose data points end
in their `total`, `loadT` and `load` agree (C07 `c07_textLoader_*`). -/

structure TState (κ β : Type) where
  t : Tables κ β
  loaded : List (Loaded κ)
  dp : Option (κ × Option Nat)     -- the run of the open data point and the invocation of its first measurement

section TextLoader
variable {κ β : Type} [DecidableEq κ] [DecidableEq β]
variable (colsOf : κ → List (List Char)) (rtK : κ → κ) (rtB : β → β)

def measText (inv it : Nat) (m : Meas) (k : κ) (rid : Nat) : List Char :=
  writeMeas { inv := inv, it := it, value := m.value.text, unit := m.unit.toList, crit := m.crit.toList,
               cols := colsOf k, rid := rid }

/-- the invocation of the open data point as far as run `k` is concerned (`previous_run_id is not run_id`
starts a new, empty data point) -/
def openFor (k : κ) (d : Option (κ × Option Nat)) : Option Nat :=
  match d with
  | some (k0, oi) => if k0 = k then oi else none
  | none => none

/-- `_parse_data_line` for one parsed piece -/
def loadPiece (st : TState κ β) (p : ParsedMeas) : Except LoadErr (TState κ β) :=
  match st.t.idToRun[p.rid]? with
  | none => .error .unknownRunId
  | some k' =>
    match openFor k' st.dp with
    | some i0 =>
      if i0 ≠ p.inv then .error .mixedDataPoint
      else if p.crit = "total".toList then
        .ok { st with loaded := st.loaded ++ [{ k := k', inv := i0, it := p.it }], dp := some (k', none) }
      else .ok { st with dp := some (k', some i0) }
    | none =>
      if p.crit = "total".toList then
        .ok { st with loaded := st.loaded ++ [{ k := k', inv := p.inv, it := p.it }], dp := some (k', none) }
      else .ok { st with dp := some (k', some p.inv) }

def loadPieces (st : TState κ β) : List (Option ParsedMeas) → Except LoadErr (TState κ β)
  | [] => .ok st
  | none :: ps => loadPieces st ps
  | some p :: ps => match loadPiece st p with
    | .ok st' => loadPieces st' ps
    | .error e => .error e

def loadLineT (st : TState κ β) (l : Line κ β) : Except LoadErr (TState κ β) :=
  match l with
  | .header => .ok st
  | .meas inv it m k rid =>
    loadPieces st ((splitLines (measText colsOf inv it m k rid ++ ['\n'])).map parseMeas)
  | l =>      -- a comment line: tables as in `loadLine`, and the open data point is dropped
    match loadLine rtK rtB (st.t, st.loaded) l with
    | .ok r => .ok { t := r.1, loaded := r.2, dp := none }
    | .error e => .error e

def loadFromT (st : TState κ β) : List (Line κ β) → Except LoadErr (TState κ β)
  | [] => .ok st
  | l :: ls => match loadLineT colsOf rtK rtB st l with
    | .ok st' => loadFromT st' ls
    | .error e => .error e

def loadT (c : List (Line κ β)) : Except LoadErr (Tables κ β × List (Loaded κ)) :=
  match loadFromT colsOf rtK rtB { t := emptyTables, loaded := [], dp := none } c with
  | .ok st => .ok (st.t, st.loaded)
  | .error e => .error e

end TextLoader

/-! ## Vocabulary of the property statements -/

section Spec
variable {κ β : Type} [DecidableEq κ] [DecidableEq β] (benchOf : κ → β)

/-- a sequence of `persist_data_point` calls on one file within one session -/
def writeOps (ops : List (κ × DP)) (fp : FP κ β) : FP κ β :=
  ops.foldl (fun fp op => persist benchOf op.1 op.2 fp) fp

/-- measurement lines as the property reads them: run (its columns), invocation, iteration, measurement -/
def measProj : Line κ β → Option (κ × Nat × Nat × Meas)
  | .meas inv it m k _ => some (k, inv, it, m)
  | _ => none

def dpProj (k : κ) (dp : DP) : List (κ × Nat × Nat × Meas) := dp.ms.map (fun m => (k, dp.inv, dp.it, m))

/-- the complete data points of `dp` as the loader counts them: one per loadable `total` line -/
def totalsOf (k : κ) (dp : DP) : List (Loaded κ) :=
  (dp.ms.filter (fun m => m.value.loads && decide (m.crit = "total"))).map
    (fun _ => { k := k, inv := dp.inv, it := dp.it })

/-- contents reachable from the empty (or absent) file by any number of
sessions, each a load (keys surviving the JSON round trip unchanged, which is
C07's `fromDict_asDict`) followed by any sequence of `persist_data_point` calls -/
inductive Reach : List (Line κ β) → Prop
  | empty : Reach []
  | session (c : List (Line κ β)) (T : Tables κ β) (ls : List (Loaded κ)) (ops : List (κ × DP)) :
      Reach c → load (fun x => x) (fun x => x) c = .ok (T, ls) →
      Reach (writeOps benchOf ops (FP.ofTables c T)).content

/-- a measurement written by `"%f"` whose unit and criterion contain no tab, CR or LF -/
def MeasOk (m : Meas) : Prop :=
  (∃ q, m.value = .flt q) ∧ sepFree m.unit.toList = true ∧ sepFree m.crit.toList = true

/-- a data point as every adapter builds it (C12) for a run whose columns are separator-free:
separator-free strings, exactly one `total`, and that last -/
structure DPOk (colsOf : κ → List (List Char)) (k : κ) (dp : DP) : Prop where
  cols : ∀ c ∈ colsOf k, sepFree c = true
  ms : ∀ m ∈ dp.ms, MeasOk m
  shape : ∃ init tot, dp.ms = init ++ [tot] ∧ tot.crit = "total" ∧ ∀ m ∈ init, m.crit ≠ "total"

/-- `Reach` restricted to sessions that persist only such data points -/
inductive ReachOk (colsOf : κ → List (List Char)) : List (Line κ β) → Prop
  | empty : ReachOk colsOf []
  | session (c : List (Line κ β)) (T : Tables κ β) (ls : List (Loaded κ)) (ops : List (κ × DP)) :
      ReachOk colsOf c → load (fun x => x) (fun x => x) c = .ok (T, ls) →
      (∀ op ∈ ops, DPOk colsOf op.1 op.2) →
      ReachOk colsOf (writeOps benchOf ops (FP.ofTables c T)).content

end Spec

end RB.DataFile
