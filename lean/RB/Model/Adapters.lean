/-
C05 / C12 — model of the built-in gauge adapters (`rebench/interop/*.py`),
of the `DataPoint` builder (`rebench/model/data_point.py`) and of
`Measurement.is_total` (`rebench/model/measurement.py`).

* regular expressions are a small deep embedding `Re` and an
  ordered-backtracking matcher `Re.m` in continuation-passing style that
  behaves as Python's `re` for the operators the adapters use: a greedy
  quantifier tries the longest run first and gives characters back one by
  one, an optional group is tried before its absence, the left alternative
  before the right one, capture groups are restored on backtracking;
* every adapter's pattern is written node by node as an `Re` value next to
  the Python source text;
* character classes are exact for ASCII; `\s` is Python's complete table,
  `\w` carries a small explicit list of non-ASCII letters, `\d` / `[0-9]` are
  ASCII digits only (Python's `\d` also accepts other Unicode digits: outside
  the model and outside the generators);
* numerals are parsed to exact rationals; `float` rounding is not modelled;
* the parse loops are mirrored one by one: the open-data-point loop
  (ReBenchLog, PlainSecondsLog, ValidationLog, Time with `-f`), the
  fresh-data-point loop (SavinaLog, JMH), the `time -p` loop.
-/
namespace RB.Adapters

abbrev Line := List Char

/-! ## character classes -/

/-- ASCII digit (`[0-9]`; Python's `\d` on ASCII) -/
def isDigit (c : Char) : Bool := 48 ≤ c.toNat && c.toNat ≤ 57

/-- Python's `\s` / `str.isspace` / `str.strip()` table (complete) -/
def isSpace (c : Char) : Bool :=
  let n := c.toNat
  (9 ≤ n && n ≤ 13) || (28 ≤ n && n ≤ 32) || n == 0x85 || n == 0xa0 || n == 0x1680 ||
  (0x2000 ≤ n && n ≤ 0x200a) || n == 0x2028 || n == 0x2029 || n == 0x202f || n == 0x205f ||
  n == 0x3000

/-- what `float()` strips: as `isSpace` without U+001C..U+001F -/
def isFloatSpace (c : Char) : Bool := isSpace c && !(28 ≤ c.toNat && c.toNat ≤ 31)

def isAlpha (c : Char) : Bool :=
  (65 ≤ c.toNat && c.toNat ≤ 90) || (97 ≤ c.toNat && c.toNat ≤ 122)

/-- non-ASCII word characters the model knows about (the generators use no others) -/
def extraWord : List Nat := [0xb5, 0xe9, 0xfc, 0xdf, 0x3bb, 0x416]

/-- `\w`: `[a-zA-Z0-9_]` plus the explicit table -/
def isWord (c : Char) : Bool := isAlpha c || isDigit c || c == '_' || extraWord.contains c.toNat

def isWordDot (c : Char) : Bool := isWord c || c == '.'
def notSpace (c : Char) : Bool := !isSpace c
def notColon (c : Char) : Bool := c != ':'
def notCR (c : Char) : Bool := c != '\r'
def anyChar (_ : Char) : Bool := true
def isSign (c : Char) : Bool := c == '+' || c == '-'
def isE (c : Char) : Bool := c == 'e' || c == 'E'
def isMU (c : Char) : Bool := c == 'm' || c == 'u'

/-! ## regular expressions with Python's backtracking order -/

inductive Re where
  | eps
  | cls (p : Char → Bool)
  | lit (s : List Char)
  | seq (a b : Re)
  | alt (a b : Re)
  | opt (a : Re)
  | star (p : Char → Bool)
  | plus (p : Char → Bool)
  | rep (p : Char → Bool) (lo hi : Nat)
  | grp (n : Nat) (a : Re)

/-- captures: most recent binding first -/
abbrev Caps := List (Nat × List Char)

def cap (c : Caps) (n : Nat) : Option (List Char) :=
  match c with
  | [] => none
  | (k, v) :: r => if k = n then some v else cap r n

/-- `s` starts with the literal `l`: the rest -/
def stripPrefix : List Char → List Char → Option (List Char)
  | [], s => some s
  | _ :: _, [] => none
  | a :: l, b :: s => if a = b then stripPrefix l s else none

/-- greedy `p*`: longest run first, then one character less, … -/
def starM {α : Type} (p : Char → Bool) : List Char → (List Char → Option α) → Option α
  | [], k => k []
  | c :: cs, k =>
    if p c then
      match starM p cs k with
      | some r => some r
      | none => k (c :: cs)
    else k (c :: cs)

/-- greedy `p{lo,hi}` -/
def repM {α : Type} (p : Char → Bool) : Nat → Nat → List Char → (List Char → Option α) → Option α
  | lo, 0, s, k => if lo = 0 then k s else none
  | lo, _ + 1, [], k => if lo = 0 then k [] else none
  | lo, hi + 1, c :: cs, k =>
    if p c then
      match repM p (lo - 1) hi cs k with
      | some r => some r
      | none => if lo = 0 then k (c :: cs) else none
    else if lo = 0 then k (c :: cs) else none

/-- the matcher: `m re s caps k` matches `re` at the start of `s` and hands the
rest and the captures to the continuation; `none` = this way fails, backtrack -/
def Re.m {α : Type} : Re → List Char → Caps → (List Char → Caps → Option α) → Option α
  | .eps, s, c, k => k s c
  | .cls p, s, c, k =>
    match s with
    | [] => none
    | x :: xs => if p x then k xs c else none
  | .lit l, s, c, k =>
    match stripPrefix l s with
    | some r => k r c
    | none => none
  | .seq a b, s, c, k => a.m s c (fun s' c' => b.m s' c' k)
  | .alt a b, s, c, k =>
    match a.m s c k with
    | some r => some r
    | none => b.m s c k
  | .opt a, s, c, k =>
    match a.m s c k with
    | some r => some r
    | none => k s c
  | .star p, s, c, k => starM p s (fun s' => k s' c)
  | .plus p, s, c, k =>
    match s with
    | [] => none
    | x :: xs => if p x then starM p xs (fun s' => k s' c) else none
  | .rep p lo hi, s, c, k => repM p lo hi s (fun s' => k s' c)
  | .grp n a, s, c, k => a.m s c (fun s' c' => k s' ((n, s.take (s.length - s'.length)) :: c'))

/-- `pattern.match(line)` -/
def Re.pmatch (r : Re) (s : List Char) : Option Caps := r.m s [] (fun _ c => some c)

/-- `pattern.search(line)` as a truth value -/
def Re.search (r : Re) : List Char → Bool
  | [] => (r.pmatch []).isSome
  | c :: cs => (r.pmatch (c :: cs)).isSome || Re.search r cs

def seqs : List Re → Re
  | [] => .eps
  | [a] => a
  | a :: r => .seq a (seqs r)

def str (s : String) : Re := .lit s.toList

/-- `(\d+(\.\d*)?|\.\d+)([eE][-+]?\d+)?` with group numbers `g`, `g+1`, `g+2` -/
def reNumeral (g : Nat) : Re :=
  .seq
    (.grp g (.alt (.seq (.plus isDigit) (.opt (.grp (g + 1) (.seq (str ".") (.star isDigit)))))
                  (.seq (str ".") (.plus isDigit))))
    (.opt (.grp (g + 2) (seqs [.cls isE, .opt (.cls isSign), .plus isDigit])))

/-! ## numerals -/

def digitVal (c : Char) : Nat := c.toNat - 48
def digitsNat (ds : List Char) : Nat := ds.foldl (fun a c => 10 * a + digitVal c) 0

def pow10 (n : Nat) : Rat := ((10 ^ n : Nat) : Rat)

/-- value of `mantissa × 10^±e` -/
def scale (q : Rat) (neg : Bool) (e : Nat) : Rat := if neg then q / pow10 e else q * pow10 e

/-- value of a text of the shape `D*[.D*][(e|E)[+-]D+]` (what the patterns
capture); total: characters outside the shape are not expected -/
def numeralVal (s : List Char) : Rat :=
  let mant := s.takeWhile (fun c => !isE c)
  let ex := (s.dropWhile (fun c => !isE c)).drop 1
  let ip := mant.takeWhile (fun c => c != '.')
  let fp := (mant.dropWhile (fun c => c != '.')).drop 1
  let m : Rat := (digitsNat (ip ++ fp) : Rat) / pow10 fp.length
  match ex with
  | [] => m
  | '-' :: ds => scale m true (digitsNat ds)
  | '+' :: ds => scale m false (digitsNat ds)
  | ds => scale m false (digitsNat ds)

/-- a Python value as far as the adapters produce them -/
inductive Val where
  | flt (q : Rat)          -- a float, as its exact value before rounding
  | int (n : Nat)          -- a Python int
  | bool (b : Bool)
  | inf (neg : Bool)
  | nan
deriving Repr, DecidableEq

/-! ### Python's `float(str)` (PlainSecondsLog) -/

/-- `digit (_? digit)*`: the digits (underscores removed) and the rest -/
def digitPartAux : Nat → List Char → List Char → List Char × List Char
  | 0, acc, s => (acc.reverse, s)
  | fuel + 1, acc, s =>
    match s with
    | '_' :: d :: r => if isDigit d then digitPartAux fuel (d :: acc) r else (acc.reverse, s)
    | d :: r => if isDigit d then digitPartAux fuel (d :: acc) r else (acc.reverse, s)
    | [] => (acc.reverse, [])

def digitPart (s : List Char) : Option (List Char × List Char) :=
  match s with
  | d :: r => if isDigit d then some (digitPartAux r.length [d] r) else none
  | [] => none

def lower (c : Char) : Char := if 65 ≤ c.toNat && c.toNat ≤ 90 then Char.ofNat (c.toNat + 32) else c

def stripBy (p : Char → Bool) (s : List Char) : List Char :=
  ((s.dropWhile p).reverse.dropWhile p).reverse

/-- an optional sign: is it `-`, and the rest -/
def splitSign : List Char → Bool × List Char
  | '-' :: t => (true, t)
  | '+' :: t => (false, t)
  | t => (false, t)

/-- optional exponent, then the end of the text -/
def floatExp (m : Rat) (s : List Char) : Option Rat :=
  match s with
  | [] => some m
  | e :: r =>
    if isE e then
      let (neg, r') := splitSign r
      match digitPart r' with
      | some (ds, []) => some (scale m neg (digitsNat ds))
      | _ => none
    else none

/-- unsigned body: `D[.[D]][exp] | .D[exp]` with PEP-515 underscores -/
def floatBody (s : List Char) : Option Rat :=
  match digitPart s with
  | some (ip, '.' :: r) =>
    match digitPart r with
    | some (fp, r') => floatExp ((digitsNat (ip ++ fp) : Rat) / pow10 fp.length) r'
    | none => floatExp (digitsNat ip : Rat) r
  | some (ip, r) => floatExp (digitsNat ip : Rat) r
  | none =>
    match s with
    | '.' :: r =>
      match digitPart r with
      | some (fp, r') => floatExp ((digitsNat fp : Rat) / pow10 fp.length) r'
      | none => none
    | _ => none

/-- `float(text)`: `none` = `ValueError` -/
def pyFloat (s : List Char) : Option Val :=
  let t := stripBy isFloatSpace s
  let (neg, u) := splitSign t
  let lu := u.map lower
  if lu = "inf".toList || lu = "infinity".toList then some (.inf neg)
  else if lu = "nan".toList then some .nan
  else match floatBody u with
    | some q => some (.flt (if neg then -q else q))
    | none => none

/-- `x * k` on a Python float -/
def Val.mul (v : Val) (k : Rat) : Val :=
  match v with
  | .flt q => .flt (q * k)
  | .inf n => .inf n
  | .nan => .nan
  | .int n => .flt ((n : Rat) * k)
  | .bool b => .bool b

/-! ## measurements and the `DataPoint` builder -/

def totalName : List Char := "total".toList

/-- what a line contributes before it is stamped with invocation and iteration -/
structure PreMeas where
  criterion : List Char
  unit : List Char
  value : Val
deriving Repr, DecidableEq

/-- measurements a line adds to the open data point: `pre` first, then `main`;
only `main.is_total()` decides whether the data point is closed -/
structure LineMeas where
  pre : List PreMeas
  main : PreMeas
deriving Repr, DecidableEq

structure Meas where
  invocation : Nat
  iteration : Nat
  criterion : List Char
  unit : List Char
  value : Val
deriving Repr, DecidableEq

/-- `measurement.py:36-37` -/
def Meas.isTotal (m : Meas) : Bool := m.criterion == totalName
def PreMeas.isTotal (m : PreMeas) : Bool := m.criterion == totalName

def stamp (inv it : Nat) (p : PreMeas) : Meas :=
  { invocation := inv, iteration := it, criterion := p.criterion, unit := p.unit, value := p.value }

inductive BuildErr where
  | uiError      -- data_point.py:42-45  "expected to represent a single invocation"
  | valueError   -- data_point.py:49-51  second 'total'
deriving Repr, DecidableEq

/-- `DataPoint`: `invocation = none` is Python's `-1` -/
structure DP where
  ms : List Meas
  total : Option Meas
  invocation : Option Nat
deriving Repr, DecidableEq

def DP.empty : DP := { ms := [], total := none, invocation := none }

/-- `data_point.py:39-52` -/
def DP.add (d : DP) (m : Meas) : Except BuildErr DP :=
  match d.invocation with
  | some i =>
    if i ≠ m.invocation then .error .uiError
    else if m.isTotal then
      (match d.total with
       | some _ => .error .valueError
       | none => .ok { d with ms := d.ms ++ [m], total := some m })
    else .ok { d with ms := d.ms ++ [m] }
  | none =>
    if m.isTotal then
      (match d.total with
       | some _ => .error .valueError
       | none => .ok { ms := d.ms ++ [m], total := some m, invocation := some m.invocation })
    else .ok { d with ms := d.ms ++ [m], invocation := some m.invocation }

def DP.addAll (d : DP) : List Meas → Except BuildErr DP
  | [] => .ok d
  | m :: r =>
    match d.add m with
    | .error e => .error e
    | .ok d' => d'.addAll r

inductive Outcome where
  | ok (dps : List (List Meas))
  | notParseable             -- OutputNotParseable
  | invalid                  -- ResultsIndicatedAsInvalid
  | crash (e : BuildErr)     -- any other exception
deriving Repr, DecidableEq

def finish (done : List DP) : Outcome :=
  if done.isEmpty then .notParseable else .ok (done.map (·.ms))

/-! ## the parse loops -/

/-- what distinguishes the adapters that share the open-data-point loop -/
structure Cfg where
  /-- JMH only: leave the loop at this line, before anything else is looked at -/
  stop : Line → Bool
  /-- `check_for_error` (already knows about `include_faulty`) -/
  marker : Line → Bool
  classify : Line → Option LineMeas

/-- the loop of `rebench_log_adapter.py:55-94`, `validation_log_adapter.py:51-98`,
`plain_seconds_log_adapter.py:45-68`, `time_adapter.py:89-112,139-142`:
add the line's measurements to the open data point; a total closes it and
increments the iteration. -/
def collectLoop (cfg : Cfg) (inv : Nat) : List Line → Nat → DP → List DP → Outcome
  | [], _, _, done => finish done
  | l :: ls, it, cur, done =>
    if cfg.stop l then finish done
    else if cfg.marker l then .invalid
    else match cfg.classify l with
      | none => collectLoop cfg inv ls it cur done
      | some lm =>
        match cur.addAll ((lm.pre ++ [lm.main]).map (stamp inv it)) with
        | .error e => .crash e
        | .ok cur' =>
          if lm.main.isTotal then collectLoop cfg inv ls (it + 1) DP.empty (done ++ [cur'])
          else collectLoop cfg inv ls it cur' done

def collect (cfg : Cfg) (inv : Nat) (ls : List Line) : Outcome :=
  collectLoop cfg inv ls 1 DP.empty []

/-- adapters whose loop builds a fresh data point per matching line with the
criterion fixed to `total` (`savina_log_adapter.py:33-50`, `jmh_adapter.py:39-80`) -/
structure FreshCfg where
  stop : Line → Bool
  marker : Line → Bool
  /-- unit and value of the line's measurement -/
  classify : Line → Option (List Char × Val)

def freshLoop (cfg : FreshCfg) (inv : Nat) : List Line → Nat → List DP → Outcome
  | [], _, done => finish done
  | l :: ls, it, done =>
    if cfg.stop l then finish done
    else if cfg.marker l then .invalid
    else match cfg.classify l with
      | none => freshLoop cfg inv ls it done
      | some (u, v) =>
        match DP.empty.add { invocation := inv, iteration := it, criterion := totalName, unit := u, value := v } with
        | .error e => .crash e
        | .ok p => freshLoop cfg inv ls (it + 1) (done ++ [p])

def collectFresh (cfg : FreshCfg) (inv : Nat) (ls : List Line) : Outcome :=
  freshLoop cfg inv ls 1 []

/-- the `time -p` branch of `time_adapter.py:88-142`: `classify` gives the
criterion (`real` already mapped to `total`) and the value in ms.  Totals are
remembered (the last one wins), everything else is added to the one open data
point; the closing test of lines 129-133 is mirrored as written. -/
structure TimePState where
  it : Nat
  cur : DP
  totalMeasure : Option Meas
  done : List DP

def msUnit : List Char := "ms".toList

/-- one line of the `time -p` loop (lines 114-127) -/
def timePStep (classify : Line → Option (List Char × Val)) (inv : Nat) (st : TimePState) (l : Line) :
    Except BuildErr TimePState :=
  match classify l with
  | none => .ok st
  | some (crit, v) =>
    let m : Meas := { invocation := inv, iteration := st.it, criterion := crit, unit := msUnit, value := v }
    if m.isTotal then .ok { st with totalMeasure := some m }
    else match st.cur.add m with
      | .error e => .error e
      | .ok c => .ok { st with cur := c }

def timePLoop (marker : Line → Bool) (classify : Line → Option (List Char × Val)) (inv : Nat) :
    List Line → TimePState → Outcome
  | [], st =>
    match st.totalMeasure with
    | some t =>
      match st.cur.add t with
      | .error e => .crash e
      | .ok c => finish (st.done ++ [c])
    | none => finish st.done
  | l :: ls, st =>
    if marker l then .invalid
    else
      match timePStep classify inv st l with
      | .error e => .crash e
      | .ok st' =>
        if st'.cur.ms.length = 3 ∧ st'.cur.total.isSome then
          timePLoop marker classify inv ls
            { st' with it := st'.it + 1, cur := DP.empty, done := st'.done ++ [st'.cur] }
        else timePLoop marker classify inv ls st'

def collectTimeP (marker : Line → Bool) (classify : Line → Option (List Char × Val)) (inv : Nat)
    (ls : List Line) : Outcome :=
  timePLoop marker classify inv ls { it := 1, cur := DP.empty, totalMeasure := none, done := [] }

/-! ## failure markers (`adapter.py:32-67`) -/

def reError : Re := str "Error"
def reSegfault : Re := str "Segmentation fault"
def reBusError : Re := str "Bus error"
/-- `.*Failed.*verification` -/
def reNPBPartial : Re := seqs [.star anyChar, str "Failed", .star anyChar, str "verification"]
/-- `.*Benchmark done.*verification failed` -/
def reNPBInvalid : Re := seqs [.star anyChar, str "Benchmark done", .star anyChar, str "verification failed"]
/-- `.*incorrect.*` -/
def reIncorrect : Re := seqs [.star anyChar, str "incorrect", .star anyChar]
/-- `.*error.*` -/
def reErr : Re := seqs [.star anyChar, str "error", .star anyChar]

/-- `search` for a pattern that starts with `.*`: it matches somewhere iff it
matches at the start of the line (the leading `.*` can absorb any offset), so
only offset 0 is tried (`search_dotStar` in `Proofs/Lemmas/Adapters.lean`;
the driver op `search` is diffed against Python's `search`). -/
def Re.searchDotStar (r : Re) (l : List Char) : Bool := (r.pmatch l).isSome

/-- `check_for_error`; `others` are the adapter's `.*…` patterns -/
def checkForError (includeFaulty : Bool) (others : List Re) (l : Line) : Bool :=
  if includeFaulty then false
  else reError.search l || reSegfault.search l || reBusError.search l || others.any (·.searchDotStar l)

def npbMarkers : List Re := [reNPBPartial, reNPBInvalid, reIncorrect]

/-! ## the patterns, node by node -/

def strip (s : List Char) : List Char := stripBy isSpace s

/-- `^(?:.*: )?([^\s]+)( [\w\.]+)?: iterations=([0-9]+) runtime: (?P<runtime>(\d+(\.\d*)?|\.\d+)([eE][-+]?\d+)?)(?P<unit>[mu])s`
(groups: 1 name, 2 criterion, 3 iterations, 4 runtime, 5-7 inside, 8 unit) -/
def reRebenchLog : Re :=
  seqs [.opt (seqs [.star anyChar, str ": "]),
        .grp 1 (.plus notSpace),
        .opt (.grp 2 (.seq (str " ") (.plus isWordDot))),
        str ": iterations=", .grp 3 (.plus isDigit), str " runtime: ",
        .grp 4 (reNumeral 5), .grp 8 (.cls isMU), str "s"]

/-- `^(?:.*: )?([^\s]+): (?P<criterion>[^:]{1,30}):\s*(?P<value>(\d+(\.\d*)?|\.\d+)([eE][-+]?\d+)?)(?P<unit>[a-zA-Z]+)`
(groups: 1 name, 2 criterion, 3 value, 4-6 inside, 7 unit) -/
def reRebenchExtra : Re :=
  seqs [.opt (seqs [.star anyChar, str ": "]),
        .grp 1 (.plus notSpace), str ": ",
        .grp 2 (.rep notColon 1 30), str ":", .star isSpace,
        .grp 3 (reNumeral 4), .grp 7 (.plus isAlpha)]

/-- `^([\w\.]+)\s+Iteration-(?:\d+):\s+([0-9]+\.[0-9]+) ms` -/
def reSavina : Re :=
  seqs [.grp 1 (.plus isWordDot), .plus isSpace, str "Iteration-", .plus isDigit, str ":",
        .plus isSpace, .grp 2 (seqs [.plus isDigit, str ".", .plus isDigit]), str " ms"]

/-- `^(?:.*: )?([\w\.]+)( [\w\.]+)?: iterations=([0-9]+) runtime: ([0-9]+)([mu])s success: (true|false)` -/
def reValidation : Re :=
  seqs [.opt (seqs [.star anyChar, str ": "]),
        .grp 1 (.plus isWordDot),
        .opt (.grp 2 (.seq (str " ") (.plus isWordDot))),
        str ": iterations=", .grp 3 (.plus isDigit), str " runtime: ",
        .grp 4 (.plus isDigit), .grp 5 (.cls isMU), str "s success: ",
        .grp 6 (.alt (str "true") (str "false"))]

/-- `^\[Total\]\s+A#([0-9]+)\s+M#([0-9]+)\s+P#([0-9]+)` -/
def reActors : Re :=
  seqs [str "[Total]", .plus isSpace, str "A#", .grp 1 (.plus isDigit), .plus isSpace,
        str "M#", .grp 2 (.plus isDigit), .plus isSpace, str "P#", .grp 3 (.plus isDigit)]

/-- `^(Iteration|# Warmup Iteration)\s+(\d+):\s+(\d+(?:\.\d+)?)\s+([^\r]+)`
(the pinned tree had `(.+)` as the last group: `reJMHOld`) -/
def reJMHWith (unitChar : Char → Bool) : Re :=
  seqs [.grp 1 (.alt (str "Iteration") (str "# Warmup Iteration")), .plus isSpace,
        .grp 2 (.plus isDigit), str ":", .plus isSpace,
        .grp 3 (.seq (.plus isDigit) (.opt (.seq (str ".") (.plus isDigit)))), .plus isSpace,
        .grp 4 (.plus unitChar)]
def reJMH : Re := reJMHWith notCR
def reJMHOld : Re := reJMHWith anyChar

def reRunComplete : Re := str "Run complete"

/-- `^(\w+)\s*(\d+)m(\d+\.\d+)s` -/
def reTime : Re :=
  seqs [.grp 1 (.plus isWord), .star isSpace, .grp 2 (.plus isDigit), str "m",
        .grp 3 (seqs [.plus isDigit, str ".", .plus isDigit]), str "s"]

/-- `^(\w+)(\s*)(\d+\.\d+)` -/
def reTime2 : Re :=
  seqs [.grp 1 (.plus isWord), .grp 2 (.star isSpace),
        .grp 3 (seqs [.plus isDigit, str ".", .plus isDigit])]

/-- `^wall-time \(secounds\): (\d+\.\d+)` -/
def reFormattedTime : Re :=
  seqs [str "wall-time (secounds): ", .grp 1 (seqs [.plus isDigit, str ".", .plus isDigit])]

/-- `^max rss \(kb\): (\d+)` -/
def reFormattedRss : Re := seqs [str "max rss (kb): ", .grp 1 (.plus isDigit)]

/-! ## the classifiers -/

def ms : List Char := "ms".toList
def capD (c : Caps) (n : Nat) : List Char := (cap c n).getD []

/-- `rebench_log_adapter.py:64-81` -/
def classifyRebenchLog (l : Line) : Option LineMeas :=
  match reRebenchLog.pmatch l with
  | some c =>
    let t := numeralVal (capD c 4)
    let t := if capD c 8 = ['u'] then t / 1000 else t
    let crit := match cap c 2 with
      | some g => if g.isEmpty then totalName else strip g
      | none => totalName
    some { pre := [], main := { criterion := crit, unit := ms, value := .flt t } }
  | none =>
    match reRebenchExtra.pmatch l with
    | some c =>
      some { pre := [], main := { criterion := capD c 2, unit := capD c 7,
                                  value := .flt (numeralVal (capD c 3)) } }
    | none => none

/-- `plain_seconds_log_adapter.py:54-63` -/
def classifyPlainSeconds (l : Line) : Option LineMeas :=
  match pyFloat l with
  | some v => some { pre := [], main := { criterion := totalName, unit := ms, value := v.mul 1000 } }
  | none => none

/-- `savina_log_adapter.py:38-41` -/
def classifySavina (l : Line) : Option (List Char × Val) :=
  match reSavina.pmatch l with
  | some c => some (ms, .flt (numeralVal (capD c 2)))
  | none => none

/-- `int(text)` refuses more than 4300 digits (CPython's default
`int_max_str_digits`) with a `ValueError` -/
def intMaxStrDigits : Nat := 4300

/-- `validation_log_adapter.py:60-93`; `none` in the outer option = no match;
the inner `Except` is the `ValueError` of `int()` on an over-long numeral -/
def classifyValidation (l : Line) : Option LineMeas :=
  match reValidation.pmatch l with
  | some c =>
    let t := numeralVal (capD c 4)
    let t := if capD c 5 = ['u'] then t / 1000 else t
    let crit := match cap c 2 with
      | some g => if g.isEmpty then totalName else strip g
      | none => totalName
    some { pre := [{ criterion := "Success".toList, unit := "bool".toList,
                     value := .bool (capD c 6 = "true".toList) }],
           main := { criterion := crit, unit := ms, value := .flt t } }
  | none =>
    match reActors.pmatch l with
    | some c =>
      let cnt := "count".toList
      some { pre := [{ criterion := "Actors".toList, unit := cnt, value := .int (digitsNat (capD c 1)) },
                     { criterion := "Messages".toList, unit := cnt, value := .int (digitsNat (capD c 2)) },
                     { criterion := "Promises".toList, unit := cnt, value := .int (digitsNat (capD c 3)) }],
             main := { criterion := totalName, unit := ms, value := .int 0 } }
    | none => none

/-- an actors line with a counter of more than `limit` digits -/
def actorsOverlongWith (limit : Nat) (l : Line) : Bool :=
  match reValidation.pmatch l with
  | some _ => false
  | none =>
    match reActors.pmatch l with
    | some c => limit < (capD c 1).length || limit < (capD c 2).length || limit < (capD c 3).length
    | none => false

/-- an actors line whose counters `int()` refuses -/
def actorsOverlong (l : Line) : Bool := actorsOverlongWith intMaxStrDigits l

/-- `jmh_adapter.py:66-70` -/
def classifyJMHWith (re : Re) (l : Line) : Option (List Char × Val) :=
  match re.pmatch l with
  | some c => some (capD c 4, .flt (numeralVal (capD c 3)))
  | none => none
def classifyJMH : Line → Option (List Char × Val) := classifyJMHWith reJMH

/-- `time_adapter.py:100-108` (the `-f` format) -/
def classifyTimeFormatted (l : Line) : Option LineMeas :=
  match reFormattedRss.pmatch l with
  | some c => some { pre := [], main := { criterion := "MaxRSS".toList, unit := "kb".toList,
                                          value := .flt (numeralVal (capD c 1)) } }
  | none =>
    match reFormattedTime.pmatch l with
    | some c => some { pre := [], main := { criterion := totalName, unit := ms,
                                            value := .flt (numeralVal (capD c 1) * 1000) } }
    | none => none

/-- `time_adapter.py:114-121` (`time -p`): criterion and milliseconds -/
def classifyTimeP (l : Line) : Option (List Char × Val) :=
  let mk (c : Caps) : List Char × Val :=
    let g1 := capD c 1
    let crit := if g1 = "real".toList then totalName else g1
    let g2 := strip (capD c 2)
    let mins : Rat := if g2.isEmpty then 0 else numeralVal g2
    (crit, .flt ((mins * 60 + numeralVal (capD c 3)) * 1000))
  match reTime.pmatch l with
  | some c => some (mk c)
  | none =>
    match reTime2.pmatch l with
    | some c => some (mk c)
    | none => none

/-! ## the adapters -/

/-- Python's `data.split("\n")` -/
def splitLines : List Char → List Line
  | [] => [[]]
  | c :: cs =>
    if c = '\n' then [] :: splitLines cs
    else match splitLines cs with
      | [] => [[c]]
      | l :: ls => (c :: l) :: ls

def noStop (_ : Line) : Bool := false

def cfgRebenchLog (faulty : Bool) : Cfg :=
  { stop := noStop, marker := checkForError faulty npbMarkers, classify := classifyRebenchLog }
def cfgPlainSeconds (faulty : Bool) : Cfg :=
  { stop := noStop, marker := checkForError faulty (npbMarkers ++ [reErr]), classify := classifyPlainSeconds }
def cfgValidation (faulty : Bool) : Cfg :=
  { stop := noStop, marker := checkForError faulty npbMarkers, classify := classifyValidation }
def cfgTimeFormatted (faulty : Bool) : Cfg :=
  { stop := noStop, marker := checkForError faulty [], classify := classifyTimeFormatted }
/-- repaired tree: the marker check is called (`fix: SavinaLog …`) -/
def cfgSavina (faulty : Bool) : FreshCfg :=
  { stop := noStop, marker := checkForError faulty [], classify := classifySavina }
/-- repaired tree: `Run complete` leaves the loop (`break`), the empty result is rejected -/
def cfgJMH (faulty : Bool) : FreshCfg :=
  { stop := reRunComplete.search, marker := checkForError faulty [], classify := classifyJMH }

inductive Adapter where
  | rebenchLog | plainSeconds | savina | validation | jmh | timeFormatted | timeP
deriving Repr, DecidableEq

/-- the model of `ValidationLogAdapter.parse_data` has one more way to end: the
`ValueError` of `int()`; it is kept outside `Outcome` so that the generic loop
stays the code's loop -/
inductive Result where
  | out (o : Outcome)
  | intDigitsError
deriving Repr, DecidableEq

/-- lines up to the first marker line (exclusive) -/
def beforeMarker (marker : Line → Bool) : List Line → List Line
  | [] => []
  | l :: ls => if marker l then [] else l :: beforeMarker marker ls

def parse (a : Adapter) (faulty : Bool) (inv : Nat) (text : List Char) : Result :=
  let ls := splitLines text
  match a with
  | .rebenchLog => .out (collect (cfgRebenchLog faulty) inv ls)
  | .plainSeconds => .out (collect (cfgPlainSeconds faulty) inv ls)
  | .validation =>
    -- an over-long counter raises before any later marker line is reached
    if (beforeMarker (cfgValidation faulty).marker ls).any actorsOverlong then .intDigitsError
    else .out (collect (cfgValidation faulty) inv ls)
  | .timeFormatted => .out (collect (cfgTimeFormatted faulty) inv ls)
  | .savina => .out (collectFresh (cfgSavina faulty) inv ls)
  | .jmh => .out (collectFresh (cfgJMH faulty) inv ls)
  | .timeP => .out (collectTimeP (checkForError faulty []) classifyTimeP inv ls)

/-! ## the pinned tree's behaviour where it was repaired (kept for the witnesses) -/

/-- `jmh_adapter.py:47-48` of the pinned tree: `return data_points` at `Run complete` -/
def freshLoopOld (cfg : FreshCfg) (inv : Nat) : List Line → Nat → List DP → Outcome
  | [], _, done => finish done
  | l :: ls, it, done =>
    if cfg.stop l then .ok (done.map (·.ms))
    else if cfg.marker l then .invalid
    else match cfg.classify l with
      | none => freshLoopOld cfg inv ls it done
      | some (u, v) =>
        match DP.empty.add { invocation := inv, iteration := it, criterion := totalName, unit := u, value := v } with
        | .error e => .crash e
        | .ok p => freshLoopOld cfg inv ls (it + 1) (done ++ [p])

def parseJMHOld (faulty : Bool) (inv : Nat) (text : List Char) : Outcome :=
  freshLoopOld { stop := reRunComplete.search, marker := checkForError faulty [],
                 classify := classifyJMHWith reJMHOld } inv (splitLines text) 1 []

/-- `savina_log_adapter.py` of the pinned tree: no marker check -/
def parseSavinaOld (_faulty : Bool) (inv : Nat) (text : List Char) : Outcome :=
  collectFresh { stop := noStop, marker := fun _ => false, classify := classifySavina } inv (splitLines text)

end RB.Adapters
