/-
Model of `-r` (rewrite of a data file without the selected runs' measurements)
and `-c` (truncation), C14.

* `filterFrom`: `_FilePersistence._process_lines` with a target file
  (persistence.py:270-352, profile variant 447-463): which lines are copied.
* an abstract file system with inodes, names, one buffered write handle;
  `rename` inside a file system vs copy + unlink across file systems.
* `rewriteOps`: the operations `load_data` performs (persistence.py:253-260),
  `crashStates`: the data file's on-disk content after every prefix of them.

`RVariant.pinned` is the pinned tree, `RVariant.repaired` the tree after the
`fix:` commits. Imports only the loader model.
-/
import RB.Model.Loader

namespace RB.Rewrite
open RB.Loader

/-! ## The filter -/

structure RVariant where
  /-- the column header line is copied (pinned: skipped) -/
  copyHeader : Bool
  /-- profile variant of `_parse_data_line` returns a pair for filtered lines (pinned: one value → TypeError) -/
  profileReturnsPair : Bool
  /-- temp file created in the data file's directory, closed, then `os.replace` (pinned: temp dir,
  `os.unlink` + `shutil.move` while the temp file is open) -/
  atomicReplace : Bool
  /-- the temp file is closed before it is moved (second repair on its own) -/
  closeBeforeMove : Bool
  deriving Repr, DecidableEq

def RVariant.pinned : RVariant := ⟨false, false, false, false⟩
def RVariant.repaired : RVariant := ⟨true, true, true, true⟩

/-- a line of the old file with its classification -/
structure FLine where
  text : Text          -- the line including its newline
  cls : Rec
  deriving Repr, DecidableEq

/-- how a `-r` load ends other than normally -/
inductive FEnd
  | uiError
  | crash (e : Exc)
  | typeError          -- profile variant: `data_point, previous_run_id = <ProfileData>`
  deriving Repr, DecidableEq

def ofEnd : End → FEnd
  | .uiError => .uiError
  | .crash e => .crash e

/-- the run a measurement line belongs to, under a table of run ids -/
def lineRun (runs : List Nat) : Rec → Option Nat
  | .meas m => runs[m.runIdx]?
  | _ => none

/-- is the line a measurement of a selected run? -/
def selectedLine (runs : List Nat) (sel : List Nat) (r : Rec) : Bool :=
  match lineRun runs r with
  | some k => sel.contains k
  | none => false

def damaged : Rec → Bool
  | .dataErr _ => true
  | _ => false

/-- one line of `_process_lines` with a target file: the new loader state and whether the line is copied -/
def fstep (lv : Variant) (rv : RVariant) (profile : Bool) (sel : List Nat) (st : LState) (l : FLine) :
    Except FEnd (LState × Bool) :=
  match l.cls with
  | .header => .ok (st, rv.copyHeader)
  | .dataErr e => match tolerate true st e with
      | .ok st' => .ok (st', false)          -- the exception is raised before the line is written
      | .error e => .error (ofEnd e)
  | .meas m =>
      match st.runs[m.runIdx]? with
      | none => .error .uiError
      | some k =>
        if sel.contains k then
          (if profile && !rv.profileReturnsPair then .error .typeError else .ok (st, false))
        else match stepMeas st m with
          | .ok st' => .ok (st', true)
          | .error e => .error (ofEnd e)
  | r => match step lv st r with           -- `#` lines are written before they are parsed
      | .ok st' => .ok (st', true)
      | .error e => .error (ofEnd e)

def filterFrom (lv : Variant) (rv : RVariant) (profile : Bool) (sel : List Nat) (st : LState) :
    List FLine → Except FEnd (LState × List Text)
  | [] => .ok (st, [])
  | l :: ls => match fstep lv rv profile sel st l with
    | .error e => .error e
    | .ok (st', keep) => match filterFrom lv rv profile sel st' ls with
      | .error e => .error e
      | .ok (st'', out) => .ok (st'', if keep then l.text :: out else out)

/-- classification for the filter: `profile` says which `_parse_data_line` is at work; a `pl`
without profile decoder is given the one that accepts every JSON column (pinned loader) -/
def classifyP (profile : Bool) (pl : Payloads) (hdr : Text) (l : Line) : Rec :=
  classify (if profile then { pl with profile := some (pl.profile.getD (fun _ => true)) }
            else { pl with profile := none }) hdr l

/-- the lines of a text as the filter sees them (unterminated last line: dropped by the
repaired loader before anything is written) -/
def flines (lv : Variant) (profile : Bool) (pl : Payloads) (hdr : Text) (t : Text) : List FLine :=
  ((fileLines t).filter (fun l => l.terminated || !lv.skipUnterminated)).map
    (fun l => ⟨if l.terminated then l.content ++ ['\n'] else l.content, classifyP profile pl hdr l⟩)

/-! ## An abstract file system -/

inductive Name | data | tmp
  deriving Repr, DecidableEq

/-- inodes hold the on-disk content; names point to inodes; one buffered write handle -/
structure FS where
  inodes : List Text
  data : Option Nat
  tmp : Option Nat
  handle : Option (Nat × Text)     -- inode, user-space buffer
  cap : Nat                        -- buffer capacity
  deriving Repr, DecidableEq

def FS.lookup (fs : FS) : Name → Option Nat
  | .data => fs.data
  | .tmp => fs.tmp

def FS.bind (fs : FS) (n : Name) (i : Option Nat) : FS :=
  match n with
  | .data => { fs with data := i }
  | .tmp => { fs with tmp := i }

/-- on-disk content behind a name -/
def FS.content (fs : FS) (n : Name) : Option Text :=
  match fs.lookup n with
  | some i => fs.inodes[i]?
  | none => none

def setAt (l : List Text) (i : Nat) (t : Text) : List Text := l.set i t

def FS.flushH (fs : FS) : FS :=
  match fs.handle with
  | some (i, buf) => { fs with inodes := setAt fs.inodes i ((fs.inodes[i]?.getD []) ++ buf), handle := some (i, []) }
  | none => fs

inductive Op
  | create (n : Name)            -- new empty file under `n`, opened for writing (NamedTemporaryFile)
  | write (t : Text)
  | close
  | unlink (n : Name)
  | rename (src dst : Name)      -- within one file system (`os.rename` / `os.replace`)
  | copyMove (src dst : Name)    -- across file systems (`shutil.move`: copy the on-disk bytes, unlink the source)
  | truncate (n : Name)          -- `open(n, "w")` + close
  deriving Repr, DecidableEq

def FS.apply (fs : FS) : Op → FS
  | .create n =>
      let i := fs.inodes.length
      { (fs.bind n (some i)) with inodes := fs.inodes ++ [[]], handle := some (i, []) }
  | .write t =>
      match fs.handle with
      | some (i, buf) =>
          let fs' := { fs with handle := some (i, buf ++ t) }
          if (buf ++ t).length > fs.cap then fs'.flushH else fs'
      | none => fs
  | .close => { fs.flushH with handle := none }
  | .unlink n => fs.bind n none
  | .rename s d => (fs.bind d (fs.lookup s)).bind s none
  | .copyMove s d =>
      let i := fs.inodes.length
      { ((fs.bind d (some i)).bind s none) with inodes := fs.inodes ++ [(fs.content s).getD []] }
  | .truncate n =>
      match fs.lookup n with
      | some i => { fs with inodes := setAt fs.inodes i [] }
      | none => let i := fs.inodes.length
                { (fs.bind n (some i)) with inodes := fs.inodes ++ [[]] }

def FS.run (fs : FS) (ops : List Op) : FS := ops.foldl FS.apply fs

/-- a file system holding only the data file -/
def FS.start (old : Text) (cap : Nat) : FS := ⟨[old], some 0, none, none, cap⟩

/-- the operations of the rewrite, in the order the code performs them (persistence.py:253-260) -/
def rewriteOps (rv : RVariant) (sameFs : Bool) (out : List Text) : List Op :=
  let writes := out.map Op.write
  let move := if sameFs then Op.rename .tmp .data else Op.copyMove .tmp .data
  if rv.atomicReplace then
    [.create .tmp] ++ writes ++ [.close, .rename .tmp .data]      -- temp file next to the data file
  else if rv.closeBeforeMove then
    [.create .tmp] ++ writes ++ [.close, .unlink .data, move]
  else
    [.create .tmp] ++ writes ++ [.unlink .data, move, .close]

/-- on-disk content of the data file after each prefix of the operations (a kill there),
the empty prefix and the whole list included -/
def crashStates (fs : FS) : List Op → List (Option Text)
  | [] => [fs.content .data]
  | o :: os => fs.content .data :: crashStates (fs.apply o) os

/-- `-c`: every data file of the selected experiments is truncated when its persistence object is
created (persistence.py:202-224) -/
def cleanOps (files : List Name) : List Op := files.map Op.truncate

/-! ## several data files rewritten by one `-r` -/

/-- several data files, one temporary file at a time, one buffered write handle -/
structure MFS where
  inodes : List Text
  datas : List (Option Nat)        -- data file j ↦ inode
  tmp : Option Nat
  handle : Option (Nat × Text)
  cap : Nat
  deriving Repr, DecidableEq

/-- the operations of the repaired rewrite (persistence.py:253-262), on data file `i` -/
inductive MOp
  | create                 -- NamedTemporaryFile in the data file's directory
  | write (t : Text)
  | close
  | replace (i : Nat)      -- os.replace(temp, data file i)
  deriving Repr, DecidableEq

def MFS.flushH (fs : MFS) : MFS :=
  match fs.handle with
  | some (i, buf) => { fs with inodes := fs.inodes.set i ((fs.inodes[i]?.getD []) ++ buf), handle := some (i, []) }
  | none => fs

def MFS.apply (fs : MFS) : MOp → MFS
  | .create =>
      { fs with inodes := fs.inodes ++ [[]], tmp := some fs.inodes.length, handle := some (fs.inodes.length, []) }
  | .write t =>
      match fs.handle with
      | some (i, buf) =>
          let fs' := { fs with handle := some (i, buf ++ t) }
          if (buf ++ t).length > fs.cap then fs'.flushH else fs'
      | none => fs
  | .close => { fs.flushH with handle := none }
  | .replace i => { fs with datas := fs.datas.set i fs.tmp, tmp := none }

def MFS.run (fs : MFS) (ops : List MOp) : MFS := ops.foldl MFS.apply fs

/-- on-disk contents of all data files -/
def MFS.contents (fs : MFS) : List (Option Text) :=
  fs.datas.map (fun d => match d with | some n => fs.inodes[n]? | none => none)

def MFS.start (olds : List Text) (cap : Nat) : MFS :=
  ⟨olds, (List.range olds.length).map some, none, none, cap⟩

/-- one file's rewrite -/
def fileOps (i : Nat) (out : List Text) : List MOp :=
  [.create] ++ out.map MOp.write ++ [.close, .replace i]

/-- the rewrites of one `-r` session: the data files that persist a selected run, one after the
other (`DataStore.load_data`, persistence.py:54-56) -/
def multiOps (rws : List (Nat × List Text)) : List MOp := rws.flatMap (fun p => fileOps p.1 p.2)

/-- contents of all data files after each prefix of the operations -/
def mcrashStates (fs : MFS) : List MOp → List (List (Option Text))
  | [] => [fs.contents]
  | o :: os => fs.contents :: mcrashStates (fs.apply o) os

/-- the files switched to their new content so far -/
def switched (cs : List (Option Text)) (rws : List (Nat × List Text)) : List (Option Text) :=
  rws.foldl (fun l p => l.set p.1 (some p.2.flatten)) cs

end RB.Rewrite
