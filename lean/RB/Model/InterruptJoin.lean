/-
The interrupt handler of `ParallelScheduler._process_remaining_runs`
(`rebench/executor.py`): after Ctrl-C it waits for the worker threads one after the
other before the KeyboardInterrupt propagates (close the data files, restore denoise,
final reports, exit).

What a wait can observe of a worker:
* `running`   — the worker still executes `BenchmarkThread.run` (ground truth; the
                repaired code exposes its negation as the event `finished`);
* `marked`    — CPython believes the thread has stopped.  An interrupted
                `Thread.join()` sets this for the joined thread although it is still
                running (`Thread._wait_for_tstate_lock`, CPython 3.12).
`join()` returns when the worker is not running **or** is marked; `finished.wait()`
returns only when it is not running.  Workers never start again.
-/
namespace RB.InterruptJoin

structure Worker where
  running : Bool
  marked : Bool
deriving Repr, DecidableEq

inductive Wait where
  | join        -- pinned tree: `thread.join()`
  | event       -- repaired tree: `thread.finished.wait()`
deriving Repr, DecidableEq

/-- may the wait for `w` return now? -/
def Wait.returns (k : Wait) (w : Worker) : Bool :=
  match k with
  | .join => !w.running || w.marked
  | .event => !w.running

/-- `pc` = number of workers the handler has finished waiting for -/
structure State where
  workers : List Worker
  pc : Nat
deriving Repr, DecidableEq

inductive Step where
  | finish (i : Nat)   -- worker `i` reaches the end of `run()` (at any time, in any order)
  | advance            -- the wait for worker `pc` returns and the handler goes to the next one
deriving Repr, DecidableEq

def finishAt : List Worker → Nat → List Worker
  | [], _ => []
  | w :: ws, 0 => { w with running := false } :: ws
  | w :: ws, i + 1 => w :: finishAt ws i

/-- one step; `none` = the step is not enabled -/
def step (k : Wait) (s : State) : Step → Option State
  | .finish i => some { s with workers := finishAt s.workers i }
  | .advance =>
    match s.workers[s.pc]? with
    | some w => if k.returns w then some { s with pc := s.pc + 1 } else none
    | none => none

def exec (k : Wait) : State → List Step → Option State
  | s, [] => some s
  | s, st :: r =>
    match step k s st with
    | some s' => exec k s' r
    | none => none

/-- the handler has returned: it has waited for every worker -/
def State.handlerDone (s : State) : Bool := s.pc == s.workers.length

end RB.InterruptJoin
