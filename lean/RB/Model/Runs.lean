/-
C01 — which runs are scheduled: the configured cross product, filtered,
with equal runs interned.

Mirrors
* `rebench/configurator.py:88-125` (_RunFilter), `:364-377` (experiment selection), `:346-350` (get_runs: union)
* `rebench/model/experiment.py:73-125` (_compile_runs, _compile_executors_and_benchmark_suites, _compile_benchmarks)
* `rebench/persistence.py:88-114` (create_run_id normalisation and interning)
* the `__eq__` field lists of RunId, Benchmark, BenchmarkSuite, Executor, ExpRunDetails, ExpVariables
  (`rebench/model/*.py`), which decide when two experiments share a run.

Static attributes that the code only compares (description, action, path,
executable, args, build of an executor; command, location, description, build
of a suite; command, extra_args of a benchmark) are one opaque code each.
Run details reuse the C02 model (`RB.Settings`).
-/
import RB.Model.Settings

namespace RB.Runs
open RB.Settings

/-- a YAML scalar as it occurs in a variable list (Python equality: a string
never equals an integer) -/
inductive Val where
  | none
  | int (n : Int)
  | str (s : String)
deriving Repr, DecidableEq

/-- variable lists one level may define -/
structure VarsCfg where
  inputSizes     : Option (List Val) := .none
  cores          : Option (List Val) := .none
  variableValues : Option (List Val) := .none
  tags           : Option (List Val) := .none
deriving Repr, DecidableEq

/-- accumulated variable lists (`ExpVariables`) -/
structure VarsEff where
  inputSizes     : List Val
  cores          : List Val
  variableValues : List Val
  tags           : List Val
deriving Repr, DecidableEq

/-- `ExpVariables.empty()` -/
def VarsEff.empty : VarsEff :=
  { inputSizes := [.str ""], cores := [.int 1], variableValues := [.str ""], tags := [.none] }

/-- `ExpVariables.compile(config, defaults)` -/
def compileVarsL (c : VarsCfg) (d : VarsEff) : VarsEff :=
  { inputSizes     := c.inputSizes.getD d.inputSizes
    cores          := c.cores.getD d.cores
    variableValues := c.variableValues.getD d.variableValues
    tags           := c.tags.getD d.tags }

structure BenchCfg where
  name   : String
  static : Nat
  level  : Level
  vars   : VarsCfg
deriving Repr

structure SuiteCfg where
  name   : String
  static : Nat
  level  : Level
  vars   : VarsCfg
  benchmarks : List BenchCfg
deriving Repr

structure ExecutorCfg where
  name   : String
  static : Nat
  level  : Level
  vars   : VarsCfg
deriving Repr

/-- one entry of an experiment's `executions:` — a name, or a name with details -/
structure Execution where
  executor  : String
  ownSuites : Option (List String)
  level     : Level
  vars      : VarsCfg
deriving Repr

structure Experiment where
  name       : String
  executions : List Execution
  suites     : List String
  level      : Level
  vars       : VarsCfg
deriving Repr

structure Config where
  machineName : Val            -- `none` when no machine is selected
  machineLevel : Level         -- the selected machine's settings (empty when none)
  machineVars  : VarsCfg
  runs        : Level
  executors   : List ExecutorCfg
  suites      : List SuiteCfg
  experiments : List Experiment
  defaultExperiment : Option String
  defaults    : Details        -- `ExpRunDetails.default(...)`
  invOverride : Option Nat
  itOverride  : Option Nat
deriving Repr

/-- command-line selection -/
structure Sel where
  expName      : Option String                    -- experiment named on the command line
  execFilters  : List String                      -- e:NAME
  suiteFilters : List (String × Option String)    -- s:SUITE  /  s:SUITE:BENCH  (SUITE may be "*")
  tagFilters   : List String                      -- t:TAG
deriving Repr

/-! ### identity of a run: exactly the fields the `__eq__` methods compare -/

structure ExecKey where
  name    : String
  static  : Nat
  details : Details      -- executor-level run details (unresolved marks)
  vars    : VarsEff
deriving Repr, DecidableEq

structure SuiteKey where
  name     : String
  static   : Nat
  executor : ExecKey
deriving Repr, DecidableEq

structure BenchKey where
  name    : String
  static  : Nat
  details : Details      -- resolved: overrides applied, marks stripped
  vars    : VarsEff
  suite   : SuiteKey
deriving Repr, DecidableEq

structure RunKey where
  bench   : BenchKey
  cores   : Val
  input   : Val
  var     : Val
  tag     : Val
  machine : Val
deriving Repr, DecidableEq

/-! ### normalisation done by `create_run_id` -/

def isDigitStr (s : String) : Bool := !s.isEmpty && s.toList.all Char.isDigit

/-- `int(s)` for an ASCII digit string -/
def digitsValue (s : String) : Nat := s.toList.foldl (fun a c => a * 10 + (c.toNat - 48)) 0

/-- a digit string for `cores` becomes an int -/
def normCores : Val → Val
  | .str s => if isDigitStr s then .int (digitsValue s) else .str s
  | v => v

/-- an empty string for input size / variable value / machine becomes none -/
def normEmpty : Val → Val
  | .str s => if s.isEmpty then .none else .str s
  | v => v

/-! ### filters (`_RunFilter`) -/

/-- or within a group; an empty group matches everything -/
def group {α : Type} (fs : List α) (p : α → Bool) : Bool := fs.isEmpty || fs.any p

def suiteFilterMatches (f : String × Option String) (suite bench : String) : Bool :=
  (f.1 == "*" || f.1 == suite) &&
  (match f.2 with
   | .none => true
   | .some b => b == bench)

def appliesToBench (sel : Sel) (executor suite bench : String) : Bool :=
  group sel.execFilters (fun f => f == executor) &&
  group sel.suiteFilters (fun f => suiteFilterMatches f suite bench)

def appliesToTag (sel : Sel) (t : Val) : Bool :=
  group sel.tagFilters (fun f => t == .str f)

/-! ### compilation -/

def toRaw : Option Nat → Raw
  | .none => .absent
  | .some n => .plain n

/-- `resolve_override_and_important` on the benchmark's details -/
def resolveDetails (d : Details) (io ito : Option Nat) : Details :=
  { d with invocations := toRaw (resolve io d.invocations)
           iterations  := toRaw (resolve ito d.iterations)
           warmup      := toRaw (resolve .none d.warmup) }

def selectedName (cfg : Config) (sel : Sel) : String :=
  sel.expName.getD (cfg.defaultExperiment.getD "all")

/-- `_compile_experiments` -/
def selected (cfg : Config) (sel : Sel) : List Experiment :=
  if selectedName cfg sel == "all" then cfg.experiments
  else cfg.experiments.filter (fun e => e.name == selectedName cfg sel)

def baseDetails (cfg : Config) : Details :=
  compileDetails cfg.runs (compileDetails cfg.machineLevel cfg.defaults)

def baseVars (cfg : Config) : VarsEff := compileVarsL cfg.machineVars VarsEff.empty

def lookupExecutor (cfg : Config) (n : String) : Option ExecutorCfg := cfg.executors.find? (fun e => e.name == n)
def lookupSuite (cfg : Config) (n : String) : Option SuiteCfg := cfg.suites.find? (fun s => s.name == n)

def execKey (cfg : Config) (e : Experiment) (x : Execution) (ex : ExecutorCfg) : ExecKey :=
  { name := ex.name, static := ex.static
    details := compileDetails ex.level (compileDetails x.level (compileDetails e.level (baseDetails cfg)))
    vars := compileVarsL ex.vars (compileVarsL x.vars (compileVarsL e.vars (baseVars cfg))) }

def suitesFor (e : Experiment) (x : Execution) : List String := x.ownSuites.getD e.suites

def benchKey (cfg : Config) (ek : ExecKey) (s : SuiteCfg) (b : BenchCfg) : BenchKey :=
  { name := b.name, static := b.static
    details := resolveDetails (compileDetails b.level (compileDetails s.level ek.details))
                 cfg.invOverride cfg.itOverride
    vars := compileVarsL b.vars (compileVarsL s.vars ek.vars)
    suite := { name := s.name, static := s.static, executor := ek } }

def mkRun (cfg : Config) (bk : BenchKey) (c i v t : Val) : RunKey :=
  { bench := bk, cores := normCores c, input := normEmpty i, var := normEmpty v, tag := t,
    machine := normEmpty cfg.machineName }

/-- the four nested loops of `_compile_runs` for one benchmark -/
def runsOfBench (cfg : Config) (sel : Sel) (bk : BenchKey) : List RunKey :=
  bk.vars.cores.flatMap fun c =>
  bk.vars.inputSizes.flatMap fun i =>
  bk.vars.variableValues.flatMap fun v =>
  (bk.vars.tags.filter (appliesToTag sel)).map fun t => mkRun cfg bk c i v t

def runsOfSuite (cfg : Config) (sel : Sel) (ek : ExecKey) (s : SuiteCfg) : List RunKey :=
  (s.benchmarks.filter (fun b => appliesToBench sel ek.name s.name b.name)).flatMap
    fun b => runsOfBench cfg sel (benchKey cfg ek s b)

def runsOfExecution (cfg : Config) (sel : Sel) (e : Experiment) (x : Execution) : List RunKey :=
  match lookupExecutor cfg x.executor with
  | .none => []
  | .some ex =>
    (suitesFor e x).flatMap fun sn =>
      match lookupSuite cfg sn with
      | .none => []
      | .some s => runsOfSuite cfg sel (execKey cfg e x ex) s

def runsOfExperiment (cfg : Config) (sel : Sel) (e : Experiment) : List RunKey :=
  e.executions.flatMap (runsOfExecution cfg sel e)

/-- interning: equal runs are one run -/
def dedup {α : Type} [DecidableEq α] : List α → List α
  | [] => []
  | x :: xs => if x ∈ dedup xs then dedup xs else x :: dedup xs

/-- `Configurator.get_runs()` -/
def scheduled (cfg : Config) (sel : Sel) : List RunKey :=
  dedup ((selected cfg sel).flatMap (runsOfExperiment cfg sel))

end RB.Runs
