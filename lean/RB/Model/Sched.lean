/-
Model of a ReBench session over several runs (C04 shared clause, C10, C11).

Mirrors
* `rebench/executor.py:136-198`  the batch / round-robin / random scheduler loops
* `rebench/executor.py:459-472`  `without_missing_binaries`
* `rebench/executor.py:372-388`  `_build_executor_and_suite` / `_process_builds`
* `rebench/executor.py:474-526`  `execute_run`, `_get_gauge_adapter_instance`
* `rebench/executor.py:652-666`  `Executor.execute` (session result)
* `rebench/rebench.py:302-353`   scheduler selection, exit codes
* `rebench/configurator.py:88-111` `_RunFilter` (which filter expressions are accepted)
* `rebench/model/run_id.py:89-99,343-362` (`executable` is set when the command line is built)

Part 1 is an abstract scheduler (any sequence of picks over independent per-run
step functions); part 2 the concrete sequential schedulers with the two ways
runs interact (a missing executable, a shared build).

Imports nothing outside core Lean (and the Termination model).
-/
import RB.Model.Termination

namespace RB.Sched
open RB.Term

/-! ## Part 1 — abstract scheduler -/

/-- independent per-run step functions: `step r s` = one scheduling step of run
`r` in local state `s`; `done r s` = the scheduler does not pick `r` any more -/
structure Sys (σ ε : Type) where
  step : Nat → σ → σ × List ε
  done : Nat → σ → Bool

variable {σ ε : Type}

def upd (g : Nat → σ) (r : Nat) (s : σ) : Nat → σ := fun q => if q = r then s else g q

/-- execute a pick sequence on the global state; events are tagged with the run -/
def exec (S : Sys σ ε) (g : Nat → σ) : List Nat → (Nat → σ) × List (Nat × ε)
  | [] => (g, [])
  | r :: ps =>
    let a := S.step r (g r)
    let b := exec S (upd g r a.1) ps
    (b.1, a.2.map (fun e => (r, e)) ++ b.2)

/-- run `r` alone, stepped `k` times -/
def solo (S : Sys σ ε) (r : Nat) : Nat → σ → σ × List ε
  | 0, s => (s, [])
  | k + 1, s =>
    let a := S.step r s
    let b := solo S r k a.1
    (b.1, a.2 ++ b.2)

/-- the events of run `r` in a tagged trace -/
def proj (r : Nat) (tr : List (Nat × ε)) : List ε := (tr.filter (fun p => p.1 == r)).map (·.2)

/-- a scheduler only picks unfinished runs -/
def valid (S : Sys σ ε) (g : Nat → σ) : List Nat → Bool
  | [] => true
  | r :: ps => !S.done r (g r) && valid S (upd g r (S.step r (g r)).1) ps

/-- … and ends when none of `runs` is left -/
def complete (S : Sys σ ε) (g : Nat → σ) (runs : List Nat) (ps : List Nat) : Bool :=
  runs.all (fun r => S.done r ((exec S g ps).1 r))

/-! ## Part 2 — the concrete session -/

/-- static description of a run -/
structure RunCfg where
  cfg : Cfg
  exe : Nat                 -- which executable its command line starts with
  adapterKnown : Bool := true
  builds : List Nat := []   -- build commands in the order executor, suite (de-duplicated ids)
deriving Repr, Inhabited

/-- dynamic state of a run during one session -/
structure RunSt where
  t : St := {}
  script : List Outcome := []   -- what its next started processes will do
  cmdBuilt : Bool := false      -- `RunId.executable` has been set (`_construct_cmdline` ran)
  pending : Bool := false       -- its process is running (only used by the half-step system)
deriving Repr, Inhabited

/-- what a process does once the script is exhausted: exit 1 without output -/
def defaultOutcome : Outcome := .exit 1 false 0

def nextOutcome : List Outcome → Outcome × List Outcome
  | [] => (defaultOutcome, [])
  | o :: os => (o, os)

structure Conf where
  run : Nat → RunCfg
  doBuilds : Bool := true
  buildOk : Nat → Bool := fun _ => true

/-- `execute_run` for a run without builds: adapter lookup, command line, check,
one process, check (executor.py:474-513) -/
def runStep (rc : RunCfg) (s : RunSt) : RunSt × List Ev :=
  if rc.adapterKnown = false then
    ({ s with t := { s.t with failNow := true } }, [])
  else if shouldTerminate rc.cfg s.t then
    ({ s with cmdBuilt := true }, [])
  else
    let o := nextOutcome s.script
    let a := apply rc.cfg s.t o.1
    ({ s with t := a.1, script := o.2, cmdBuilt := true }, a.2)

/-- `execute_run` returned True -/
def runDone (rc : RunCfg) (s : RunSt) : Bool :=
  (rc.adapterKnown = false && s.t.failNow) || (rc.adapterKnown && shouldTerminate rc.cfg s.t)

/-- the runs of a configuration as an abstract system (full `execute_run` steps) -/
def runSys (cf : Conf) : Sys RunSt Ev where
  step r s := runStep (cf.run r) s
  done r s := runDone (cf.run r) s

/-- half steps for concurrent execution: the first pick of an idle run starts
its process (`start` event, then the worker blocks), the next pick is the end of
that process (outcome consumed, data recorded, termination checked) -/
def halfStep (rc : RunCfg) (s : RunSt) : RunSt × List Ev :=
  if rc.adapterKnown = false then
    ({ s with t := { s.t with failNow := true } }, [])
  else if s.pending then
    let o := nextOutcome s.script
    let a := apply rc.cfg s.t o.1
    ({ s with t := a.1, script := o.2, pending := false }, a.2.drop 1)
  else if shouldTerminate rc.cfg s.t then
    ({ s with cmdBuilt := true }, [])
  else
    ({ s with cmdBuilt := true, pending := true }, [.start (s.t.maxInv + 1)])

def halfDone (rc : RunCfg) (s : RunSt) : Bool := !s.pending && runDone rc s

def halfSys (cf : Conf) : Sys RunSt Ev where
  step r s := halfStep (cf.run r) s
  done r s := halfDone (cf.run r) s

/-- global state: the runs and the status of every build command
(`none` = not attempted, `some ok`) -/
structure G where
  rs : Nat → RunSt
  bst : Nat → Option Bool := fun _ => none

def updB (b : Nat → Option Bool) (i : Nat) (v : Option Bool) : Nat → Option Bool :=
  fun j => if j = i then v else b j

/-- `_process_builds` for the build commands of one run, in order.
Returns the new build table, whether all are built, and the builds run. -/
def doBuilds (buildOk : Nat → Bool) : (Nat → Option Bool) → List Nat → (Nat → Option Bool) × Bool × List Nat
  | b, [] => (b, true, [])
  | b, i :: is =>
    match b i with
    | some true => doBuilds buildOk b is
    | some false => (b, false, [])
    | none =>
      if buildOk i then
        let r := doBuilds buildOk (updB b i (some true)) is
        (r.1, r.2.1, i :: r.2.2)
      else (updB b i (some false), false, [i])

structure StepRes where
  g : G
  completed : Bool
  failedBuilding : Bool
  evs : List Ev

/-- `execute_run` on the global state (executor.py:474-513) -/
def execRun (cf : Conf) (g : G) (r : Nat) : StepRes :=
  let rc := cf.run r
  let s := g.rs r
  if rc.adapterKnown = false ∨ cf.doBuilds = false ∨ rc.builds = [] ∨ shouldTerminate rc.cfg s.t = true then
    let a := runStep rc s
    { g := { g with rs := upd g.rs r a.1 }, completed := runDone rc a.1, failedBuilding := false, evs := a.2 }
  else
    let b := doBuilds cf.buildOk g.bst rc.builds
    let bevs := b.2.2.map Ev.build
    if b.2.1 = false then
      -- `fail_immediately`, `FailedBuilding` is raised: the scheduler drops the run
      { g := { rs := upd g.rs r { s with cmdBuilt := true, t := { s.t with failNow := true } }, bst := b.1 },
        completed := false, failedBuilding := true, evs := bevs }
    else
      let a := runStep rc s
      { g := { rs := upd g.rs r a.1, bst := b.1 }, completed := runDone rc a.1, failedBuilding := false,
        evs := bevs ++ a.2 }

/-- `has_same_executable` (run_id.py:99-106, repaired): the runs are compared by
the path and executable configured for their executors, whether or not they
have been started -/
def sameExe (cf : Conf) (_g : G) (r q : Nat) : Bool :=
  (cf.run q).exe == (cf.run r).exe

/-- the pinned tree compared `RunId.executable`, which is `None` until the
command line of a run has been built: only runs started before compared equal -/
def sameExePinned (cf : Conf) (g : G) (r q : Nat) : Bool :=
  (g.rs q).cmdBuilt && (cf.run q).exe == (cf.run r).exe

/-- `without_missing_binaries` (executor.py:492-506): runs of the task list with
the same executable are marked to fail immediately and removed -/
def withoutMissing (cf : Conf) (r : Nat) : G → List Nat → G × List Nat
  | g, [] => (g, [])
  | g, q :: qs =>
    if sameExe cf g r q then
      let s := g.rs q
      withoutMissing cf r { g with rs := upd g.rs q { s with t := { s.t with failNow := true } } } qs
    else
      let a := withoutMissing cf r g qs
      (a.1, q :: a.2)

inductive Kind where
  | batch | roundRobin | random
deriving Repr, DecidableEq

/-- which run the scheduler takes next: the head, or `random.choice` (the choice
stream gives the index) -/
def pick (k : Kind) (tasks : List Nat) (c : Nat) : Nat :=
  match k with
  | .random => tasks.getD (c % tasks.length) 0
  | _ => tasks.headD 0

/-- the task list after a step that did not complete the run -/
def requeue (k : Kind) (tasks : List Nat) (r : Nat) : List Nat :=
  match k with
  | .roundRobin => tasks.erase r ++ [r]
  | _ => tasks

structure Res where
  g : G
  trace : List (Nat × Ev)
  picks : List Nat
  finished : Bool     -- the task list became empty (false: the choice stream ran out)

/-- the scheduler's bookkeeping after `execute_run` on `r` (executor.py:143-154,
163-175, 184-197): a run whose build failed is dropped; a completed run is
removed, and if its executable is missing the others are filtered; an
uncompleted run stays (batch, random) or moves to the end (round-robin) -/
def nextOf (cf : Conf) (k : Kind) (tasks : List Nat) (r : Nat) (a : StepRes) : G × List Nat :=
  if a.failedBuilding then (a.g, tasks.erase r)
  else if a.completed then
    if (a.g.rs r).t.exeMissing then withoutMissing cf r a.g (tasks.erase r) else (a.g, tasks.erase r)
  else (a.g, requeue k tasks r)

/-- the scheduler loop; one element of the choice stream per `execute_run` -/
def seqLoop (cf : Conf) (k : Kind) : G → List Nat → List Nat → Res
  | g, [], _ => { g := g, trace := [], picks := [], finished := true }
  | g, _ :: _, [] => { g := g, trace := [], picks := [], finished := false }
  | g, t :: ts, c :: cs =>
    let r := pick k (t :: ts) c
    let a := execRun cf g r
    let next := nextOf cf k (t :: ts) r a
    let b := seqLoop cf k next.1 next.2 cs
    { g := b.g, trace := a.evs.map (fun e => (r, e)) ++ b.trace, picks := r :: b.picks, finished := b.finished }

/-- `_filter_out_completed_runs` (executor.py:75-77) -/
def uncompleted (cf : Conf) (g : G) (order : List Nat) : List Nat :=
  order.filter (fun r => !shouldTerminate (cf.run r).cfg (g.rs r).t)

/-- a sequential session: runs in the order the run set is iterated -/
def session (cf : Conf) (k : Kind) (g : G) (order : List Nat) (choices : List Nat) : Res :=
  seqLoop cf k g (uncompleted cf g order) choices

/-! ### the shared-executable clause of C04 as a predicate on a session -/

def isStartOf (q : Nat) (p : Nat × Ev) : Bool :=
  p.1 == q && (match p.2 with | .start _ => true | _ => false)

/-- the part of the trace after the last start of run `r` -/
def afterLastStart (r : Nat) (tr : List (Nat × Ev)) : List (Nat × Ev) :=
  (tr.reverse.takeWhile (fun p => !isStartOf r p)).reverse

/-- "exit status 127 abandons at once … every other run using the same
executable": when run `r` ended with a missing executable (its last start
returned 127), no other run with the same executable is started afterwards -/
def sharedAbandon (cf : Conf) (res : Res) (runs : List Nat) : Bool :=
  runs.all (fun r => runs.all (fun q =>
    if r ≠ q ∧ (cf.run r).exe = (cf.run q).exe ∧ (res.g.rs r).t.exeMissing = true then
      !(afterLastStart r res.trace).any (isStartOf q)
    else true))

/-! ### the parallel scheduler's work distribution (C11) -/

/-- `ParallelScheduler._number_of_threads` (executor.py:238-241) as pinned:
`int(floor(cpu_count() / 2.5))` — zero for two cores -/
def numThreadsPinned (cpu : Nat) : Nat := (2 * cpu) / 5

/-- … repaired: at least one worker thread -/
def numThreads (cpu : Nat) : Nat := max 1 ((2 * cpu) / 5)

/-- `_determine_num_work_items_to_take` (executor.py:282-288): `max(1, floor(k / threads))` -/
def perThread (threads k : Nat) : Nat := max 1 (k / threads)

/-- `acquire_work` (executor.py:293-303): `None` when nothing is left, else
`per_thread` runs popped from the end of the shared list (so the chunk is the
reversed tail). Returns the chunk and what remains. -/
def acquire (threads : Nat) (rem : List Nat) : Option (List Nat × List Nat) :=
  if rem = [] then none
  else
    let num := perThread threads rem.length
    some ((rem.drop (rem.length - num)).reverse, rem.take (rem.length - num))

/-- the chunks handed out by successive `acquire_work` calls (whichever worker
thread makes them); `fuel` bounds the number of calls -/
def chunksAux (threads : Nat) : Nat → List Nat → List (List Nat)
  | 0, _ => []
  | fuel + 1, rem =>
    match acquire threads rem with
    | none => []
    | some (c, rest) => c :: chunksAux threads fuel rest

def chunks (threads : Nat) (rem : List Nat) : List (List Nat) := chunksAux threads rem.length rem

/-- everything the worker threads are handed: nothing when there is no worker thread -/
def handout (threads : Nat) (rem : List Nat) : List (List Nat) :=
  if threads = 0 then [] else chunks threads rem

/-! ### the data file as lines (C11) -/

/-- one line of the data file: run, invocation, iteration, index of the
criterion within the data point (a data point has `crit` lines, the total last) -/
structure Line where
  run : Nat
  inv : Nat
  it : Nat
  crit : Nat
deriving Repr, DecidableEq

/-- the lines of one data point, written under the file lock (persistence.py:416-424) -/
def dpLines (crit : Nat) (r inv it : Nat) : List Line :=
  (List.range crit).map (fun c => { run := r, inv := inv, it := it, crit := c })

/-- the lines one `record` event appends: its data points one after the other -/
def recordLines (crit : Nat) (r inv dps : Nat) : List Line :=
  (List.range dps).flatMap (fun j => dpLines crit r inv (j + 1))

/-- the data file a trace leaves behind -/
def fileLines (crit : Nat) : List (Nat × Ev) → List Line
  | [] => []
  | (r, .record inv dps) :: es => recordLines crit r inv dps ++ fileLines crit es
  | _ :: es => fileLines crit es

/-! ### session result and exit status -/

inductive Status where
  | ok | failed | aborted | uiError | crash
deriving Repr, DecidableEq

/-- `Executor.execute` (executor.py:658-663), with the repaired decision: a run
counts as failed when fewer invocations are recorded than configured -/
def sessionOk (cf : Conf) (faulty : Bool) (g : G) (all : List Nat) : Bool :=
  faulty || all.all (fun r => decide ((g.rs r).t.maxInv ≥ (cf.run r).cfg.N))

/-- the decision of the pinned tree: `is_failed` starts true and is cleared only
by a success of this session (run_id.py:91,211-213) -/
def sessionOkPinned (faulty : Bool) (g : G) (all : List Nat) : Bool :=
  faulty || all.all (fun r => (g.rs r).t.succeeded)

/-- command-line usage: which scheduler name, filter expressions, experiment and
machine names were given -/
inductive FilterExpr where
  | exec (parts : Nat)    -- `e:…` split at ':' into `parts` pieces (≥ 2)
  | suite (parts : Nat)   -- `s:…`
  | tag (parts : Nat)     -- `t:…`
deriving Repr, DecidableEq

/-- configurator.py:96-111 -/
def filterOk : FilterExpr → Bool
  | .exec _ => true
  | .suite n => n == 2 || n == 3
  | .tag n => n == 2

structure Usage where
  schedKnown : Bool := true
  filters : List FilterExpr := []
  expKnown : Bool := true
  machineKnown : Bool := true
deriving Repr

/-- a positional argument after the configuration file -/
inductive Arg where
  | filter (f : FilterExpr)   -- starts with `e:`, `s:` or `t:`
  | name (known : Bool)       -- anything else: taken for an experiment name, which exists or not
deriving Repr, DecidableEq

/-- `determine_exp_name_and_filters` (rebench.py:224-233): the first argument is
the experiment name unless it has a filter prefix (no name: the default
experiment); every argument with a filter prefix is a filter expression;
further arguments without one are not looked at -/
def expKnownOf : List Arg → Bool
  | .name k :: _ => k
  | _ => true

def filtersOf : List Arg → List FilterExpr
  | [] => []
  | .filter f :: as => f :: filtersOf as
  | .name _ :: as => filtersOf as

def usageOfArgs (args : List Arg) (schedKnown machineKnown : Bool) : Usage :=
  { schedKnown := schedKnown, filters := filtersOf args, expKnown := expKnownOf args, machineKnown := machineKnown }

/-- what a usage error ends in (repaired tree: always the user-facing error, exit 3).
Order as in `ReBench.run`: configuration (experiment, machine, filters) first,
the scheduler when the experiment is executed. -/
def usageStatus (u : Usage) : Option Status :=
  if u.machineKnown = false then some .uiError
  else if u.filters.all filterOk = false then some .uiError
  else if u.expKnown = false then some .uiError
  else if u.schedKnown = false then some .uiError
  else none

/-- the pinned tree: malformed filter → RuntimeError, unknown scheduler → TypeError -/
def usageStatusPinned (u : Usage) : Option Status :=
  if u.machineKnown = false then some .uiError
  else if u.filters.all filterOk = false then some .crash
  else if u.expKnown = false then some .uiError
  else if u.schedKnown = false then some .crash
  else none

def countStarts (tr : List (Nat × Ev)) : Nat :=
  (tr.filter (fun p => match p.2 with | .start _ => true | _ => false)).length

/-- cut a trace right after its `k`-th start (the user interrupts while that process runs) -/
def cutAfterStart : Nat → List (Nat × Ev) → List (Nat × Ev)
  | 0, _ => []
  | _, [] => []
  | k + 1, (r, .start i) :: es => (r, .start i) :: (if k = 0 then [] else cutAfterStart k es)
  | k + 1, e :: es => e :: cutAfterStart (k + 1) es

structure SessionOut where
  status : Status
  trace : List (Nat × Ev)
  final : Option G     -- `none` when nothing was executed or the session was interrupted

/-- `main_func` (rebench.py:332-351): usage errors, user abort at the `stopAt`-th
start, otherwise the result of `Executor.execute` -/
def mainFunc (cf : Conf) (u : Usage) (k : Kind) (faulty : Bool) (g : G) (order : List Nat)
    (choices : List Nat) (stopAt : Option Nat) : SessionOut :=
  match usageStatus u with
  | some st => { status := st, trace := [], final := none }
  | none =>
    let r := session cf k g order choices
    match stopAt with
    | some n =>
      if n ≥ 1 ∧ n ≤ countStarts r.trace then
        { status := .aborted, trace := cutAfterStart n r.trace, final := none }
      else
        { status := if sessionOk cf faulty r.g order then .ok else .failed, trace := r.trace, final := some r.g }
    | none =>
      { status := if sessionOk cf faulty r.g order then .ok else .failed, trace := r.trace, final := some r.g }

end RB.Sched
