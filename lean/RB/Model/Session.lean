/-
C06 / C08 — a whole ReBench session over the data-file model.

Mirrors `rebench/rebench.py:296-300` (load, then execute),
`rebench/executor.py:75-81,124-178` (completed runs filtered out; batch,
round-robin and random schedulers), `executor.py:371-383,474-520` (builds,
`execute_run`), `executor.py:524-645` (`_generate_data_point`, `_eval_output`),
`model/termination_check.py:56-73`, `model/run_id.py:253-269`.

Effects are events: every process start (build or benchmark invocation) is
appended to `trace`.  A *stop point* `k` ends the session while the k-th
process is running (Ctrl-C, SIGTERM, SIGKILL all leave the same file contents:
ReBench is blocked in a join, everything written before was flushed).

Outcomes considered: an invocation delivers data points or fails (non-zero
exit other than 127, unparsable output); a build succeeds or exits non-zero.
Exit 127 and `OSError` are the subject of C04 / C13.

Imports nothing outside core Lean (and the data-file model).
-/
import RB.Model.DataFile

namespace RB.Session
open RB.DataFile

/-- what of a configured run matters here -/
structure RunC (κ : Type) where
  key : κ
  invocations : Nat
  retries : Nat          -- retries_after_failure
  warmup : Nat
  files : List Nat       -- the data files (by index) of the experiments containing the run
  builds : List Nat      -- executor build, then suite build (by build-command identity)
deriving Repr

/-- `RunId._max_invocation`, sample count, and the session-local `TerminationCheck` -/
structure RunSt where
  m : Nat
  samples : Nat
  consec : Nat
  failed : Nat
  failImm : Bool
deriving DecidableEq, Repr

/-- a deterministic harness: the output is a function of run and invocation number -/
structure Harness where
  out : Nat → Nat → Option (List (List Meas))   -- `none`: the invocation fails
  buildOk : Nat → Bool

/-- what a benchmark process did: its exit code and the data points its output parses to (none if unparsable) -/
structure RawOut where
  rc : Int
  dps : List (List Meas)

/-- `_generate_data_point`: is the output of this invocation evaluated and recorded?  Exit 127 never;
a non-zero exit only with `--faulty`, or when it is the time-out code (-9) and the run ignores time-outs;
and the output has to parse to at least one data point -/
def recordedOutcome (faulty ignoreTimeouts : Bool) (o : RawOut) : Bool :=
  decide (o.rc ≠ 127) && (decide (o.rc = 0) || faulty || (decide (o.rc = -9) && ignoreTimeouts)) && ! o.dps.isEmpty

/-- the deterministic harness as the session sees it, from what the processes do -/
def harnessOf (faulty : Bool) (ignoreTimeouts : Nat → Bool) (raw : Nat → Nat → Option RawOut)
    (buildOk : Nat → Bool) : Harness :=
  { out := fun i t => match raw i t with
      | some o => if recordedOutcome faulty (ignoreTimeouts i) o then some o.dps else none
      | none => none,
    buildOk := buildOk }

inductive Ev where
  | build (b : Nat)
  | start (r inv : Nat)
deriving DecidableEq, Repr

structure St (κ β : Type) where
  files : List (FP κ β)
  runs : List RunSt
  builds : List (Nat × Bool)     -- session-local: `is_built` / `build_failed`
  trace : List Ev
deriving Repr

/-- `TerminationCheck.should_terminate` -/
def terminated {κ : Type} (c : RunC κ) (s : RunSt) : Bool :=
  s.failImm
  || (decide (0 < s.consec) && decide (c.retries ≤ s.consec))
  || decide (6 < s.failed)
  || (decide (10 < s.samples) && decide (s.samples < 2 * s.failed))
  || decide (c.invocations ≤ s.m)

inductive BuildRes where
  | ok | failed | interrupted
deriving DecidableEq, Repr

inductive StepRes where
  | again | done | interrupted
deriving DecidableEq, Repr

section
variable {κ β : Type} [DecidableEq κ] [DecidableEq β] (benchOf : κ → β)

/-- `_build_executor_and_suite` / `_process_builds` / `_execute_build_cmd` -/
def doBuilds (H : Harness) (stop : Option Nat) : List Nat → St κ β → St κ β × BuildRes
  | [], s => (s, .ok)
  | b :: bs, s =>
    match s.builds.lookup b with
    | some true => doBuilds H stop bs s
    | some false => (s, .failed)
    | none =>
      let s1 := { s with trace := s.trace ++ [.build b] }
      if stop = some s1.trace.length then (s1, .interrupted)
      else if H.buildOk b then doBuilds H stop bs { s1 with builds := (b, true) :: s1.builds }
      else ({ s1 with builds := (b, false) :: s1.builds }, .failed)

/-- `RunId.add_data_point` for one data point: every persistence of the run -/
def persistAll (c : RunC κ) (dp : DP) (files : List (FP κ β)) : List (FP κ β) :=
  c.files.foldl (fun fs f => fs.modify f (persist benchOf c.key dp)) files

/-- `_eval_output`: data points numbered from 1 (the adapters' numbering), each written with its total last -/
def recordDPs (c : RunC κ) (inv : Nat) : Nat → List (List Meas) → List (FP κ β) → List (FP κ β)
  | _, [], files => files
  | j, ms :: rest, files =>
    recordDPs c inv (j + 1) rest (persistAll benchOf c { inv := inv, it := j + 1, ms := totalLast ms } files)

def setRun (s : St κ β) (i : Nat) (r : RunSt) : St κ β := { s with runs := s.runs.set i r }

def dfltRun : RunSt := { m := 0, samples := 0, consec := 0, failed := 0, failImm := false }

/-- `Executor.execute_run` for run `i` -/
def step (cfg : List (RunC κ)) (H : Harness) (stop : Option Nat) (s : St κ β) (i : Nat) :
    St κ β × StepRes :=
  match cfg[i]? with
  | none => (s, .done)
  | some c =>
    let rs := s.runs.getD i dfltRun
    if terminated c rs then (s, .done)
    else
      match doBuilds H stop c.builds s with
      | (s1, .interrupted) => (s1, .interrupted)
      | (s1, .failed) => (setRun s1 i { rs with failImm := true }, .done)   -- FailedBuilding
      | (s1, .ok) =>
        let inv := rs.m + 1
        let s2 := { s1 with trace := s1.trace ++ [.start i inv] }
        if stop = some s2.trace.length then (s2, .interrupted)
        else
          match H.out i inv with
          | some dps =>
            let rs' := { rs with m := if dps.isEmpty then rs.m else max rs.m inv,
                                 samples := rs.samples + (dps.length - c.warmup), consec := 0 }
            let s3 := setRun { s2 with files := recordDPs benchOf c inv 0 dps s2.files } i rs'
            (s3, if terminated c rs' then .done else .again)
          | none =>
            let rs' := { rs with consec := rs.consec + 1, failed := rs.failed + 1 }
            (setRun s2 i rs', if terminated c rs' then .done else .again)

/-- How a sequential scheduler treats its task list: which task is taken
(`choice` is the next element of the choice stream, used by the random
scheduler only) and where an unfinished task goes. -/
inductive Sched where
  | batch | roundRobin | random
deriving DecidableEq, Repr

def Sched.pickIdx : Sched → List Nat → Nat → Nat
  | .random, tasks, c => c % tasks.length
  | _, _, _ => 0

def Sched.requeue : Sched → Nat → List Nat → List Nat
  | .roundRobin, idx, tasks => tasks.eraseIdx idx ++ (match tasks[idx]? with | some t => [t] | none => [])
  | _, _, tasks => tasks

/-- the scheduler loop; `fuel` bounds the number of `execute_run` calls -/
def loop (cfg : List (RunC κ)) (H : Harness) (stop : Option Nat) (sched : Sched) :
    Nat → List Nat → List Nat → St κ β → St κ β × Option Bool
  | 0, _, _, s => (s, none)                   -- out of fuel (does not happen, see `fuelFor`)
  | _ + 1, _, [], s => (s, some false)         -- all tasks done: complete
  | fuel + 1, choices, t :: ts, s =>
    let tasks := t :: ts
    let idx := sched.pickIdx tasks (choices.headD 0)
    let i := tasks.getD idx t
    match step benchOf cfg H stop s i with
    | (s', .interrupted) => (s', some true)
    | (s', .done) => loop cfg H stop sched fuel choices.tail (tasks.eraseIdx idx) s'
    | (s', .again) => loop cfg H stop sched fuel choices.tail (sched.requeue idx tasks) s'

/-- enough fuel: every `execute_run` that does not finish a run adds an
invocation or a failure, and more than 6 failures abandon the run -/
def fuelFor (cfg : List (RunC κ)) : Nat := (cfg.map (fun c => c.invocations + 9)).sum + 1

/-- `RunId.is_first_copy`: of the data points of run `k` loaded from a file, those whose
(invocation, iteration) was already loaded from an earlier file are the same data points -/
def newInFile (k : κ) (seen : List (Nat × Nat)) (ls : List (Loaded κ)) : List (Loaded κ) :=
  ls.filter (fun l => l.k = k ∧ (l.inv, l.it) ∉ seen)

def countedLoaded (k : κ) : List (Nat × Nat) → List (List (Loaded κ)) → List (List (Loaded κ))
  | _, [] => []
  | seen, ls :: rest =>
      newInFile k seen ls :: countedLoaded k (seen ++ (newInFile k seen ls).map (fun l => (l.inv, l.it))) rest

/-- state of a new session: every file is loaded (in the order of the files),
progress is restored per run: `_max_invocation` is the maximum, a data point
counts as a sample once, however many of the run's files contain it -/
def initRun (c : RunC κ) (loaded : List (List (Loaded κ))) : RunSt :=
  { m := (loaded.map (maxInv c.key)).foldl max 0,
    samples := ((countedLoaded c.key [] loaded).map (sampleCount c.key c.warmup)).sum,
    consec := 0, failed := 0, failImm := false }

inductive SessionEnd where
  | complete | interrupted | outOfFuel | loadError (e : LoadErr)
deriving DecidableEq, Repr

structure SessionResult (κ β : Type) where
  ending : SessionEnd
  contents : List (List (Line κ β))
  trace : List Ev
  runs : List RunSt              -- at the end
  loadedRuns : List RunSt        -- right after loading
deriving Repr

def loadAllWith (ld : List (Line κ β) → Except LoadErr (Tables κ β × List (Loaded κ))) :
    List (List (Line κ β)) → Except LoadErr (List (FP κ β × List (Loaded κ)))
  | [] => .ok []
  | c :: cs =>
    match ld c with
    | .error e => .error e
    | .ok (t, ls) =>
      match loadAllWith ld cs with
      | .error e => .error e
      | .ok rest => .ok ((FP.ofTables c t, ls) :: rest)

def loadAll (rtK : κ → κ) (rtB : β → β) :
    List (List (Line κ β)) → Except LoadErr (List (FP κ β × List (Loaded κ))) :=
  loadAllWith (load rtK rtB)

/-- one session, given how the files are loaded: `order` is the iteration order of the run set -/
def sessionWith (ldAll : List (List (Line κ β)) → Except LoadErr (List (FP κ β × List (Loaded κ))))
    (cfg : List (RunC κ)) (H : Harness) (sched : Sched)
    (order : List Nat) (choices : List Nat) (stop : Option Nat)
    (contents : List (List (Line κ β))) : SessionResult κ β :=
  match ldAll contents with
  | .error e => { ending := .loadError e, contents := contents, trace := [], runs := [], loadedRuns := [] }
  | .ok loaded =>
    let runs0 := cfg.map (fun c => initRun c (loaded.map (·.2)))
    let s0 : St κ β := { files := loaded.map (·.1), runs := runs0, builds := [], trace := [] }
    let tasks := order.filter (fun i => match cfg[i]? with
                                        | some c => ! terminated c (runs0.getD i dfltRun)
                                        | none => false)
    let r := loop benchOf cfg H stop sched (fuelFor cfg) choices tasks s0
    { ending := match r.2 with | some true => .interrupted | some false => .complete | none => .outOfFuel,
      contents := r.1.files.map (·.content), trace := r.1.trace, runs := r.1.runs, loadedRuns := runs0 }

/-- one session with the abstract loader -/
def session (rtK : κ → κ) (rtB : β → β) (cfg : List (RunC κ)) (H : Harness) (sched : Sched)
    (order : List Nat) (choices : List Nat) (stop : Option Nat)
    (contents : List (List (Line κ β))) : SessionResult κ β :=
  sessionWith benchOf (loadAll rtK rtB) cfg H sched order choices stop contents

/-- one session reading the files at text level (`loadT`) -/
def sessionT (colsOf : κ → List (List Char)) (rtK : κ → κ) (rtB : β → β) (cfg : List (RunC κ)) (H : Harness)
    (sched : Sched) (order : List Nat) (choices : List Nat) (stop : Option Nat)
    (contents : List (List (Line κ β))) : SessionResult κ β :=
  sessionWith benchOf (loadAllWith (loadT colsOf rtK rtB)) cfg H sched order choices stop contents

/-- a history of sessions on the same files -/
def sessions (rtK : κ → κ) (rtB : β → β) (cfg : List (RunC κ)) (H : Harness) :
    List (Sched × List Nat × List Nat × Option Nat) → List (List (Line κ β)) →
    List (SessionResult κ β)
  | [], _ => []
  | (sched, order, choices, stop) :: rest, contents =>
    let r := session benchOf rtK rtB cfg H sched order choices stop contents
    r :: sessions rtK rtB cfg H rest r.contents

/-- a history of sessions reading the files at text level -/
def sessionsT (colsOf : κ → List (List Char)) (rtK : κ → κ) (rtB : β → β) (cfg : List (RunC κ)) (H : Harness) :
    List (Sched × List Nat × List Nat × Option Nat) → List (List (Line κ β)) →
    List (SessionResult κ β)
  | [], _ => []
  | (sched, order, choices, stop) :: rest, contents =>
    let r := sessionT benchOf colsOf rtK rtB cfg H sched order choices stop contents
    r :: sessionsT colsOf rtK rtB cfg H rest r.contents

/-- a history in which some sessions are started with `-c` / `--clean`: `_FilePersistence.__init__`
truncates the data file before anything of it is read (persistence.py, `discard_old_data`), so such a
session starts from empty files -/
def sessionsClean (colsOf : κ → List (List Char)) (rtK : κ → κ) (rtB : β → β) (cfg : List (RunC κ)) (H : Harness) :
    List (Bool × Sched × List Nat × List Nat × Option Nat) → List (List (Line κ β)) →
    List (List (List (Line κ β)) × SessionResult κ β)       -- (contents the session started from, result)
  | [], _ => []
  | (clean, sched, order, choices, stop) :: rest, contents =>
    let c0 := if clean then contents.map (fun _ => []) else contents
    let r := sessionT benchOf colsOf rtK rtB cfg H sched order choices stop c0
    (c0, r) :: sessionsClean colsOf rtK rtB cfg H rest r.contents

end

/-! ## Vocabulary of the C08 statements -/

/-- length of the longest prefix `1..j` (`j ≤ n`) on which `f` holds throughout -/
def prefLen (f : Nat → Bool) : Nat → Nat
  | 0 => 0
  | n + 1 => if prefLen f n = n ∧ f (n + 1) = true then n + 1 else prefLen f n

/-- invocation `t` of run `i` delivers data -/
def delivers (H : Harness) (i t : Nat) : Bool :=
  match H.out i t with
  | some dps => ! dps.isEmpty
  | none => false

/-- `K r`: how many invocations of run `i` get recorded in the end — the
longest prefix of `1..N` that all deliver data, or none if a build of the run fails -/
def recordedInTheEnd {κ : Type} (H : Harness) (c : RunC κ) (i : Nat) : Nat :=
  if c.builds.all H.buildOk then prefLen (delivers H i) c.invocations else 0

/-- the data points of one invocation as `_eval_output` numbers them (from `j + 1`) -/
def numberDPs (inv : Nat) : Nat → List (List Meas) → List DP
  | _, [] => []
  | j, ms :: rest => { inv := inv, it := j + 1, ms := totalLast ms } :: numberDPs inv (j + 1) rest

/-- the measurement rows (run, invocation, iteration, measurement) of invocation `inv` of run `i` -/
def rowsOf {κ : Type} (cfg : List (RunC κ)) (H : Harness) (i inv : Nat) : List (κ × Nat × Nat × Meas) :=
  match cfg[i]?, H.out i inv with
  | some c, some dps => (numberDPs inv 0 dps).flatMap (dpProj c.key)
  | _, _ => []

/-- the rows of invocations `1..m` of run `i`, in order -/
def expectedRows {κ : Type} (cfg : List (RunC κ)) (H : Harness) (i m : Nat) : List (κ × Nat × Nat × Meas) :=
  (List.range m).flatMap (fun t => rowsOf cfg H i (t + 1))

/-- the measurement rows of a file -/
def measRows {κ β : Type} (c : List (Line κ β)) : List (κ × Nat × Nat × Meas) := c.filterMap measProj

/-- configurations considered: distinct run identities, every run recorded in at least one of the
`nfiles` data files, each file listed once -/
structure CfgOK {κ : Type} (cfg : List (RunC κ)) (nfiles : Nat) : Prop where
  keys : (cfg.map (·.key)).Nodup
  files : ∀ c ∈ cfg, c.files ≠ [] ∧ c.files.Nodup ∧ ∀ f ∈ c.files, f < nfiles

/-- every data point a harness delivers has a `total` whose value `float()` can read (what every adapter builds) -/
def HarnessOK (H : Harness) : Prop :=
  ∀ i t dps, H.out i t = some dps → ∀ ms ∈ dps, ∃ m ∈ ms, m.crit = "total" ∧ m.value.loads = true

end RB.Session
