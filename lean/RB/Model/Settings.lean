/-
C02 — effective settings: priority chain, `!` marks, CLI overrides.

Mirrors
* `rebench/model/__init__.py:23-48`   prefer_important / is_marked_important / remove_important
* `rebench/model/exp_run_details.py:43-66,165-176`  ExpRunDetails.compile / resolve_override_and_important
* `rebench/model/exp_variables.py:26-31`  ExpVariables.compile
* the nesting of the `compile` calls: `configurator.py:203-263` (machine, runs),
  `experiment.py:31-54,94-119` (experiment, execution entry), `model/executor.py:34-58`,
  `benchmark_suite.py:32-49`, `benchmark.py:34-52`.

Values of the plain settings and of the variable lists are opaque codes
(`Nat`): the code only ever copies them.
-/
namespace RB.Settings

/-- a YAML value of `invocations` / `iterations` / `warmup` at one level:
absent, an unmarked number (`3` or `"3"`), or a number marked important (`"3!"`) -/
inductive Raw where
  | absent
  | plain (n : Nat)
  | marked (n : Nat)
deriving Repr, DecidableEq

def Raw.isMarked : Raw → Bool
  | .marked _ => true
  | _ => false

def Raw.isDefined : Raw → Bool
  | .absent => false
  | _ => true

/-- `prefer_important(val, default)` -/
def preferImportant (val dflt : Raw) : Raw :=
  match val with
  | .absent => dflt
  | .marked n => .marked n
  | .plain n => if dflt.isMarked then dflt else .plain n

/-- `remove_important` -/
def removeImportant : Raw → Option Nat
  | .absent => none
  | .plain n => some n
  | .marked n => some n

/-- levels from lowest to highest priority, folded onto the default -/
def chain (ls : List Raw) (d : Raw) : Raw := ls.foldl (fun acc l => preferImportant l acc) d

/-- `resolve_override_and_important`: a CLI override replaces the chained value -/
def resolve (override : Option Nat) (r : Raw) : Option Nat :=
  match override with
  | some o => some o
  | none => removeImportant r

def effective (override : Option Nat) (ls : List Raw) (d : Raw) : Option Nat :=
  resolve override (chain ls d)

/-- every other detail and every variable list: `config.get(key, default)` -/
def pick (v d : Option Nat) : Option Nat :=
  match v with
  | some x => some x
  | none => d

def chainPlain (ls : List (Option Nat)) (d : Option Nat) : Option Nat :=
  ls.foldl (fun acc l => pick l acc) d

/-- what one configuration level may say -/
structure Level where
  invocations : Raw := .absent
  iterations  : Raw := .absent
  warmup      : Raw := .absent
  minIterationTime   : Option Nat := none
  maxInvocationTime  : Option Nat := none
  ignoreTimeouts     : Option Nat := none
  retriesAfterFailure : Option Nat := none
  executeExclusively : Option Nat := none
  env                : Option Nat := none
  inputSizes     : Option Nat := none
  cores          : Option Nat := none
  variableValues : Option Nat := none
  tags           : Option Nat := none
deriving Repr, DecidableEq

/-- accumulated run details (`ExpRunDetails`) -/
structure Details where
  invocations : Raw
  iterations  : Raw
  warmup      : Raw
  minIterationTime   : Option Nat
  maxInvocationTime  : Option Nat
  ignoreTimeouts     : Option Nat
  retriesAfterFailure : Option Nat
  executeExclusively : Option Nat
  env                : Option Nat
deriving Repr, DecidableEq

/-- accumulated variable lists (`ExpVariables`) -/
structure Vars where
  inputSizes     : Option Nat
  cores          : Option Nat
  variableValues : Option Nat
  tags           : Option Nat
deriving Repr, DecidableEq

/-- `ExpRunDetails.compile(config, defaults)` -/
def compileDetails (c : Level) (d : Details) : Details :=
  { invocations := preferImportant c.invocations d.invocations
    iterations  := preferImportant c.iterations d.iterations
    warmup      := preferImportant c.warmup d.warmup
    minIterationTime   := pick c.minIterationTime d.minIterationTime
    maxInvocationTime  := pick c.maxInvocationTime d.maxInvocationTime
    ignoreTimeouts     := pick c.ignoreTimeouts d.ignoreTimeouts
    retriesAfterFailure := pick c.retriesAfterFailure d.retriesAfterFailure
    executeExclusively := pick c.executeExclusively d.executeExclusively
    env                := pick c.env d.env }

/-- `ExpVariables.compile(config, defaults)` -/
def compileVars (c : Level) (d : Vars) : Vars :=
  { inputSizes     := pick c.inputSizes d.inputSizes
    cores          := pick c.cores d.cores
    variableValues := pick c.variableValues d.variableValues
    tags           := pick c.tags d.tags }

/-- the seven levels of one run -/
structure Config where
  machine   : Level
  runs      : Level
  experiment : Level
  execution : Level
  executor  : Level
  suite     : Level
  benchmark : Level
deriving Repr

/-- the nesting of the compile calls, as the code performs it -/
def compileRunDetails (c : Config) (dflt : Details) : Details :=
  let machine := compileDetails c.machine dflt            -- configurator.py:258
  let base := compileDetails c.runs machine               -- configurator.py:261  (base_run_details)
  let exp := compileDetails c.experiment base             -- experiment.py:43
  let exe := compileDetails c.execution exp               -- experiment.py:104
  let executor := compileDetails c.executor exe           -- model/executor.py:50
  let suite := compileDetails c.suite executor            -- benchmark_suite.py:45
  compileDetails c.benchmark suite                        -- benchmark.py:48

def compileRunVars (c : Config) (dflt : Vars) : Vars :=
  let base := compileVars c.machine dflt                  -- configurator.py:232  (base_variables; no `runs` level)
  let exp := compileVars c.experiment base                -- experiment.py:44
  let exe := compileVars c.execution exp                  -- experiment.py:105
  let executor := compileVars c.executor exe              -- model/executor.py:51
  let suite := compileVars c.suite executor               -- benchmark_suite.py:46
  compileVars c.benchmark suite                           -- benchmark.py:50

/-- what a run finally uses -/
structure Effective where
  invocations : Option Nat
  iterations  : Option Nat
  warmup      : Option Nat
  details     : Details
  vars        : Vars
deriving Repr

def compileRun (c : Config) (dDetails : Details) (dVars : Vars)
    (invOverride itOverride : Option Nat) : Effective :=
  let d := compileRunDetails c dDetails
  { invocations := resolve invOverride d.invocations
    iterations  := resolve itOverride d.iterations
    warmup      := resolve none d.warmup
    details := d
    vars := compileRunVars c dVars }

def Config.levels (c : Config) : List Level :=
  [c.machine, c.runs, c.experiment, c.execution, c.executor, c.suite, c.benchmark]

def Config.varLevels (c : Config) : List Level :=
  [c.machine, c.experiment, c.execution, c.executor, c.suite, c.benchmark]

end RB.Settings
