/-
C13 — build scripts: once, first, in place, failure propagates.

Executable model of
  rebench/model/build_cmd.py            (de-duplication by (script, location), flags)
  rebench/model/executor.py:35-43       (executor build: location = abspath(path))
  rebench/model/benchmark_suite.py:31-37(suite build: location = abspath(location or executor.path))
  rebench/executor.py:372-448           (_build_executor_and_suite, _process_builds, _execute_build_cmd)
  rebench/executor.py:136-196           (Batch / RoundRobin / Random schedulers, FailedBuilding handling)
  rebench/executor.py:198-345           (ParallelScheduler, BenchmarkThread, acquire_work)
  rebench/executor.py:474-513           (execute_run: terminate?, builds, data point)
  rebench/configurator.py:346-362       (--setup-only selection)

Imports nothing outside core Lean.  Benchmark processes are modelled as always
succeeding (their failures are C04's subject); build scripts succeed, fail with a
non-zero return code, or fail with `OSError` at start (directory missing).
-/

namespace RB.Builds

/-- A de-duplicated build command: `BuildCommand.__eq__/__hash__` compare exactly
`command` (the lines joined by "\n") and `location` (build_cmd.py:53-70). Structural
equality of this record *is* the de-duplication key. -/
structure Build where
  script : String
  loc : Option String
deriving DecidableEq, Repr

/-- build_cmd.py:26-39 `BuildCommand.create`: `None`/`[]` give no build. -/
def mkBuild (cmds : List String) (loc : Option String) : Option Build :=
  if cmds.isEmpty then none else some ⟨"\n".intercalate cmds, loc⟩

/-- model/executor.py:35-37 / benchmark_suite.py:35-36:
`if p and not p.startswith("~"): p = os.path.abspath(p)` for simple path names
(no `.`/`..` components, no trailing slash — the generators keep to those). -/
def absPath (cwd : String) (p : Option String) : Option String :=
  match p with
  | none => none
  | some p =>
    if p = "" then some p
    else if p.startsWith "~" || p.startsWith "/" then some p
    else some (cwd ++ "/" ++ p)

/-- `os.path.expanduser` for the forms `~` and `~/…` (the current user's home) -/
def expandUser (home p : String) : String :=
  match p.toList with
  | ['~'] => home
  | '~' :: '/' :: rest => String.ofList (home.toList ++ '/' :: rest)
  | _ => p

/-- executor.py:396-400 (repaired tree): `path = location; if not path or path == ".":
path = os.getcwd() else: path = os.path.expanduser(path)` — the directory the benchmarks of
the suite / executor run in (executor.py `_generate_data_point` expands `~` as well) -/
def dirOf (cwd home : String) (b : Build) : String :=
  match b.loc with
  | none => cwd
  | some p => if p = "" || p = "." then cwd else expandUser home p

/-- the pinned tree did not expand `~` for builds (executor.py:396-398) -/
def dirOfPinned (cwd : String) (b : Build) : String :=
  match b.loc with
  | none => cwd
  | some p => if p = "" || p = "." then cwd else p

abbrev Env := List (String × String)

/-- configuration as far as builds are concerned -/
structure ExecCfg where
  name : String
  path : Option String
  build : List String
  env : Option Env
deriving Repr

structure SuiteCfg where
  name : String
  location : Option String
  build : List String
  env : Option Env
deriving Repr

/-- One run as the executor sees it. `id` identifies the run in events. -/
structure Run where
  id : Nat
  ebuild : Option Build
  sbuild : Option Build
  env : Env
  inv : Nat
  excl : Bool
  /-- invocations already recorded in the data file by earlier sessions
  (`run.completed_invocations` after `load_data`) -/
  done0 : Nat := 0
deriving DecidableEq, Repr

/-- the (at most two) builds a run requires: run_id.py:192-200 `build_commands` -/
def Run.builds (r : Run) : List Build :=
  r.ebuild.toList ++ r.sbuild.toList

/-- The effective environment of a run: `env` is looked up on seven levels — machine,
`runs`, experiment, execution details, executor, suite, benchmark — each
`ExpRunDetails.compile` doing `config.get('env', defaults.env)` (exp_run_details.py:58):
the innermost level that defines `env` *replaces* what the outer ones say; the default is
the empty environment. `levels` lists the levels from the outermost to the innermost. -/
def lastDefined : List (Option Env) → Option Env
  | [] => none
  | l :: rest => match lastDefined rest with
    | some e => some e
    | none => l

/-- the environment as the processes get it: run_id.py:130-139 expands a leading `~` of
every value (`expand_user(value, False)`, for values that are a single shell word) -/
def expandEnv (home : String) (e : Env) : Env := e.map (fun kv => (kv.1, expandUser home kv.2))

/-- Compile one (executor, suite, benchmark) triple into a run with its builds.
Suite location defaults to the executor's (already absolute) path. `outer` are the `env`
settings of machine, `runs`, experiment and execution details (outermost first), `benchEnv`
the benchmark's own. -/
def mkRun (cwd : String) (id : Nat) (e : ExecCfg) (s : SuiteCfg) (inv : Nat) (excl : Bool)
    (done0 : Nat := 0) (home : String := "/root") (outer : List (Option Env) := [])
    (benchEnv : Option Env := none) : Run :=
  let epath := absPath cwd e.path
  let sloc := match s.location with
    | some l => absPath cwd (some l)
    | none => absPath cwd epath
  { id := id
    ebuild := mkBuild e.build epath
    sbuild := mkBuild s.build sloc
    env := expandEnv home ((lastDefined (outer ++ [e.env, s.env, benchEnv])).getD [])
    inv := inv, excl := excl, done0 := done0 }

/-- result of running a build script -/
inductive BRes | ok | fail | oserr
deriving DecidableEq, Repr

inductive Ev
  | buildStart (b : Build) (cwd : String) (env : Env) (run : Nat)
  | buildEnd (b : Build) (res : BRes)
  | start (run : Nat)
  | finish (run : Nat)
deriving DecidableEq, Repr

structure Cfg where
  cwd : String
  home : String := "/root"
  doBuilds : Bool
  res : Build → BRes
  /-- `true`: the repaired tree (an `OSError` while starting the build script raises
  `FailedBuilding` like a non-zero return code). `false`: the pinned tree
  (executor.py:415-428 marks the build failed and *returns*). -/
  oserrRaises : Bool

/-- session-wide state: the `is_built` / `build_failed` flags (as membership),
the runs marked `fail_immediately`, and the event trace (oldest first). -/
structure St where
  built : List Build := []
  failed : List Build := []
  failImm : List Nat := []
  trace : List Ev := []
deriving Repr

def St.emit (st : St) (e : Ev) : St := { st with trace := st.trace ++ [e] }

def completed (st : St) (r : Nat) : Nat := st.trace.count (Ev.finish r)

/-- termination_check.py:53-71 restricted to what C13 needs:
fail-immediately, or all invocations done (counting those of earlier sessions). -/
def shouldTerminate (st : St) (run : Run) : Bool :=
  decide (run.id ∈ st.failImm) || decide (run.inv ≤ run.done0 + completed st run.id)

/-- executor.py:381-448 `_process_builds` + `_execute_build_cmd`.
Second component: `FailedBuilding` raised. -/
def processBuild (c : Cfg) (st : St) (run : Run) (b : Option Build) : St × Bool :=
  match b with
  | none => (st, false)
  | some b =>
    if b ∈ st.built then (st, false)
    else if b ∈ st.failed then ({ st with failImm := run.id :: st.failImm }, true)
    else
      let st := st.emit (Ev.buildStart b (dirOf c.cwd c.home b) run.env run.id)
      match c.res b with
      | .ok => ({ st.emit (Ev.buildEnd b .ok) with built := b :: st.built }, false)
      | .fail =>
        ({ st.emit (Ev.buildEnd b .fail) with
            failed := b :: st.failed, failImm := run.id :: st.failImm }, true)
      | .oserr =>
        ({ st.emit (Ev.buildEnd b .oserr) with
            failed := b :: st.failed, failImm := run.id :: st.failImm }, c.oserrRaises)

/-- what one call of `execute_run` tells its scheduler -/
inductive R | done | again | failedBuilding
deriving DecidableEq, Repr

/-- executor.py:474-513 `execute_run` (one invocation attempt). -/
def executeRun (c : Cfg) (st : St) (run : Run) : St × R :=
  if shouldTerminate st run then (st, .done)
  else
    let p1 := if c.doBuilds then processBuild c st run run.ebuild else (st, false)
    if p1.2 then (p1.1, .failedBuilding)
    else
      let p2 := if c.doBuilds then processBuild c p1.1 run run.sbuild else (p1.1, false)
      if p2.2 then (p2.1, .failedBuilding)
      else
        let st3 := (p2.1.emit (Ev.start run.id)).emit (Ev.finish run.id)
        (st3, if shouldTerminate st3 run then .done else .again)

inductive Sched | batch | rr | random
deriving DecidableEq, Repr

/-- One iteration of a sequential scheduler's loop over its work list
(executor.py:136-196). `k` is the value `random.choice` draws (ignored by batch
and round-robin). A completed run and a run whose build failed leave the list;
an uncompleted one stays in place (batch, random) or moves to the back (round-robin). -/
def schedStep (c : Cfg) (s : Sched) (k : Nat) (st : St) (work : List Run) : St × List Run :=
  let i := match s with
    | .random => k % work.length
    | _ => 0
  match work[i]? with
  | none => (st, work)
  | some run =>
    let p := executeRun c st run
    match p.2 with
    | .again =>
      match s with
      | .rr => (p.1, work.eraseIdx i ++ [run])
      | _ => (p.1, work)
    | _ => (p.1, work.eraseIdx i)

/-- A sequential session prefix: one scheduler iteration per element of `ks`. -/
def runSteps (c : Cfg) (s : Sched) : List Nat → St → List Run → St × List Run
  | [], st, work => (st, work)
  | k :: ks, st, work =>
    let p := schedStep c s k st work
    runSteps c s ks p.1 p.2

/-- configurator.py:350-361 `--setup-only`: keep a run iff it requires a build no
earlier kept run requires (`if not build_commands >= commands`). `seen` is the
set `build_commands`. -/
def selectSetup (seen : List Build) : List Run → List Run
  | [] => []
  | r :: rs =>
    if r.builds.all (· ∈ seen) then selectSetup seen rs
    else r :: selectSetup (r.builds ++ seen) rs

/-- number of times a build was started -/
def starts (b : Build) (tr : List Ev) : Nat :=
  tr.countP (fun e => match e with | .buildStart b' _ _ _ => b' = b | _ => false)

def isFailed (st : St) (r : Nat) : Bool := !(st.trace.contains (Ev.finish r))

/-! ### Parallel scheduler (executor.py:198-345)

Worker threads interleave at *scheduling points*: the start and the end of a
process (`subprocess_with_timeout.run`) and the acquisition of the build lock.
Everything a worker does between two points is one atomic segment.  -/

/-- where a worker stands -/
inductive PC
  | idle                                   -- between runs / before its first run
  | wantLock (run : Run) (k : Nat)         -- about to take the build lock for build k (0 executor, 1 suite)
  | atBuild (run : Run) (k : Nat) (b : Build)   -- check passed, about to start the script
  | building (run : Run) (k : Nat) (b : Build)  -- script process ended, result not yet marked
  | atStart (run : Run)                    -- about to start the benchmark process
  | running (run : Run)                    -- benchmark process ended, not yet evaluated
  | dead                                   -- no work left: thread finished
deriving DecidableEq, Repr

structure Worker where
  pc : PC := .idle
  local_ : List Run := []      -- the chunk its local sequential scheduler works on
deriving Repr

structure PSt where
  st : St := {}
  lock : Option Nat := none    -- holder of the build lock (repaired tree only)
  remaining : List Run := []   -- `_remaining_work`
  choices : List Nat := []     -- values drawn by `random.choice`
  workers : List Worker := []
deriving Repr

structure PCfg extends Cfg where
  sched : Sched
  /-- `true`: the repaired tree — check, act and mark happen under one lock.
  `false`: the pinned tree — no lock (executor.py:381-388 unsynchronised). -/
  locked : Bool

def Run.buildAt (r : Run) (k : Nat) : Option Build :=
  if k = 0 then r.ebuild else r.sbuild

/-- executor.py:322-326,332-343: `acquire_work` — pop `max(1, ⌊k/n⌋)` runs from the end -/
def acquireWork (n : Nat) (remaining : List Run) : List Run × List Run :=
  let num := max 1 (remaining.length / n)
  ((remaining.reverse.take num), (remaining.reverse.drop num).reverse)

/-- which build (index ≥ k) of the run still needs the slow path: the fast
path `if not build or build.is_built: return` (executor.py:382) -/
def nextBuild (st : St) (run : Run) (k : Nat) : Option (Nat × Build) :=
  let chk (j : Nat) : Option (Nat × Build) :=
    match run.buildAt j with
    | some b => if b ∈ st.built then none else some (j, b)
    | none => none
  if k = 0 then
    match chk 0 with
    | some x => some x
    | none => chk 1
  else if k = 1 then chk 1
  else none

/-- `_process_builds` for the builds ≥ k of `run`, by worker `i`, up to the next
scheduling point: fast path (`is_built`), then — repaired tree — the build lock
(a *contended* acquisition blocks: the worker waits at `wantLock`), the
re-check of `is_built` / `build_failed` under the lock, and the way to the
start of the script. On the pinned tree (`locked = false`) there is no lock
and the flags are checked unsynchronised (executor.py:381-388).
Returns the new shared state, the pc, and whether FailedBuilding was raised. -/
def enterBuilds (c : PCfg) (i : Nat) (ps : PSt) (run : Run) (k : Nat) : PSt × PC × Bool :=
  if !c.doBuilds then (ps, .atStart run, false)
  else
    match nextBuild ps.st run k with
    | none => (ps, .atStart run, false)
    | some (j, b) =>
      if c.locked && ps.lock.isSome then (ps, .wantLock run j, false)
      else if b ∈ ps.st.failed then
        ({ ps with st := { ps.st with failImm := run.id :: ps.st.failImm } }, .idle, true)
      else ({ ps with lock := if c.locked then some i else ps.lock }, .atBuild run j b, false)

/-- the draw of the local random scheduler (`random.choice(task_list)`); batch and
round-robin take the first run -/
def pickLocal (s : Sched) (ps : PSt) (len : Nat) : Nat × PSt :=
  match s with
  | .random => match ps.choices with
    | k :: ks => (k % len, { ps with choices := ks })
    | [] => (0, ps)
  | _ => (0, ps)

/-- the local sequential scheduler picks its next run (or the worker fetches a
new chunk) and runs `execute_run` up to the first scheduling point.
`fuel` bounds the number of runs skipped in one go. -/
def advance (c : PCfg) (n i : Nat) : Nat → PSt → Worker → PSt × Worker
  | 0, ps, w => (ps, { w with pc := .dead })
  | fuel + 1, ps, w =>
    match w.local_ with
    | [] =>
      if ps.remaining.isEmpty then (ps, { w with pc := .dead, local_ := [] })
      else
        let aw := acquireWork n ps.remaining
        advance c n i fuel { ps with remaining := aw.2 } { w with local_ := aw.1 }
    | r0 :: rs0 =>
      let pk := pickLocal c.sched ps (r0 :: rs0).length
      match (r0 :: rs0)[pk.1]? with
      | none => (pk.2, { w with pc := .dead })
      | some run =>
        let others := (r0 :: rs0).eraseIdx pk.1
        if shouldTerminate pk.2.st run then advance c n i fuel pk.2 { w with local_ := others }
        else
          let eb := enterBuilds c i pk.2 run 0
          if eb.2.2 then advance c n i fuel eb.1 { w with local_ := others }
          else (eb.1, { w with pc := eb.2.1 })

def dropRun (run : Run) (l : List Run) : List Run := l.erase run

def requeue (s : Sched) (run : Run) (l : List Run) : List Run :=
  match s with
  | .rr => l.erase run ++ [run]
  | _ => l

def PSt.put (ps : PSt) (i : Nat) (w : Worker) : PSt := { ps with workers := ps.workers.set i w }

/-- builds ≥ k of `run`, then towards the benchmark start; a raised
FailedBuilding makes the local scheduler drop the run and go on -/
def continueWith (c : PCfg) (n fuel i : Nat) (ps : PSt) (w : Worker) (run : Run) (k : Nat) : PSt :=
  let eb := enterBuilds c i ps run k
  if eb.2.2 then
    let a := advance c n i fuel eb.1 { w with local_ := dropRun run w.local_ }
    a.1.put i a.2
  else eb.1.put i { w with pc := eb.2.1 }

/-- one atomic segment of worker `i`. A worker that cannot move (dead, or
waiting for the lock another worker holds) leaves the state unchanged. -/
def pstep (c : PCfg) (n : Nat) (fuel : Nat) (i : Nat) (ps : PSt) : PSt :=
  match ps.workers[i]? with
  | none => ps
  | some w =>
    match w.pc with
    | .dead => ps
    | .idle =>
      let a := advance c n i fuel ps w
      a.1.put i a.2
    | .wantLock run k =>
      match ps.lock with
      | some _ => ps           -- blocked
      | none => continueWith c n fuel i ps w run k
    | .atBuild run k b =>
      -- act: the script process is started and runs to its end
      let st' := ps.st.emit (Ev.buildStart b (dirOf c.cwd c.home b) run.env run.id)
      { ps with st := st' }.put i { w with pc := .building run k b }
    | .building run k b =>
      -- mark, release the lock
      let ps := { ps with lock := if c.locked then none else ps.lock }
      match c.res b with
      | .ok =>
        let st' := { ps.st.emit (Ev.buildEnd b .ok) with built := b :: ps.st.built }
        continueWith c n fuel i { ps with st := st' } w run (k + 1)
      | r =>
        let st' := { ps.st.emit (Ev.buildEnd b r) with
                      failed := b :: ps.st.failed, failImm := run.id :: ps.st.failImm }
        if r = .fail || c.oserrRaises then
          let a := advance c n i fuel { ps with st := st' } { w with local_ := dropRun run w.local_ }
          a.1.put i a.2
        else continueWith c n fuel i { ps with st := st' } w run (k + 1)
    | .atStart run =>
      { ps with st := ps.st.emit (Ev.start run.id) }.put i { w with pc := .running run }
    | .running run =>
      let st' := ps.st.emit (Ev.finish run.id)
      let l := if shouldTerminate st' run then dropRun run w.local_ else requeue c.sched run w.local_
      let a := advance c n i fuel { ps with st := st' } { w with pc := .idle, local_ := l }
      a.1.put i a.2

/-- a parallel session prefix under the schedule `picks` (worker indices) -/
def prun (c : PCfg) (n : Nat) (fuel : Nat) : List Nat → PSt → PSt
  | [], ps => ps
  | i :: is, ps => prun c n fuel is (pstep c n fuel i ps)

/-- executor.py:235-238 `_number_of_threads`: ⌊cpu / 2.5⌋ -/
def numThreads (cpu : Nat) : Nat := (2 * cpu) / 5

/-- executor.py:366-375 `_create_scheduler`: the parallel scheduler is used when
there is more than one CPU and more than one run is not exclusive -/
def useParallel (cpu : Nat) (runs : List Run) : Bool :=
  decide (1 < cpu) && decide (1 < (runs.filter (fun r => !r.excl)).length)

end RB.Builds
