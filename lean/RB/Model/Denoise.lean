/-
C20 — model of how ReBench uses `rebench-denoise`.

Mirrors:
* `rebench/rebench.py:276-294`      `ReBench.run`: `-D`, `try … finally restore_noise`
* `rebench/denoise_client.py:34-132` `minimize_noise` (one `sudo -n denoise … minimize`,
  interpretation of its output)
* `rebench/denoise_client.py:135-163` `restore_noise` (no `sudo` without a result or when
  every reported value is `"failed"`)
* `rebench/executor.py:313-318,347-370` `Executor.__init__` / `_construct_cmdline` (wrapping)
* `rebench/denoise.py:133-139` `_shield_lower_bound`, `_shield_upper_bound`

Effects are events of a trace (`Sudo …`, process start / end); the body of the
session (loading data, executing benchmarks) is a parameter: any trace of
process events with any ending.
-/
namespace RB.Denoise

abbrev Str := List Char

/-! ## 1. the start-up step -/

/-- a value of the JSON object printed by `denoise minimize` -/
inductive JV where
  | failed          -- the string "failed"
  | yes             -- true / a non-empty string such as "performance" or "0-3"
  | no              -- false
deriving DecidableEq, Repr

inductive NonJson where
  | passwordRequired | commandNotFound | sudoMissing | other
deriving DecidableEq, Repr

inductive Ending where
  | ok (b : Bool)      -- `run` returns b (exit 0 / 1)
  | uiError            -- exit 3
  | interrupt          -- KeyboardInterrupt: exit 2
  | crash              -- any other exception: traceback
deriving DecidableEq, Repr

/-- what the `sudo … minimize` call did -/
inductive Report where
  | json (nice shield : Option JV) (others : List JV)
      -- a JSON object: `can_set_nice`, `shielding` (absent = none), the other values
  | nonJson (k : NonJson)          -- output that is not JSON (also from a non-zero exit / missing sudo)
  | raised (e : Ending)            -- `check_output` raised something else (e.g. Ctrl-C during start-up)
deriving DecidableEq, Repr

/-- Python truthiness of `result.get(key, False)` -/
def truthy : Option JV → Bool
  | some .yes => true
  | some .failed => true     -- the non-empty string "failed"
  | _ => false

/-- `DenoiseResult` -/
structure Result where
  succeeded : Bool
  useNice : Bool
  useShielding : Bool
  values : List JV            -- `details.values()`
  msg : Option NonJson        -- which advice the warning text gives (non-JSON case)
deriving DecidableEq, Repr

def valuesOf (nice shield : Option JV) (others : List JV) : List JV :=
  others ++ nice.toList ++ shield.toList

/-- `minimize_noise`: `none` when it raised -/
def minimize : Report → Option Result
  | .json nice shield others =>
    let un := truthy nice
    let us := truthy shield
    let anyFailed := (valuesOf nice shield others).any (· = .failed)
    some { succeeded := un && us && !anyFailed, useNice := un, useShielding := us,
           values := valuesOf nice shield others, msg := none }
  | .nonJson k => some { succeeded := false, useNice := false, useShielding := false, values := [], msg := some k }
  | .raised _ => none

/-- `len(values) == 1 and "failed" in values` for the *set* of values -/
def allFailed (vs : List JV) : Bool := vs ≠ [] && vs.all (· = .failed)

/-- the start-up step changed (or may have changed) a system setting -/
def changed (rep : Report) : Bool :=
  match minimize rep with
  | none => false
  | some res => !allFailed res.values

/-! ## 2. events, body, session -/

inductive BodyEv where
  | start (i : Nat)        -- benchmark process i starts
  | stop (i : Nat)         -- … has ended
  | sudoKill (i : Nat)     -- `sudo … denoise kill pid`
deriving DecidableEq, Repr

structure Body where
  trace : List BodyEv
  ending : Ending
deriving DecidableEq, Repr

inductive Ev where
  | sudoMinimize (profiling : Bool)
  | sudoRestore (withoutShielding withoutNice : Bool)
  | body (e : BodyEv)
deriving DecidableEq, Repr

/-- `restore_noise` -/
def restoreNoise : Option Result → List Ev
  | none => []
  | some res => if allFailed res.values then [] else [.sudoRestore (!res.useShielding) (!res.useNice)]

/-- `ReBench.run` from the point where the runs are known.  `body nice shield`
is what `load_data_and_execute_experiments` does with these capabilities. -/
def session (noDenoise profiling : Bool) (rep : Report) (body : Bool → Bool → Body) :
    List Ev × Ending :=
  if noDenoise then
    let b := body false false
    (b.trace.map .body, b.ending)
  else
    match minimize rep with
    | none =>
      -- the exception of the start-up step propagates; `denoise_result` is still `None`
      ([.sudoMinimize profiling] ++ restoreNoise none,
       match rep with | .raised e => e | _ => .crash)
    | some res =>
      let b := body res.useNice res.useShielding
      ([.sudoMinimize profiling] ++ b.trace.map .body ++ restoreNoise (some res), b.ending)

/-- A signal with the *default* action (SIGTERM without a handler, SIGKILL) ends the process on
the spot: whatever the session had done up to that point (`p` events of the body) stays, nothing
else happens — in particular no `finally`.  ReBench therefore turns SIGTERM into a
`KeyboardInterrupt` (`subprocess_with_timeout.py:21-32`), which is the `interrupt` ending of
`session`; the repaired tree installs that handler before the start-up step. -/
def sessionDies (prof : Bool) (rep : Report) (body : Bool → Bool → Body) (p : Nat) : List Ev :=
  match minimize rep with
  | none => [.sudoMinimize prof]
  | some res => [.sudoMinimize prof] ++ ((body res.useNice res.useShielding).trace.take p).map .body

/-! ## 2b. the parallel scheduler (`executor.py:226-303`)

Worker threads execute benchmarks; the main thread waits for them (`thread.join()`), and it is
the main thread that receives Ctrl-C / SIGTERM and runs the `finally` of `ReBench.run`. -/

/-- next event of worker `i`, if it has one -/
def takeFrom : Nat → List (List BodyEv) → Option (BodyEv × List (List BodyEv))
  | _, [] => none
  | 0, [] :: _ => none
  | 0, (e :: es) :: ws => some (e, es :: ws)
  | i + 1, w :: ws => (takeFrom i ws).map (fun p => (p.1, w :: p.2))

/-- the global order of the workers' events under a schedule (a list of worker indices; picks
of exhausted workers are skipped; when the schedule ends the rest follows worker by worker) -/
def interleave : List Nat → List (List BodyEv) → List BodyEv
  | [], ws => ws.flatten
  | i :: is, ws =>
    match takeFrom i ws with
    | some (e, ws') => e :: interleave is ws'
    | none => interleave is ws

/-- processes started and not yet ended in a body trace, oldest first -/
def openIn : List BodyEv → List Nat → List Nat
  | [], acc => acc
  | .start i :: es, acc => openIn es (acc ++ [i])
  | .stop i :: es, acc => openIn es (acc.filter (· ≠ i))
  | _ :: es, acc => openIn es acc

/-- what the repaired `ParallelScheduler` does when the main thread is interrupted: no further
work is handed out and every running benchmark process is killed (through `sudo … kill` when
the commands are wrapped) before the interrupt propagates -/
def abortTail (wrapped : Bool) (running : List Nat) : List BodyEv :=
  running.flatMap (fun i => (if wrapped then [BodyEv.sudoKill i] else []) ++ [BodyEv.stop i])

/-- the pinned tree: the interrupt reaches only the main thread; the workers are not told and
carry on until all work is done — `restore` is issued in the middle of their events -/
def parSessionPinned (prof : Bool) (rep : Report) (g : Bool → Bool → List BodyEv)
    (interruptAt : Option Nat) (e : Ending) : List Ev × Ending :=
  match minimize rep with
  | none => ([.sudoMinimize prof], match rep with | .raised x => x | _ => .crash)
  | some res =>
    let G := g res.useNice res.useShielding
    match interruptAt with
    | none => ([.sudoMinimize prof] ++ G.map .body ++ restoreNoise (some res), e)
    | some p =>
      ([.sudoMinimize prof] ++ (G.take p).map .body ++ restoreNoise (some res) ++ (G.drop p).map .body,
       .interrupt)

/-- the repaired tree (`fix: … parallel scheduler stops its workers …`) -/
def parSession (prof : Bool) (rep : Report) (g : Bool → Bool → List BodyEv)
    (interruptAt : Option Nat) (e : Ending) : List Ev × Ending :=
  match minimize rep with
  | none => ([.sudoMinimize prof], match rep with | .raised x => x | _ => .crash)
  | some res =>
    let G := g res.useNice res.useShielding
    match interruptAt with
    | none => ([.sudoMinimize prof] ++ G.map .body ++ restoreNoise (some res), e)
    | some p =>
      let pre := G.take p
      ([.sudoMinimize prof] ++ pre.map .body ++
         (abortTail (res.useNice || res.useShielding) (openIn pre [])).map .body ++
         restoreNoise (some res),
       .interrupt)

/-! ## 3. command wrapping -/

def joinWith (sep : Str) : List Str → Str
  | [] => []
  | [w] => w
  | w :: ws => w ++ sep ++ joinWith sep ws

structure WrapCfg where
  useNice : Bool
  useShielding : Bool
  envKeys : List Str          -- keys of the run's env map, in order
  profiling : Bool
  cset : Option Str           -- path of `cset` if it was found
  denoise : Str               -- path of the denoise script
  numCores : Str              -- `str(num_cores)`
deriving Repr

def sSudo : Str := ['s', 'u', 'd', 'o']
def sPreserve : Str := ['-', '-', 'p', 'r', 'e', 's', 'e', 'r', 'v', 'e', '-', 'e', 'n', 'v', '=']
def sWithoutNice : Str := ['-', '-', 'w', 'i', 't', 'h', 'o', 'u', 't', '-', 'n', 'i', 'c', 'e']
def sWithoutShielding : Str := ['-', '-', 'w', 'i', 't', 'h', 'o', 'u', 't', '-', 's', 'h', 'i', 'e', 'l', 'd', 'i', 'n', 'g']
def sCsetPath : Str := ['-', '-', 'c', 's', 'e', 't', '-', 'p', 'a', 't', 'h']
def sForProfiling : Str := ['-', '-', 'f', 'o', 'r', '-', 'p', 'r', 'o', 'f', 'i', 'l', 'i', 'n', 'g']
def sNumCores : Str := ['-', '-', 'n', 'u', 'm', '-', 'c', 'o', 'r', 'e', 's']
def sExec : Str := ['e', 'x', 'e', 'c']
def sDashDash : Str := ['-', '-']

/-- `Executor._construct_cmdline` (`executor.py:347-370`), string concatenation as written -/
def wrap (c : WrapCfg) (cmd : Str) : Str :=
  if c.useNice || c.useShielding then
    sSudo ++ [' '] ++
    (if c.envKeys ≠ [] then sPreserve ++ joinWith [','] c.envKeys ++ [' '] else []) ++
    c.denoise ++ [' '] ++
    (if !c.useNice then sWithoutNice ++ [' '] else []) ++
    (if !c.useShielding then sWithoutShielding ++ [' ']
     else match c.cset with
       | some p => sCsetPath ++ [' '] ++ p ++ [' ']
       | none => []) ++
    (if c.profiling then sForProfiling ++ [' '] else []) ++
    sNumCores ++ [' '] ++ c.numCores ++ [' '] ++
    sExec ++ [' '] ++ sDashDash ++ [' '] ++ cmd
  else cmd

/-- the capability flags of the wrapper -/
def flagWords (c : WrapCfg) : List Str :=
  (if c.useNice then [] else [sWithoutNice]) ++
  (if !c.useShielding then [sWithoutShielding]
   else match c.cset with
     | some p => [sCsetPath, p]
     | none => []) ++
  (if c.profiling then [sForProfiling] else [])

/-- the same as a list of words: what the property says the prefix is -/
def wrapWords (c : WrapCfg) : List Str :=
  [sSudo] ++
  (if c.envKeys ≠ [] then [sPreserve ++ joinWith [','] c.envKeys] else []) ++
  [c.denoise] ++ flagWords c ++
  [sNumCores, c.numCores, sExec, sDashDash]

/-! ### the exec side: `denoise.py … exec -- cmd` (`denoise.py:297-316,352-391`) -/

/-- what `denoise.py`'s argument parser makes of the flag words -/
structure Flags where
  useNice : Bool := true
  useShielding : Bool := true
  csetPath : Option Str := none
  profiling : Bool := false
deriving DecidableEq, Repr

def parseFlags : List Str → Flags → Flags
  | [], f => f
  | [w], f =>
    if w = sWithoutNice then { f with useNice := false }
    else if w = sWithoutShielding then { f with useShielding := false }
    else if w = sForProfiling then { f with profiling := true }
    else f
  | w :: p :: rest, f =>
    if w = sCsetPath then parseFlags rest { f with csetPath := some p }
    else if w = sWithoutNice then parseFlags (p :: rest) { f with useNice := false }
    else if w = sWithoutShielding then parseFlags (p :: rest) { f with useShielding := false }
    else if w = sForProfiling then parseFlags (p :: rest) { f with profiling := true }
    else parseFlags (p :: rest) f

def sShield : Str := ['s', 'h', 'i', 'e', 'l', 'd']
def sDashExec : Str := ['-', '-', 'e', 'x', 'e', 'c']
def sNice : Str := ['n', 'i', 'c', 'e']
def sNiceArg : Str := ['-', 'n', '-', '2', '0']

/-- `_exec`: the argv handed to `execvpe`; `lookup` is the `cset` found on the machine when no
`--cset-path` was given -/
def execArgv (f : Flags) (lookup : Option Str) (cmd : List Str) : List Str :=
  let cset := match f.csetPath with | some p => some p | none => lookup
  (match f.useShielding, cset with
   | true, some p => [p, sShield, sDashExec, sDashDash]
   | _, _ => []) ++
  (if f.useNice then [sNice, sNiceArg] else []) ++ cmd

/-! ## 4. the shield's core range -/

/-- `_shield_lower_bound n = int(floor(log(n)))` — for `1 ≤ n < 8104` the natural
logarithm's floor is the number of `k ≥ 1` with `⌈e^k⌉ ≤ n`
(`⌈e^k⌉` = 3, 8, 21, 55, 149, 404, 1097, 2981, 8104). -/
def shieldLo (n : Nat) : Nat :=
  if n < 3 then 0 else if n < 8 then 1 else if n < 21 then 2 else if n < 55 then 3
  else if n < 149 then 4 else if n < 404 then 5 else if n < 1097 then 6 else if n < 2981 then 7
  else 8

/-- `_shield_upper_bound n = n - 1` -/
def shieldHi (n : Nat) : Nat := n - 1

/-- `REBENCH_DENOISE_CORE_SET` in the environment of the benchmark: the shielded range -/
def execCoreSet (f : Flags) (lookup : Option Str) (n : Nat) : Option (Nat × Nat) :=
  let cset := match f.csetPath with | some p => some p | none => lookup
  match f.useShielding, cset with
  | true, some _ => some (shieldLo n, shieldHi n)
  | _, _ => none


/-! ## 5. `denoise.py` itself: which settings `minimize` touches and what `restore` undoes

Mirrors `rebench/denoise.py:177-296` (`_set_scaling_governor`, `_set_no_turbo`,
`_configure_perf_sampling`, `_restore_perf_sampling`, `_minimize_noise`,
`_restore_standard_settings`) and `:133-170` (`_activate_shielding`, `_reset_shielding`).
File writes and commands are actions; the system is a total map from settings to the text
last written.  Nothing of this is ever executed by the checks. -/

inductive Setting where
  | governor (cpu : Nat)     -- /sys/devices/system/cpu/cpu<i>/cpufreq/scaling_governor
  | noTurbo                  -- /sys/devices/system/cpu/intel_pstate/no_turbo
  | perfMaxPercent           -- /proc/sys/kernel/perf_cpu_time_max_percent
  | perfSampleRate           -- /proc/sys/kernel/perf_event_max_sample_rate
  | perfParanoid             -- /proc/sys/kernel/perf_event_paranoid
  | shield                   -- the cset shield
deriving DecidableEq, Repr

inductive Act where
  | write (s : Setting) (v : Str)   -- open for writing and write `v` and a line feed
  | touch (s : Setting)             -- opened for writing, nothing written
  | niceProbe                       -- `nice -n-20 echo test`
  | shieldOn (lo hi : Nat)          -- `cset shield -c lo-hi -k on`
  | shieldReset                     -- `cset shield -r`
deriving DecidableEq, Repr

/-- what the machine lets the script do -/
structure Host where
  writable : Setting → Bool
  hasCset : Bool
  shieldActivates : Bool     -- the output of `cset shield … -k on` says "kthread shield activated"
  shieldResets : Bool        -- the output of `cset shield -r` says "cset: done"
  canNice : Bool

def vPerformance : Str := ['p', 'e', 'r', 'f', 'o', 'r', 'm', 'a', 'n', 'c', 'e']
def vPowersave : Str := ['p', 'o', 'w', 'e', 'r', 's', 'a', 'v', 'e']
def vOn : Str := ['o', 'n']
def vOff : Str := ['o', 'f', 'f']

abbrev Sys := Setting → Str

def Sys.upd (s : Sys) (k : Setting) (v : Str) : Sys := fun x => if x = k then v else s x

/-- "the presumed standard state" (docs/denoise.md) -/
def stdSys : Sys
  | .governor _ => vPowersave
  | .noTurbo => ['0']
  | .perfMaxPercent => ['2', '5']
  | .perfSampleRate => ['5', '0', '0', '0', '0']
  | .perfParanoid => ['3']
  | .shield => vOff

def applyAct (h : Host) (s : Sys) : Act → Sys
  | .write k v => s.upd k v
  | .touch _ => s
  | .niceProbe => s
  | .shieldOn _ _ => if h.shieldActivates then s.upd .shield vOn else s
  | .shieldReset => if h.shieldResets then s.upd .shield vOff else s

def applyActs (h : Host) (s : Sys) (as : List Act) : Sys := as.foldl (applyAct h) s

/-- `_set_scaling_governor`: cpu after cpu, stops at the first file it cannot write -/
def governorActs (h : Host) (v : Str) : Nat → Nat → List Act × Bool
  | _, 0 => ([], true)
  | i, n + 1 =>
    if h.writable (.governor i) then
      let (as, ok) := governorActs h v (i + 1) n
      (.write (.governor i) v :: as, ok)
    else ([], false)

def noTurboActs (h : Host) (v : Str) : List Act × Bool :=
  if h.writable .noTurbo then ([.write .noTurbo v], true) else ([], false)

/-- `_configure_perf_sampling` -/
def perfConfigActs (h : Host) (prof : Bool) : List Act × Bool :=
  if !h.writable .perfMaxPercent then ([], false) else
  let a1 := [Act.write .perfMaxPercent (if prof then ['0'] else ['1'])]
  if !h.writable .perfSampleRate then (a1, false) else
  let a2 := a1 ++ [if prof then Act.touch .perfSampleRate else Act.write .perfSampleRate ['1']]
  if !prof then (a2, true) else
  if !h.writable .perfParanoid then (a2, false) else
  (a2 ++ [Act.write .perfParanoid ['-', '1']], true)

/-- `_restore_perf_sampling` -/
def perfRestoreActs (h : Host) : List Act × Bool :=
  if !h.writable .perfMaxPercent then ([], false) else
  let a1 := [Act.write .perfMaxPercent ['2', '5']]
  if !h.writable .perfSampleRate then (a1, false) else
  let a2 := a1 ++ [Act.write .perfSampleRate ['5', '0', '0', '0', '0']]
  if !h.writable .perfParanoid then (a2, false) else
  (a2 ++ [Act.write .perfParanoid ['3']], true)

structure MinResult where
  governorOk : Bool
  noTurboOk : Bool
  perfOk : Bool
  canNice : Bool
  shielding : Bool
deriving DecidableEq, Repr

/-- `_minimize_noise(num_cores, use_nice, use_shielding, for_profiling)` -/
def minimizeActs (h : Host) (n : Nat) (nice shield prof : Bool) : List Act × MinResult :=
  let g := governorActs h vPerformance 0 n
  let t := noTurboActs h ['1']
  let p := perfConfigActs h prof
  let nc := if nice then [Act.niceProbe] else []
  let sh := if shield && h.hasCset then [Act.shieldOn (shieldLo n) (shieldHi n)] else []
  (g.1 ++ t.1 ++ p.1 ++ nc ++ sh,
   { governorOk := g.2, noTurboOk := t.2, perfOk := p.2,
     canNice := nice && h.canNice, shielding := shield && h.hasCset && h.shieldActivates })

structure RestoreResult where
  governorOk : Bool
  noTurboOk : Bool
  perfOk : Bool
  shielding : Bool
deriving DecidableEq, Repr

/-- `_restore_standard_settings(num_cores, use_shielding)` -/
def restoreActs (h : Host) (n : Nat) (shield : Bool) : List Act × RestoreResult :=
  let g := governorActs h vPowersave 0 n
  let t := noTurboActs h ['0']
  let p := perfRestoreActs h
  let sh := if shield then [Act.shieldReset] else []
  (g.1 ++ t.1 ++ p.1 ++ sh,
   { governorOk := g.2, noTurboOk := t.2, perfOk := p.2, shielding := shield && h.shieldResets })

/-- the whole round trip as ReBench drives it: `restore` is called with `--without-shielding`
exactly when `minimize` did not report a shield (`denoise_client.py:150-151`) -/
def roundTrip (h : Host) (n : Nat) (nice shield prof : Bool) (s0 : Sys) : Sys × Sys :=
  let m := minimizeActs h n nice shield prof
  let s1 := applyActs h s0 m.1
  let r := restoreActs h n m.2.shielding
  (s1, applyActs h s1 r.1)

end RB.Denoise
