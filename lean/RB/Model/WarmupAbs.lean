/-
How the warm-up part of the C15 model reads Python values: the abstraction used by the translation tie of the
warm-up / recording rule (`RB.Proofs.GenC15b`) and by its directed search (`drivers/C15bgen.lean`).
-/
import RB.Util.PyVal
import RB.Model.Stats

namespace RB.Stats
open RB.Py


/-- the configured number of warm-up iterations as the model's `Nat`: `None` = no warm-up, or a non-negative int -/
def absWarmup : V → Option Nat
  | .none => some 0
  | .int i => if 0 ≤ i then some i.toNat else none
  | _ => none

/-- warm-up flags by position: true for the first `r` of `n` data points -/
def liveFlags : Nat → Nat → List Bool
  | _, 0 => []
  | r, n + 1 => decide (0 < r) :: liveFlags (r - 1) n

theorem liveFlags_length (r n : Nat) : (liveFlags r n).length = n := by
  induction n generalizing r with
  | zero => rfl
  | succ n ih => simp [liveFlags, ih]

theorem liveFlags_get (r n i : Nat) (h : i < n) : (liveFlags r n)[i]? = some (decide (i < r)) := by
  induction n generalizing r i with
  | zero => omega
  | succ n ih =>
    cases i with
    | zero => simp [liveFlags]
    | succ j =>
      simp only [liveFlags, List.getElem?_cons_succ]
      rw [ih (r - 1) j (by omega)]
      congr 1
      exact decide_eq_decide.mpr (by omega)

end RB.Stats
