/-
How the objects of the *generated* run-filter definitions (`RB.Gen.RunFilter`, translated from
`rebench/configurator.py` on every check run) are read as the model's selection `RB.Runs.Sel`.
Imports generated code: not part of the default build target (see `RB.Proofs.GenC01`).
-/
import RB.Gen.RunFilter
import RB.Model.RunsAbs

namespace RB.Runs
open RB.Py RB.Gen.RunFilter

/-- `f` on every element, if defined everywhere -/
def optMap {α β : Type} (f : α → Option β) : List α → Option (List β)
  | [] => some []
  | x :: r => (f x).bind fun y => (optMap f r).map (y :: ·)

/-- an object of `_executor_filters` as the model's `e:NAME` -/
def absExecF : BenchFilterObj → Option String
  | .ExecutorFilter o => absStr o.name
  | _ => none

/-- an object of `_suite_filters` as the model's `s:SUITE` / `s:SUITE:BENCH` -/
def absSuiteF : BenchFilterObj → Option (String × Option String)
  | .SuiteFilter o => (absStr o.name).map fun s => (s, none)
  | .BenchmarkFilter o => (absStr o.name).bind fun s => (absStr o.benchmark_name).map fun b => (s, some b)
  | _ => none

/-- an object of `_tag_filters` as the model's `t:TAG` -/
def absTagF : TagFilterObj → Option String
  | .TagFilter o => absStr o.tag

/-- a `_RunFilter` object as the model's selection (no experiment named) -/
def absSel (rf : RunFilter) : Option Sel :=
  (optMap absExecF rf.executor_filters).bind fun e =>
  (optMap absSuiteF rf.suite_filters).bind fun s =>
  (optMap absTagF rf.tag_filters).map fun t =>
  { expName := none, execFilters := e, suiteFilters := s, tagFilters := t }

/-- the three names of a benchmark: executor, suite, benchmark -/
def absBench (b : Benchmark) : Option (String × String × String) :=
  (absStr b.suite.executor.name).bind fun e =>
  (absStr b.suite.name).bind fun s =>
  (absStr b.name).map fun n => (e, s, n)

end RB.Runs
