/-
Model of the retry / abandon state machine of one run (C04, shared by C10, C11).

Mirrors
* `rebench/model/termination_check.py:28-73`  (counters, `should_terminate`)
* `rebench/executor.py:474-513`               (`execute_run`)
* `rebench/executor.py:528-605`               (`_generate_data_point`: classification of return codes)
* `rebench/executor.py:607-645`               (`_eval_output`: parse result, warm-up, success)
* `rebench/model/run_id.py:253-258,140-141`   (`_max_invocation`, `completed_invocations`)

Imports nothing outside core Lean.
-/
namespace RB.Term

/-- What one started process did, as the executor sees it:
`exit rc marker dps` = the process ended with return code `rc`; its output
contains a failure marker line (`marker`) and `dps` complete data points.
`osError` = `Popen` raised `OSError` (executor.py:554). A time-out arrives as
return code `-9` (`subprocess_kill.py:7`). -/
inductive Outcome where
  | exit (rc : Int) (marker : Bool) (dps : Nat)
  | osError
deriving Repr, DecidableEq, Inhabited

/-- classification by the executor -/
inductive Class where
  | ok (dps : Nat)   -- `_eval_output` succeeded with `dps ≥ 1` data points
  | fail             -- `indicate_failed_execution`
  | notFound         -- return code 127
  | osErr            -- OSError at start
deriving Repr, DecidableEq

/-- per-run configuration: `invocations`, `retries_after_failure`, `warmup`,
`ignore_timeouts` of the run and the session's `-f` (`include_faulty`) -/
structure Cfg where
  N : Nat
  retries : Nat
  warmup : Nat := 0
  ignoreTimeouts : Bool := false
  faulty : Bool := false
deriving Repr, DecidableEq, Inhabited

/-- executor.py:566-603 and 607-645 (RebenchLog adapter: marker raises
`ResultsIndicatedAsInvalid` unless `-f`; no data point raises `OutputNotParseable`) -/
def classify (c : Cfg) : Outcome → Class
  | .osError => .osErr
  | .exit rc marker dps =>
    if rc = 127 then .notFound
    else if rc ≠ 0 ∧ c.faulty = false ∧ ¬ (rc = -9 ∧ c.ignoreTimeouts = true) then .fail
    else if marker = true ∧ c.faulty = false then .fail
    else if dps = 0 then .fail
    else .ok dps

/-- `TerminationCheck` counters plus the run's `_max_invocation`, the number of
(non-warm-up) samples, and the flags the schedulers and `Executor.execute` read -/
structure St where
  consec : Nat := 0        -- _consecutive_erroneous_executions
  failed : Nat := 0        -- _failed_execution_count
  failNow : Bool := false  -- _fail_immediately
  maxInv : Nat := 0        -- RunId._max_invocation
  samples : Nat := 0       -- statistics.num_samples
  exeMissing : Bool := false  -- RunId.executable_missing
  succeeded : Bool := false   -- not RunId.is_failed (cleared by a success of this session)
deriving Repr, DecidableEq, Inhabited

inductive Ev where
  | start (inv : Nat)                -- a process is started with `%(invocation)s` = inv
  | record (inv : Nat) (dps : Nat)   -- `dps` data points appended to the data file with invocation = inv
  | build (id : Nat)                 -- a build command is run (sessions only; `apply` never emits it)
deriving Repr, DecidableEq

/-- termination_check.py:55-59 (`_fail_immediately` is handled by `failsConsec`) -/
def excessive (s : St) : Bool :=
  decide (s.failed > 6) || (decide (s.samples > 10) && decide (2 * s.failed > s.samples))

/-- termination_check.py:49-53 -/
def failsConsec (c : Cfg) (s : St) : Bool :=
  s.failNow || (decide (s.consec > 0) && decide (s.consec ≥ c.retries))

/-- the run is given up (as opposed to completed) -/
def abandoned (c : Cfg) (s : St) : Bool := failsConsec c s || excessive s

/-- termination_check.py:61-80 -/
def shouldTerminate (c : Cfg) (s : St) : Bool :=
  abandoned c s || decide (s.maxInv ≥ c.N)

/-- one started process: `_generate_data_point` after the start -/
def apply (c : Cfg) (s : St) (o : Outcome) : St × List Ev :=
  match classify c o with
  | .ok d => ({ s with consec := 0, maxInv := s.maxInv + 1, samples := s.samples + (d - c.warmup),
                       succeeded := true },
              [.start (s.maxInv + 1), .record (s.maxInv + 1) d])
  | .fail => ({ s with consec := s.consec + 1, failed := s.failed + 1 }, [.start (s.maxInv + 1)])
  | .notFound => ({ s with failNow := true, exeMissing := true }, [.start (s.maxInv + 1)])
  | .osErr => ({ s with failNow := true }, [.start (s.maxInv + 1)])

/-- the scheduler's loop on one run (`while not completed: execute_run`), fed a
finite stream of outcomes: stops when the run terminates or the stream ends -/
def runTrace (c : Cfg) : St → List Outcome → St × List Ev
  | s, [] => (s, [])
  | s, o :: os =>
    if shouldTerminate c s then (s, [])
    else
      let r := apply c s o
      let r' := runTrace c r.1 os
      (r'.1, r.2 ++ r'.2)

/-- number of outcomes `runTrace` consumes -/
def consumed (c : Cfg) : St → List Outcome → Nat
  | _, [] => 0
  | s, o :: os => if shouldTerminate c s then 0 else consumed c (apply c s o).1 os + 1

def recorded : List Ev → List Nat
  | [] => []
  | .record i _ :: es => i :: recorded es
  | _ :: es => recorded es

def starts : List Ev → List Nat
  | [] => []
  | .start i :: es => i :: starts es
  | _ :: es => starts es

/-- every `start` carries the number after the last recorded one and every
`record` records exactly that number: `m` = invocations recorded so far -/
def numbered : Nat → List Ev → Bool
  | _, [] => true
  | m, .start i :: es => i == m + 1 && numbered m es
  | m, .record i _ :: es => i == m + 1 && numbered (m + 1) es
  | m, .build _ :: es => numbered m es

/-! ### The history-based reading (the right-hand sides of `retry_spec`).
Histories are lists of outcomes, newest first. -/

/-- state after a history (no termination check in between) -/
def after (c : Cfg) (s₀ : St) : List Outcome → St
  | [] => s₀
  | o :: older => (apply c (after c s₀ older) o).1

def isFail (c : Cfg) (o : Outcome) : Bool := classify c o == .fail
def isOk (c : Cfg) (o : Outcome) : Bool := match classify c o with | .ok _ => true | _ => false
def isImmediate (c : Cfg) (o : Outcome) : Bool :=
  classify c o == .notFound || classify c o == .osErr

/-- failures in a row at the end of the history -/
def trailing (c : Cfg) : List Outcome → Nat
  | [] => 0
  | o :: older => if isFail c o then trailing c older + 1
                  else if isOk c o then 0 else trailing c older

def nFail (c : Cfg) (h : List Outcome) : Nat := (h.filter (isFail c)).length
def nOk (c : Cfg) (h : List Outcome) : Nat := (h.filter (isOk c)).length
def nSamples (c : Cfg) : List Outcome → Nat
  | [] => 0
  | o :: older => (match classify c o with | .ok d => d - c.warmup | _ => 0) + nSamples c older

/-- the abandon / completion rule stated on the history of a fresh run -/
def specTerminate (c : Cfg) (h : List Outcome) : Bool :=
  h.any (isImmediate c)
  || (decide (trailing c h > 0) && decide (trailing c h ≥ c.retries))
  || decide (nFail c h > 6)
  || (decide (nSamples c h > 10) && decide (2 * nFail c h > nSamples c h))
  || decide (nOk c h ≥ c.N)

end RB.Term
