/-
C19 — any configuration file is accepted or rejected with a diagnostic.

Executable model of
  rebench/configurator.py:128-185   load_config / validate_config / validate_gauge_adapters
  rebench/rebench-schema.yml        (re-stated as `schema` below, interpreted under
                                     pykwalify 1.8 semantics, core.py:232-750)
  rebench/configurator.py:190-262   Configurator.__init__
  rebench/configurator.py:364-377   _compile_experiments
  rebench/model/experiment.py       Experiment.compile / __init__ / _compile_*
  rebench/model/executor.py:33-60   Executor.compile
  rebench/model/benchmark_suite.py  BenchmarkSuite.compile
  rebench/model/benchmark.py:33-52  Benchmark.compile
  rebench/model/__init__.py         prefer_important, is_marked_important, remove_important,
                                    value_with_optional_details
  rebench/model/exp_run_details.py  ExpRunDetails.compile, resolve_override_and_important
  rebench/model/exp_variables.py    ExpVariables.compile
  rebench/model/profiler.py:10-22   Profiler.compile
  rebench/persistence.py:58-86,194-198  DataStore.get / _FilePersistence.__init__
  rebench/rebench.py:266-274        which exception classes become UIError

Every partial Python operation returns the exception class Python raises.
Imports nothing outside core Lean.
-/

namespace RB.ConfigDoc

/-- a parsed YAML document (what `yaml.safe_load` returns). `float` carries the
Python `repr`; `other` stands for values JSON cannot carry (dates, timestamps, binary). -/
inductive Doc where
  | null
  | bool (b : Bool)
  | int (i : Int)
  | float (repr : String)
  | str (s : String)
  | other (tag : String)
  | list (xs : List Doc)
  | map (kvs : List (Doc × Doc))
deriving Inhabited

/-- exception classes -/
inductive Exc
  | typeError | keyError | indexError | assertionError | attributeError | notImplementedError
  | coreError           -- pykwalify.errors.CoreError (a RuntimeError)
  | osError             -- IsADirectoryError / PermissionError while opening the data file
  | valueError | configurationError | uiError
deriving DecidableEq, Repr

inductive Outcome
  | ok | uiError | crash (cls : Exc)
deriving DecidableEq, Repr

/-- `str(x)` for scalars -/
def pyStr : Doc → String
  | .null => "None"
  | .bool true => "True"
  | .bool false => "False"
  | .int i => toString i
  | .float r => r
  | .str s => s
  | .other t => t
  | .list _ => "[...]"
  | .map _ => "{...}"

/-- Python truthiness -/
def truthy : Doc → Bool
  | .null => false
  | .bool b => b
  | .int i => i != 0
  | .float r => !(r == "0.0" || r == "-0.0")
  | .str s => s != ""
  | .other _ => true
  | .list xs => !xs.isEmpty
  | .map kvs => !kvs.isEmpty

/-- `==` between scalars as dictionary keys / list members (same type and payload;
`True == 1` and `False == 0` as in Python) -/
def scalarEq : Doc → Doc → Bool
  | .null, .null => true
  | .bool a, .bool b => a == b
  | .int a, .int b => a == b
  | .bool a, .int b => (if a then 1 else 0) == b
  | .int a, .bool b => a == (if b then 1 else 0)
  | .float a, .float b => a == b
  | .str a, .str b => a == b
  | .other a, .other b => a == b
  | _, _ => false

def lookup (kvs : List (Doc × Doc)) (k : Doc) : Option Doc :=
  (kvs.find? (fun p => scalarEq p.1 k)).map (·.2)

/-- `d.get(key)` on a mapping (`none` = key absent) -/
def Doc.get? (d : Doc) (k : String) : Option Doc :=
  match d with
  | .map kvs => lookup kvs (.str k)
  | _ => none

/-- `d.get(key, default)` -/
def Doc.getD (d : Doc) (k : String) (dflt : Doc) : Doc := (d.get? k).getD dflt

def Doc.isMap : Doc → Bool | .map _ => true | _ => false
def Doc.isList : Doc → Bool | .list _ => true | _ => false
def Doc.isStr : Doc → Bool | .str _ => true | _ => false

/-! ### pykwalify -/

inductive Ty | str | int | bool | float | text | scalar | any
deriving DecidableEq, Repr

/-- `float(s)` succeeds (CPython grammar restricted to ASCII): optional blanks and sign,
`inf` / `infinity` / `nan`, or digits with optional fraction / exponent, `_` between digits -/
def digitsOk (cs : List Char) : Bool :=
  -- non-empty, digits with single underscores strictly between digits
  match cs with
  | [] => false
  | c :: rest =>
    c.isDigit && (rest.foldl (fun (acc : Bool × Char) d =>
      (acc.1 && (d.isDigit || (d == '_' && acc.2.isDigit)), d)) (true, c)).1
    && (match cs.getLast? with | some l => l.isDigit | none => false)

def isBlank (c : Char) : Bool := c == ' ' || c == '\t' || c == '\n' || c == '\r' || c.toNat == 11 || c.toNat == 12

def trimBlanks (s : String) : List Char :=
  ((s.toList.dropWhile isBlank).reverse.dropWhile isBlank).reverse

def dropSign (cs : List Char) : List Char :=
  match cs with
  | '+' :: r => r
  | '-' :: r => r
  | r => r

/-- `int(s)` succeeds -/
def pyIntOk (s : String) : Bool := digitsOk (dropSign (trimBlanks s))

def splitAtChar (p : Char → Bool) (cs : List Char) : List Char × Option (List Char) :=
  match cs.span (fun c => !p c) with
  | (a, []) => (a, none)
  | (a, _ :: b) => (a, some b)

def pyFloatOk (s : String) : Bool :=
  let cs := dropSign (trimBlanks s)
  let low := String.ofList (cs.map Char.toLower)
  if low == "inf" || low == "infinity" || low == "nan" then true
  else
    let (mant, exp) := splitAtChar (fun c => c == 'e' || c == 'E') cs
    let expOk := match exp with
      | none => true
      | some e => digitsOk (dropSign e)
    let (ip, fp) := splitAtChar (· == '.') mant
    let mantOk := match fp with
      | none => digitsOk ip
      | some f => (ip.isEmpty && digitsOk f) || (digitsOk ip && (f.isEmpty || digitsOk f))
    mantOk && expOk

/-- pykwalify/types.py `tt[t](value)` for a non-null value -/
def tyOk (t : Ty) (v : Doc) : Bool :=
  match t, v with
  | .any, _ => true
  | .scalar, .list _ => false
  | .scalar, .map _ => false
  | .scalar, _ => true
  | .str, .str _ => true
  | .str, .other "bytes" => true      -- `is_string` accepts bytes (YAML !!binary)
  | .str, _ => false
  | .int, .int _ => true
  | .int, _ => false
  | .bool, .bool _ => true
  | .bool, _ => false
  | .float, .float _ => true
  | .float, .int _ => true
  | .float, .str s => pyFloatOk s
  | .float, _ => false
  | .text, .str _ => true
  | .text, .other "bytes" => true
  | .text, .int _ => true
  | .text, .float _ => true
  | .text, _ => false

inductive KeyRe | anyKey | dotKey
deriving DecidableEq, Repr

/-- `re.search(regex, str(k))` for the two key patterns of the schema:
`(.+)` – some character other than a newline; `(\..+)` – a dot followed by such a character -/
def keyMatches (r : KeyRe) (k : Doc) : Bool :=
  let cs := (pyStr k).toList
  match r with
  | .anyKey => cs.any (· != '\n')
  | .dotKey =>
    let rec go : List Char → Bool
      | '.' :: c :: rest => c != '\n' || go (c :: rest)
      | _ :: rest => go rest
      | [] => false
    go cs

/-- a pykwalify rule -/
inductive Rule where
  | scalar (t : Ty) (required : Bool) (prefixes : List String)
      -- `prefixes` ≠ []: `pattern` given as alternatives, `re.match` = one of them is a prefix
  | scalarNN (t : Ty)
      -- `nullable: false`: a scalar of type `t` that must have a value (core.py:250-256)
  | seq (items : List Rule) (required : Bool)
  | map (fields : List (String × Rule)) (regex : List (KeyRe × Rule)) (allowEmpty : Bool) (required : Bool)
deriving Inhabited

def Rule.required : Rule → Bool
  | .scalar _ r _ => r
  | .scalarNN _ => false
  | .seq _ r => r
  | .map _ _ _ r => r

def hasKey (kvs : List (Doc × Doc)) (k : String) : Bool :=
  kvs.any (fun p => scalarEq p.1 (.str k))

/-- core.py `_validate` (`fuel` bounds the nesting of the schema) -/
def validate : Nat → Rule → Doc → Bool
  | 0, _, _ => false
  | fuel + 1, rule, v =>
    match v with
    | .null =>
      -- core.py:243-259: required → error; otherwise sequences and scalars accept None,
      -- mappings do not ("Value 'None' is not a dict")
      if rule.required then false
      else match rule with
        | .map .. => false
        | .scalarNN _ => false      -- nullable.novalue
        | _ => true
    | _ =>
      match rule with
      | .scalar t _ prefixes =>
        tyOk t v &&
          (prefixes.isEmpty ||
            match v with
            | .str s => prefixes.any (fun p => p.toList.isPrefixOf s.toList)
            | _ => false)
      | .scalarNN t => tyOk t v
      | .seq items _ =>
        match v with
        | .list xs => xs.all (fun x => items.any (fun r => validate fuel r x))
        | _ => false
      | .map fields regex allowEmpty _ =>
        match v with
        | .map kvs =>
          fields.all (fun f => !f.2.required || hasKey kvs f.1) &&
          kvs.all (fun kv =>
            match kv.1 with
            | .str k =>
              match fields.find? (·.1 == k) with
              | some f => validate fuel f.2 kv.2
              | none =>
                let ms := regex.filter (fun r => keyMatches r.1 kv.1)
                if ms.isEmpty then allowEmpty else ms.all (fun r => validate fuel r.2 kv.2)
            | _ =>
              let ms := regex.filter (fun r => keyMatches r.1 kv.1)
              if ms.isEmpty then allowEmpty else ms.all (fun r => validate fuel r.2 kv.2))
        | _ => false

/-! ### rebench-schema.yml -/

def opt (t : Ty) : Rule := .scalar t false []
def req (t : Ty) : Rule := .scalar t true []

/-- `&EXP_RUN_DETAILS` -/
def runDetailFields : List (String × Rule) :=
  [ ("invocations", opt .text), ("iterations", opt .text), ("warmup", opt .text),
    ("min_iteration_time", opt .int), ("max_invocation_time", opt .int),
    ("ignore_timeouts", opt .bool), ("parallel_interference_factor", opt .float),
    ("execute_exclusively", opt .bool), ("retries_after_failure", opt .int),
    ("env", .map [] [(.anyKey, .scalarNN .str)] false false) ]

def scalarSeq : Rule := .seq [opt .scalar] false

/-- `&EXP_VARIABLES` -/
def variableFields : List (String × Rule) :=
  [ ("input_sizes", scalarSeq), ("cores", scalarSeq), ("variable_values", scalarSeq), ("tags", scalarSeq) ]

def common : List (String × Rule) := runDetailFields ++ variableFields

def runsType : Rule := .map runDetailFields [] false false

def reportingType : Rule :=
  .map [ ("rebenchdb", .map [("db_url", opt .str), ("repo_url", opt .str), ("project_name", opt .str),
                              ("record_all", opt .bool)] [] false false),
         ("codespeed", .map [("project", opt .str), ("url", opt .str)] [] false false) ] [] false false

def machineType : Rule := .map (common ++ [("description", opt .str), ("desc", opt .str)]) [] false false

def benchmarkTypeMap : Rule :=
  .map [] [(.anyKey, .map (common ++ [("extra_args", opt .scalar), ("command", opt .str),
                                       ("codespeed_name", opt .str)]) [] false false)] false false

def buildType : Rule := .seq [opt .str] false

def suiteType : Rule :=
  .map (common ++ [ ("gauge_adapter", req .any), ("command", req .str), ("location", opt .str),
                    ("build", buildType),
                    ("benchmarks", .seq [opt .str, benchmarkTypeMap] true),
                    ("description", opt .str), ("desc", opt .str) ]) [] false false

def executorType : Rule :=
  .map (common ++ [ ("path", opt .str), ("executable", req .str), ("args", opt .str),
                    ("desc", opt .str), ("description", opt .str), ("build", buildType),
                    ("profiler", .map [("perf", .map [("record_args", opt .str), ("report_args", opt .str)]
                                                    [] true false)] [] true false) ]) [] false false

def expSuiteType : Rule := .seq [opt .str] false

def expExecType : Rule :=
  .map [] [(.anyKey, .map (common ++ [("suites", expSuiteType)]) [] false false)] false false

def experimentType : Rule :=
  .map (common ++ [ ("description", opt .str), ("desc", opt .str), ("data_file", opt .str),
                    ("action", .scalar .str false ["benchmark", "profile"]),
                    ("reporting", reportingType),
                    ("executions", .seq [opt .str, expExecType] false),
                    ("suites", expSuiteType) ]) [] false false

def named (r : Rule) : Rule := .map [] [(.anyKey, r)] false false

/-- the root rule -/
def schema : Rule :=
  .map [ ("default_experiment", opt .str), ("default_data_file", opt .str),
         ("artifact_review", opt .bool), ("build_log", opt .str),
         ("runs", runsType), ("reporting", reportingType),
         ("machines", named machineType), ("benchmark_suites", named suiteType),
         ("executors", named executorType), ("experiments", named experimentType) ]
       [(.dotKey, opt .any)] false false

def schemaOK (d : Doc) : Bool := validate 12 schema d

/-! ### compilation -/

abbrev M := Except Exc

structure Cli where
  expName : Option String := none      -- first positional argument that is not a filter
  machine : Option String := none      -- `-m`
  invOverride : Bool := false          -- `-in N`, `-q`, `--setup-only`
  itOverride : Bool := false           -- `-it N`, `-q`, `--setup-only`
  /-- the file system as far as it matters: configured data-file names that exist but
  cannot be opened for reading (directories) -/
  unreadable : List String := []
deriving Repr

/-- model/__init__.py:31-34 `is_marked_important` -/
def isMarkedImportant (v : Doc) : M Bool :=
  match v with
  | .int _ => pure false
  | .bool _ => pure false
  | v =>
    let s := pyStr v
    if s == "" then throw .indexError else pure (s.toList.getLast? == some '!')

/-- model/__init__.py:21-28 `prefer_important` -/
def preferImportant (val dflt : Doc) : M Doc :=
  match val with
  | .null => pure dflt
  | _ => do
    if ← isMarkedImportant val then pure val
    else if ← isMarkedImportant dflt then pure dflt
    else pure val

/-- model/__init__.py:37-46 `remove_important`: only success / exception class matter -/
def removeImportant (v : Doc) : M Unit :=
  match v with
  | .null => pure ()
  | .int _ => pure ()
  | .bool _ => pure ()
  | .str s =>
    if s == "" then throw .indexError
    else if s.toList.getLast? == some '!' then (if pyIntOk (String.ofList s.toList.dropLast) then pure () else throw .valueError)
    else if pyIntOk s then pure () else throw .valueError
  | _ => throw .typeError     -- `val[-1]` on a float

/-- the three settings that go through `prefer_important` -/
structure Details where
  inv : Doc
  it : Doc
  wu : Doc
  env : Doc := .map []

/-- exp_run_details.py:42-45 (the other settings are converted by functions that cannot
fail on schema-valid values) -/
def compileDetails (cfg : Doc) (d : Details) : M Details := do
  let inv ← preferImportant (cfg.getD "invocations" .null) d.inv
  let it ← preferImportant (cfg.getD "iterations" .null) d.it
  let wu ← preferImportant (cfg.getD "warmup" .null) d.wu
  -- exp_run_details.py:58 `none_or_dict(config.get('env', defaults.env))`: replaced, not merged
  pure { inv := inv, it := it, wu := wu, env := cfg.getD "env" d.env }

/-- exp_run_details.py:158-170 `resolve_override_and_important` -/
def resolveDetails (cli : Cli) (d : Details) : M Unit := do
  if !cli.invOverride then removeImportant d.inv
  if !cli.itOverride then removeImportant d.it
  removeImportant d.wu

structure Vars where
  inputSizes : Doc
  cores : Doc
  varValues : Doc
  tags : Doc

/-- exp_variables.py:26-31 `config.get(key, default)`: a key that is present with a null
value yields `None` -/
def compileVars (cfg : Doc) (v : Vars) : Vars :=
  { inputSizes := cfg.getD "input_sizes" v.inputSizes
    cores := cfg.getD "cores" v.cores
    varValues := cfg.getD "variable_values" v.varValues
    tags := cfg.getD "tags" v.tags }

/-- `for x in value` -/
def iter (d : Doc) : M (List Doc) :=
  match d with
  | .list xs => pure xs
  | .map kvs => pure (kvs.map (·.1))
  | .str s => pure (s.toList.map (fun c => Doc.str (String.singleton c)))
  | _ => throw .typeError

/-- experiment.py:84-99 `_compile_runs`: the four nested loops of one benchmark;
returns the number of runs -/
def countRuns (v : Vars) : M Nat := do
  let cs ← iter v.cores
  if cs.isEmpty then return 0
  let is ← iter v.inputSizes
  if is.isEmpty then return 0
  let vs ← iter v.varValues
  if vs.isEmpty then return 0
  let ts ← iter v.tags
  pure (cs.length * is.length * vs.length * ts.length)

/-- exp_run_details.py:155-163 `__hash__`: `tuple(sorted(self.env.items())) if self.env else None`
— sorting raises TypeError when the keys are not mutually comparable (strings with
strings, numbers and booleans with each other) -/
def hashDetails (d : Details) : M Unit :=
  match d.env with
  | .map kvs =>
    let isNum (k : Doc) : Bool := match k with | .int _ => true | .bool _ => true | .float _ => true | _ => false
    if kvs.length < 2 then pure ()
    else if kvs.all (fun kv => kv.1.isStr) || kvs.all (fun kv => isNum kv.1) then pure ()
    else throw .typeError
  | _ => pure ()

/-- exp_variables.py:82-90 `__hash__`: `tuple(self.input_sizes)`, … -/
def hashVars (v : Vars) : M Unit := do
  let _ ← iter v.inputSizes
  let _ ← iter v.cores
  let _ ← iter v.varValues
  let _ ← iter v.tags
  pure ()

/-- model/__init__.py:73-80 `value_with_optional_details` -/
def valueWithDetails (v : Doc) (dflt : Doc) : M (Doc × Doc) :=
  match v with
  | .map [kv] => pure kv
  | .map _ => throw .assertionError
  | _ => pure (v, dflt)

/-- build_cmd.py:26-33: `"\n".join(commands)` -/
def buildJoin (b : Doc) : M Unit :=
  if !truthy b then pure ()
  else do
    let xs ← iter b
    if xs.all Doc.isStr then pure () else throw .typeError

/-- `x.startswith("~")` for the optional strings `path` / `location` -/
def startswithCheck (p : Doc) : M Unit :=
  if !truthy p then pure ()
  else match p with
    | .str _ => pure ()
    | _ => throw .attributeError

/-- profiler.py:10-22, 46-50 -/
def compileProfiler (p : Doc) : M (Option Nat) :=
  if !truthy p then pure none
  else match p with
    | .map kvs => do
      let n ← kvs.foldlM (fun (n : Nat) kv => do
        match kv.1 with
        | .str "perf" =>
          -- `cfg.get("record_args", "") + _PERF_OUT` (defaults were inserted by the validator)
          match kv.2.getD "record_args" (.str ""), kv.2.getD "report_args" (.str "") with
          | .str _, .str _ => pure (n + 1)
          | _, _ => throw .typeError
        | .str _ => throw .notImplementedError
        | _ => throw .typeError) 0
      pure (some n)
    | _ => throw .attributeError

structure Env where
  cli : Cli
  executors : Doc
  suites : Doc
  action : Doc

/-- model/executor.py:33-60 `Executor.compile` -/
def compileExecutor (env : Env) (ex : Doc) (d : Details) (v : Vars) : M (Details × Vars) := do
  startswithCheck (ex.getD "path" .null)
  buildJoin (ex.getD "build" .null)
  let prof ← compileProfiler (ex.getD "profiler" .null)
  let d' ← compileDetails ex d
  let v' := compileVars ex v
  match env.action with
  | .str "profile" =>
    match prof with
    | none => throw .typeError          -- len(None)
    | some 0 => throw .configurationError
    | some _ => pure (d', v')
  | _ => pure (d', v')

/-- one suite for one executor: benchmark_suite.py:31-50, then (later, in
`_compile_benchmarks`) its benchmarks. Returns the settings each benchmark starts from. -/
def compileSuite (suite : Doc) (d : Details) (v : Vars) : M (Details × Vars) := do
  startswithCheck (suite.getD "location" .null)    -- executor.path when absent: already checked
  buildJoin (suite.getD "build" .null)
  let d' ← compileDetails suite d
  pure (d', compileVars suite v)

/-- benchmark.py:33-52 -/
def compileBench (cli : Cli) (bench : Doc) (d : Details) (v : Vars) : M (Details × Vars) := do
  let (_, details) ← valueWithDetails bench (.map [])
  let d' ← compileDetails details d
  resolveDetails cli d'
  pure (d', compileVars details v)

def forM' {α : Type} (xs : List α) (f : α → M Unit) : M Unit :=
  match xs with
  | [] => pure ()
  | x :: rest => do f x; forM' rest f

def mapM' {α β : Type} (xs : List α) (f : α → M β) : M (List β) :=
  match xs with
  | [] => pure []
  | x :: rest => do
    let y ← f x
    let ys ← mapM' rest f
    pure (y :: ys)

/-- experiment.py:101-125 `_compile_executors_and_benchmark_suites`: the compiled
suites with the settings their benchmarks inherit -/
def compileExecutions (env : Env) (executions suites : Doc) (d : Details) (v : Vars) :
    M (List (Doc × Details × Vars × Details × Vars)) := do
  let execs ← iter executions
  let per ← mapM' execs (fun executorCfg => do
    let (name, details) ← valueWithDetails executorCfg .null
    let (d1, v1, suitesFor) ←
      if truthy details then do
        let d1 ← compileDetails details d
        pure (d1, compileVars details v, details.getD "suites" suites)
      else pure (d, v, suites)
    -- configurator.py:322-331 get_executor
    let exCfg ← match env.executors with
      | .map kvs => match lookup kvs name with
        | some e => pure e
        | none => throw .configurationError
      | _ => throw .configurationError
    let (d2, v2) ← compileExecutor env exCfg d1 v1
    let names ← iter suitesFor
    mapM' names (fun sn => do
      -- configurator.py:333 get_suite: `self._suites_config[suite_name]`
      let sCfg ← match env.suites with
        | .map kvs => match lookup kvs sn with
          | some s => pure s
          | none => throw .keyError
        | _ => throw .keyError
      let (d3, v3) ← compileSuite sCfg d2 v2
      -- the executor's own variables are kept: they are hashed with every run (see `hashVars`)
      pure (sCfg, d3, v3, d2, v2)))
  pure per.flatten

/-- experiment.py:36-62 + 64-82: one experiment; returns its number of runs -/
def compileExperiment (cli : Cli) (root : Doc) (dataFile : Doc) (exp : Doc) (d : Details) (v : Vars) : M Nat := do
  -- `action` has `default: benchmark`, inserted by the validator when the key is absent
  let action := exp.getD "action" (.str "benchmark")
  let ownFile := exp.getD "data_file" .null
  -- is the data file name truthy? (`s + ".profiles"` is never empty)
  let fileOk ←
    match action with
    | .str "profile" =>
      if truthy ownFile then pure true
      else match dataFile with
        | .str _ => pure true
        | _ => throw .typeError        -- None + ".profiles"
    | _ => pure (if truthy ownFile then true else truthy dataFile)
  -- the name that is opened (persistence.py `_read_start_time`; with -c `_discard_old_data`)
  let opened : Option String :=
    match (if truthy ownFile then ownFile else dataFile), action with
    | .str s, .str "profile" => if truthy ownFile then some s else some (s ++ ".profiles")
    | .str s, _ => some s
    | _, _ => none
  let d1 ← compileDetails exp d
  let v1 := compileVars exp v
  -- persistence.py:196-198
  if !fileOk then throw .valueError
  -- persistence.py (repaired): a name with a null byte is rejected with a ValueError
  match (if truthy ownFile then ownFile else dataFile) with
  | .str s => if s.toList.contains (Char.ofNat 0) then throw .valueError
  | _ => pure ()
  match opened with
  | some s => if s ∈ cli.unreadable then throw .osError
  | none => pure ()
  let env : Env := { cli := cli, executors := root.getD "executors" (.map []),
                     suites := root.getD "benchmark_suites" (.map []), action := action }
  let suites ← compileExecutions env (exp.getD "executions" .null) (exp.getD "suites" .null) d1 v1
  -- _compile_benchmarks
  let benches ← mapM' suites (fun (s : Doc × Details × Vars × Details × Vars) => do
    let bs ← iter (s.1.getD "benchmarks" .null)
    mapM' bs (fun b => do
      let bv ← compileBench cli b s.2.1 s.2.2.1
      pure (bv, s.2.2.2)))
  -- _compile_runs; creating the first run of a benchmark hashes it (persistence.py:109-114):
  -- run → benchmark → suite → executor → `ExpVariables.__hash__` of the executor
  let counts ← mapM' benches.flatten (fun (bv : (Details × Vars) × Details × Vars) => do
    let n ← countRuns bv.1.2
    if n > 0 then do
      hashDetails bv.1.1
      hashDetails bv.2.1
      hashVars bv.2.2
    pure n)
  pure counts.sum

/-- configurator.py:148-165 `validate_gauge_adapters` -/
def validateGaugeAdapters (root : Doc) : M Unit :=
  match root.getD "benchmark_suites" (.map []) with
  | .map kvs => forM' kvs (fun kv =>
      match kv.2.get? "gauge_adapter" with
      | none => throw .keyError
      | some (.str _) => pure ()
      | some (.map [_]) => pure ()
      | some _ => throw .uiError)
  | _ => throw .attributeError

/-- load_config + Configurator.__init__ (+ get_runs): the number of runs -/
def compileCore (d : Doc) (cli : Cli) : M Nat := do
  -- pykwalify Core.__init__: `if self.source is None: raise CoreError`
  match d with
  | .null => throw .coreError
  | _ => pure ()
  if !schemaOK d then throw .uiError
  validateGaugeAdapters d
  -- Configurator.__init__
  let dataFile := d.getD "default_data_file" (.str "rebench.data")
  let expName : Doc := match cli.expName with
    | some n => .str n
    | none => d.getD "default_experiment" (.str "all")
  let expName := if truthy expName then expName else d.getD "default_experiment" (.str "all")
  let machines := d.getD "machines" (.map [])
  let machineRaw ← match cli.machine with
    | some m =>
      if m == "" then pure (Doc.map [])
      else match machines.get? m with
        | some r => pure r
        | none => throw .valueError
    | none => pure (Doc.map [])
  let d0 : Details := { inv := .int 1, it := .int 1, wu := .null }
  let dm ← compileDetails machineRaw d0
  let dr ← compileDetails (d.getD "runs" (.map [])) dm
  let v0 : Vars := { inputSizes := .list [.str ""], cores := .list [.int 1],
                     varValues := .list [.str ""], tags := .list [.null] }
  let vm := compileVars machineRaw v0
  let experiments := d.getD "experiments" (.map [])
  match experiments with
  | .map kvs =>
    match expName with
    | .str "all" => do
      let ns ← mapM' kvs (fun kv => compileExperiment cli d dataFile kv.2 dr vm)
      pure ns.sum
    | n =>
      match lookup kvs n with
      | some e => compileExperiment cli d dataFile e dr vm
      | none => throw .valueError
  | _ => throw .attributeError

/-- rebench.py:266-274 — which exception classes `ReBench.run` turns into `UIError`.
`repaired = false`: the pinned tree (ConfigurationError, ValueError; UIError itself).
`repaired = true`: the repaired tree additionally translates the exceptions raised while
loading and compiling the configuration. -/
def handled (repaired : Bool) (e : Exc) : Bool :=
  match e with
  | .uiError | .configurationError | .valueError => true
  | _ => repaired

def compileWith (repaired : Bool) (d : Doc) (cli : Cli) : Outcome :=
  match compileCore d cli with
  | .ok _ => .ok
  | .error e => if handled repaired e then .uiError else .crash e

/-- the current (repaired) tree -/
def compile (d : Doc) (cli : Cli) : Outcome := compileWith true d cli

end RB.ConfigDoc
