/-
C18 — model of the final report.

Mirrors
  * `rebench/reporter.py:75-132`  `TextReporter._generate_all_output`, `_filter_columns` → `table`
  * `rebench/reporter.py:153-160` `CliReporter.report_job_completed` (what is printed)   → `Table`
  * `rebench/reporter.py:182-307` `CodespeedReporter`                                   → `csEntry`, `csStep`, `csFinal`
  * `rebench/model/run_id.py:231-233, 270-274`, `rebench/executor.py:652-663` (job completed once per reporter)

The statistics of a run are those of C15 (`RB.Stats`): the model of
`run_id.statistics` is `Stats.addAll Stats.init samples`, where `samples` are
the totals of the run's non-warm-up data points, recorded now or reloaded.
-/
import RB.Model.Stats

namespace RB.Report

/-- a table cell: Python `str`, `int`, or the string `"Failed"` in the mean column -/
inductive Cell where
  | str (s : String)
  | num (n : Int)
  | failed
deriving DecidableEq, Repr

/-- a run as the reporters see it -/
structure Run where
  /-- `run_id.as_str_list(0)[:-1]`: benchmark, executor, suite, extra args, cores,
  input size, variable, tag, machine — `None` rendered as the empty string -/
  ident   : List String
  /-- totals of the non-warm-up data points available for the run -/
  samples : List Rat
  /-- `run_id.run_failed()`: aborted after consecutive / too many failures -/
  failed  : Bool
deriving DecidableEq, Repr

/-- `TextReporter.expected_columns` -/
def colNames : List String :=
  ["Benchmark", "Executor", "Suite", "Extra", "Core", "Size", "Var", "Tag", "Machine", "#Samples", "Mean (ms)"]

/-! ### rounding: `int(round(mean, 0))` -/

def lessHalf (r : Rat) : Bool := decide (r < 1 / 2)
def moreHalf (r : Rat) : Bool := decide (1 / 2 < r)

/-- Python's `round(x, 0)`: to the nearest integer, ties to the even one -/
def roundHalfEven (q : Rat) : Int :=
  let f := q.floor
  let r := q - (f : Rat)
  if lessHalf r then f
  else if moreHalf r then f + 1
  else if f % 2 = 0 then f else f + 1

/-! ### the table -/

def stats (r : Run) : Stats.S := Stats.addAll Stats.init r.samples

/-- `num_samples`, then `"Failed"` or the rounded mean (reporter.py:91-99) -/
def samplesCell (r : Run) : Cell := .num (stats r).n
def meanCell (r : Run) : Cell :=
  if (stats r).n = 0 then .failed else .num (roundHalfEven (stats r).mean)

/-- one full row: the nine identifying strings, `#Samples`, `Mean (ms)` -/
def cells (r : Run) : List Cell := r.ident.map .str ++ [samplesCell r, meanCell r]

/-- `key=itemgetter(2, 1, 3, 4, 5, 6, 7, 8)`: suite, executor, extra, cores, size, var, tag, machine -/
def sortKey (r : Run) : List String := [2, 1, 3, 4, 5, 6, 7, 8].map (fun i => r.ident.getD i "")

/-- tuple comparison of the keys: lexicographic, strings by code point -/
def keyLe (a b : Run) : Bool := !(decide (sortKey b < sortKey a))

/-- `sorted(rows, key=…)` is stable; so is `mergeSort`. The input order is the
iteration order of the run set. -/
def sortedRuns (rs : List Run) : List Run := rs.mergeSort keyLe

/-- `len(column_value_sets[i]) <= 1` -/
def uniformAt (i : Nat) : List (List Cell) → Bool
  | [] => true
  | r :: rest => rest.all (fun r' => r'[i]? == r[i]?)

/-- which columns stay in the table: more than one value, or the last column -/
def mask (rows : List (List Cell)) : List Bool :=
  (List.range colNames.length).map (fun i => i == colNames.length - 1 || !(uniformAt i rows))

def filterMask {α : Type} : List Bool → List α → List α
  | b :: bs, x :: xs => if b then x :: filterMask bs xs else filterMask bs xs
  | _, _ => []

/-- `summary.append([expected_columns[i], values.pop()])` for the removed columns, ascending -/
def summaryOf : List Bool → List String → List Cell → List (String × Cell)
  | b :: bs, n :: ns, c :: cs => if b then summaryOf bs ns cs else (n, c) :: summaryOf bs ns cs
  | _, _, _ => []

structure Table where
  cols    : List String
  rows    : List (List Cell)
  summary : List (String × Cell)   -- empty = no "Result Summary of Uniform Values" block
deriving DecidableEq, Repr

/-- `_generate_all_output`: tables with at most 4 rows keep every column -/
def table (rs : List Run) : Table :=
  let full := (sortedRuns rs).map cells
  if full.length ≤ 4 then ⟨colNames, full, []⟩
  else
    let m := mask full
    ⟨filterMask m colNames, full.map (filterMask m), summaryOf m colNames (full.headD [])⟩

/-! ### Codespeed -/

/-- the numeric part of one result entry (`_format_for_codespeed`, reporter.py:224-249);
`std_dev` is `sqrt(m2 / n)` and crosses as `m2` and `n` -/
structure CSEntry where
  run   : Nat                 -- position of the run in the session's run list
  value : Rat                 -- `result_value`: the mean, or -1
  minV  : Option Rat
  maxV  : Option Rat
  m2n   : Option (Rat × Nat)  -- (variance * n, n)
deriving DecidableEq, Repr

def csEntry (i : Nat) (r : Run) : CSEntry :=
  if r.failed then ⟨i, -1, none, none, none⟩
  else
    let s := stats r
    ⟨i, s.mean, some s.min, some s.max, some (s.m2, s.n)⟩

/-- what one `_send_to_codespeed` call does: the payload and how many `_send_payload`
calls it made (a second one iff the first raised) -/
structure CSReq where
  entries  : List CSEntry
  attempts : Nat
deriving DecidableEq, Repr

def csSend (entries : List CSEntry) (firstOk : Bool) : CSReq :=
  ⟨entries, if firstOk then 1 else 2⟩

/-- final (non-incremental) mode, `report_job_completed` **as repaired**: one request
with one entry per run, whatever the number of runs -/
def csFinal (rs : List Run) (firstOk : Bool) : Except String (List CSReq) :=
  .ok [csSend (rs.zipIdx.map (fun p => csEntry p.2 p.1)) firstOk]

/-- final mode for *one* Codespeed reporter of a session **as repaired**: `attached[i]` says whether
run `i` has this reporter (experiments may bring their own `reporting.codespeed` section); it
reports the runs it is attached to and no others -/
def csFinalOf (attached : List Bool) (rs : List Run) (firstOk : Bool) : Except String (List CSReq) :=
  .ok [csSend ((rs.zipIdx.filter (fun p => attached.getD p.2 false)).map (fun p => csEntry p.2 p.1)) firstOk]

/-- before that repair every reporter reported every run the executor had, under its own project -/
def csFinalOfAllRuns (_attached : List Bool) (rs : List Run) (firstOk : Bool) : Except String (List CSReq) :=
  csFinal rs firstOk

/-- the pinned tree: `run_ids[0]` on a set when there is exactly one run -/
def csFinalPinned (rs : List Run) (firstOk : Bool) : Except String (List CSReq) :=
  if rs.length = 1 then .error "TypeError" else csFinal rs firstOk

/-- incremental mode: `_cache` (dict run → entry, insertion ordered), `_last_send`
(never updated after construction), requests sent so far -/
structure CSState where
  cache    : List (Nat × CSEntry)
  lastSend : Nat
  reqs     : List CSReq
deriving DecidableEq, Repr

def cachePut (c : List (Nat × CSEntry)) (i : Nat) (e : CSEntry) : List (Nat × CSEntry) :=
  match c with
  | [] => [(i, e)]
  | (j, e') :: rest => if j = i then (j, e) :: rest else (j, e') :: cachePut rest i e

def csFlush (s : CSState) (firstOk : Bool) : CSState :=
  match s.cache with
  | [] => s
  | _ :: _ => { s with cache := [], reqs := s.reqs ++ [csSend (s.cache.map (·.2)) firstOk] }

inductive CSEvent where
  /-- `run_completed(run_id, statistics, cmdline)` at clock `now` -/
  | completed (i : Nat) (r : Run) (now : Nat) (firstOk : Bool)
  /-- `report_job_completed` -/
  | job (firstOk : Bool)
deriving Repr

def csStep (s : CSState) : CSEvent → CSState
  | .completed i r now ok =>
      let s1 := { s with cache := cachePut s.cache i (csEntry i r) }
      if now - s.lastSend ≥ 30 ∧ s.lastSend ≤ now then csFlush s1 ok else s1
  | .job ok => csFlush s ok

def csRun (t0 : Nat) (es : List CSEvent) : CSState := es.foldl csStep ⟨[], t0, []⟩

end RB.Report
