/-
C07 — run identity: the `__eq__` field lists, `as_dict` and `from_dict` of
`RunId`, `Benchmark`, `BenchmarkSuite`, `Executor`, `ExpRunDetails`,
`ExpVariables`, `BuildCommand`
(`rebench/model/run_id.py:364-374,432-470`, `benchmark.py:81-88,138-160`,
`benchmark_suite.py:69-76,106-134`, `executor.py:80-90,119-151`,
`exp_run_details.py:100-117,170-231`, `exp_variables.py:49-79`, `build_cmd.py`).

A structure below holds exactly the fields that enter `__eq__` / `__hash__`
(plus `cmdline`, which `from_dict` restores but which is not part of the
identity).  JSON is the identity on `None`, booleans, integers, strings, floats,
lists and string-keyed maps; a YAML date is not serialisable (`json.dumps`
raises `TypeError`).

Imports nothing outside core Lean.
-/
namespace RB.Identity

/-- configuration scalars as YAML delivers them -/
inductive Val where
  | none
  | bool (b : Bool)
  | int (i : Int)
  | str (s : String)
  | float (repr : String)     -- a float, by its shortest repr (which `json` prints and reads back)
  | date (s : String)         -- `datetime.date` from an unquoted YAML date
deriving DecidableEq, Repr

/-- JSON values; `date` marks what `json.dumps` cannot serialise -/
inductive J where
  | null
  | bool (b : Bool)
  | int (i : Int)
  | str (s : String)
  | float (repr : String)
  | date (s : String)
  | arr (xs : List J)
  | obj (kvs : List (String × J))
deriving Repr

def Val.toJ : Val → J
  | .none => .null
  | .bool b => .bool b
  | .int i => .int i
  | .str s => .str s
  | .float r => .float r
  | .date s => .date s

def J.toVal : J → Val
  | .bool b => .bool b
  | .int i => .int i
  | .str s => .str s
  | .float r => .float r
  | .date s => .date s
  | _ => .none

mutual
/-- does `json.dumps` succeed -/
def J.serialisable : J → Bool
  | .date _ => false
  | .arr xs => J.allSer xs
  | .obj kvs => J.allSerKV kvs
  | _ => true
def J.allSer : List J → Bool
  | [] => true
  | x :: xs => x.serialisable && J.allSer xs
def J.allSerKV : List (String × J) → Bool
  | [] => true
  | (_, x) :: xs => x.serialisable && J.allSerKV xs
end

/-- `json.loads(json.dumps(j))`: identity, or `TypeError` -/
def J.roundTrip (j : J) : Option J := if j.serialisable then some j else none

/-- a key that is written only when the value is not `None` -/
def optField (name : String) (v : Val) : List (String × J) :=
  if v = .none then [] else [(name, v.toJ)]

/-- `data.get(name, None)` for a scalar -/
def getVal (kvs : List (String × J)) (name : String) : Val :=
  match kvs.lookup name with
  | some j => j.toVal
  | none => .none

def listJ (vs : List Val) : J := .arr (vs.map Val.toJ)

def getList (kvs : List (String × J)) (name : String) (dflt : List Val) : List Val :=
  match kvs.lookup name with
  | some (.arr xs) => xs.map J.toVal
  | _ => dflt

/-! ### ExpVariables -/
structure Vars where
  inputSizes : List Val
  cores : List Val
  variableValues : List Val
  tags : List Val
deriving DecidableEq, Repr

def Vars.asDict (v : Vars) : J :=
  .obj [("input_sizes", listJ v.inputSizes), ("cores", listJ v.cores),
        ("variable_values", listJ v.variableValues), ("tags", listJ v.tags)]

/-- `ExpVariables.from_dict` (defaults of `ExpVariables.empty()`); `None` or a non-map: `AttributeError` -/
def Vars.fromDict : J → Option Vars
  | .obj kvs => some { inputSizes := getList kvs "input_sizes" [.str ""], cores := getList kvs "cores" [.int 1],
                       variableValues := getList kvs "variable_values" [.str ""], tags := getList kvs "tags" [.none] }
  | _ => none

/-! ### ExpRunDetails -/
structure RunDetails where
  invocations : Val
  iterations : Val
  warmup : Val
  minIterationTime : Val
  maxInvocationTime : Val
  ignoreTimeouts : Val
  parallelInterferenceFactor : Val
  executeExclusively : Val
  retriesAfterFailure : Val
  env : Option (List (String × Val))
  invocationsOverride : Val
  iterationsOverride : Val
deriving DecidableEq, Repr

def envJ (e : List (String × Val)) : J := .obj (e.map (fun kv => (kv.1, kv.2.toJ)))

def envField : Option (List (String × Val)) → List (String × J)
  | some e => [("env", envJ e)]
  | none => []

def RunDetails.fields (r : RunDetails) : List (String × J) :=
  optField "invocations" r.invocations ++ optField "iterations" r.iterations ++ optField "warmup" r.warmup ++
  optField "minIterationTime" r.minIterationTime ++ optField "maxInvocationTime" r.maxInvocationTime ++
  optField "ignore_timeouts" r.ignoreTimeouts ++
  optField "parallel_interference_factor" r.parallelInterferenceFactor ++
  optField "execute_exclusively" r.executeExclusively ++
  optField "retries_after_failure" r.retriesAfterFailure ++
  envField r.env ++
  optField "invocations_override" r.invocationsOverride ++ optField "iterations_override" r.iterationsOverride

/-- `as_dict` returns `None` when no field is set -/
def RunDetails.asDict (r : RunDetails) : J :=
  if r.fields.isEmpty then .null else .obj r.fields

def getEnv (kvs : List (String × J)) : Option (List (String × Val)) :=
  match kvs.lookup "env" with
  | some (.obj e) => some (e.map (fun kv => (kv.1, kv.2.toVal)))
  | _ => none

/-- `ExpRunDetails.from_dict`: `data.get(...)` on `None` is an `AttributeError` -/
def RunDetails.fromDict : J → Option RunDetails
  | .obj kvs => some {
      invocations := getVal kvs "invocations", iterations := getVal kvs "iterations",
      warmup := getVal kvs "warmup", minIterationTime := getVal kvs "minIterationTime",
      maxInvocationTime := getVal kvs "maxInvocationTime", ignoreTimeouts := getVal kvs "ignore_timeouts",
      parallelInterferenceFactor := getVal kvs "parallel_interference_factor",
      executeExclusively := getVal kvs "execute_exclusively",
      retriesAfterFailure := getVal kvs "retries_after_failure", env := getEnv kvs,
      invocationsOverride := getVal kvs "invocations_override",
      iterationsOverride := getVal kvs "iterations_override" }
  | _ => none

/-! ### Executor (`BuildCommand` is its command text; its location is the executor's path) -/
structure Exec where
  name : Val
  description : Val
  action : Val
  path : Val
  executable : Val
  args : Val
  build : Val            -- `"\n".join(commands)` or None
  runDetails : RunDetails
  variables : Vars
deriving DecidableEq, Repr

def Exec.asDict (e : Exec) : J :=
  .obj ([("name", e.name.toJ), ("executable", e.executable.toJ), ("action", e.action.toJ),
         ("runDetails", e.runDetails.asDict), ("variables", e.variables.asDict)] ++
        optField "path" e.path ++ optField "args" e.args ++ optField "desc" e.description ++
        optField "build" e.build)

def Exec.fromDict : J → Option Exec
  | .obj kvs => do
      let name ← kvs.lookup "name"
      let exe ← kvs.lookup "executable"
      let rd ← RunDetails.fromDict ((kvs.lookup "runDetails").getD .null)
      let vs ← Vars.fromDict ((kvs.lookup "variables").getD .null)
      pure { name := name.toVal, description := getVal kvs "desc", action := getVal kvs "action",
             path := getVal kvs "path", executable := exe.toVal, args := getVal kvs "args",
             build := getVal kvs "build", runDetails := rd, variables := vs }
  | _ => none

/-! ### BenchmarkSuite -/
structure Suite where
  name : Val
  command : Val
  location : Val
  desc : Val
  build : Val
  executor : Exec
deriving DecidableEq, Repr

def Suite.asDict (s : Suite) : J :=
  .obj ([("name", s.name.toJ), ("command", s.command.toJ), ("executor", s.executor.asDict)] ++
        optField "location" s.location ++ optField "desc" s.desc ++ optField "build" s.build)

def Suite.fromDict : J → Option Suite
  | .obj kvs => do
      let ex ← Exec.fromDict (← kvs.lookup "executor")
      let name ← kvs.lookup "name"
      let cmd ← kvs.lookup "command"
      pure { name := name.toVal, command := cmd.toVal, location := getVal kvs "location",
             desc := getVal kvs "desc", build := getVal kvs "build", executor := ex }
  | _ => none

/-! ### Benchmark -/
structure Bench where
  name : Val
  command : Val
  extraArgs : Val
  runDetails : RunDetails
  variables : Vars
  suite : Suite
deriving DecidableEq, Repr

def Bench.asDict (b : Bench) : J :=
  .obj ([("name", b.name.toJ), ("command", b.command.toJ), ("runDetails", b.runDetails.asDict),
         ("suite", b.suite.asDict), ("variables", b.variables.asDict)] ++ optField "extra_args" b.extraArgs)

def Bench.fromDict : J → Option Bench
  | .obj kvs => do
      let rd ← RunDetails.fromDict (← kvs.lookup "runDetails")
      let su ← Suite.fromDict (← kvs.lookup "suite")
      let vs ← Vars.fromDict ((kvs.lookup "variables").getD .null)
      let name ← kvs.lookup "name"
      let cmd ← kvs.lookup "command"
      pure { name := name.toVal, command := cmd.toVal, extraArgs := getVal kvs "extra_args",
             runDetails := rd, variables := vs, suite := su }
  | _ => none

/-! ### RunId -/
structure Run where
  benchmark : Bench
  cores : Val
  inputSize : Val
  varValue : Val
  tag : Val
  machine : Val
  cmdline : String        -- restored by `from_dict`, not part of `__eq__`
deriving DecidableEq, Repr

/-- `as_dict(True)` plus the `benchmark_id` that `_ensure_run_id_is_persisted` adds
(`location` and `extraArgs` are written too but never read back) -/
def Run.asDict (r : Run) (benchId : Nat) : J :=
  .obj ([("cmdline", .str r.cmdline)] ++ optField "cores" r.cores ++ optField "inputSize" r.inputSize ++
        optField "varValue" r.varValue ++ optField "tag" r.tag ++ optField "machine" r.machine ++
        [("benchmark_id", .int benchId)])

/-- `RunId.from_dict(d, benchmark)` with the benchmark looked up by `benchmark_id` -/
def Run.fromDict (benchmarks : List Bench) : J → Option Run
  | .obj kvs => do
      let bid ← kvs.lookup "benchmark_id"
      let b ← match bid with
        | .int i => benchmarks[i.toNat]?
        | _ => none
      let cmd ← match kvs.lookup "cmdline" with
        | some (.str s) => some s
        | _ => none
      pure { benchmark := b, cores := getVal kvs "cores", inputSize := getVal kvs "inputSize",
             varValue := getVal kvs "varValue", tag := getVal kvs "tag", machine := getVal kvs "machine",
             cmdline := cmd }
  | _ => none

/-- what the file makes of a benchmark / a run: dump, parse, `from_dict` -/
def Bench.reload (b : Bench) : Option Bench := b.asDict.roundTrip.bind Bench.fromDict
def Run.reload (r : Run) (benchmarks : List Bench) (benchId : Nat) : Option Run :=
  (r.asDict benchId).roundTrip.bind (Run.fromDict benchmarks)

/-- what every compiled configuration guarantees (the chain of `ExpRunDetails.compile`
starts at `ExpRunDetails.default`, whose `invocations` is 1, and no level can
set it back to `None`) -/
def RunDetails.Configured (r : RunDetails) : Prop := r.invocations ≠ .none

def Bench.Configured (b : Bench) : Prop :=
  b.runDetails.Configured ∧ b.suite.executor.runDetails.Configured

/-- no YAML date anywhere in the identity -/
def valsOk (vs : List Val) : Bool := vs.all (fun v => match v with | .date _ => false | _ => true)

/-! ### the defect repaired by `fix: RunId.env …`: `~` expansion *in place*

`RunId.env` expanded `~` in the values of `benchmark.run_details.env` inside
the shared configuration map, so `as_dict` at the first `persist` saw the
expanded values. -/
def RunDetails.expandEnv (expand : String → String) (r : RunDetails) : RunDetails :=
  { r with env := r.env.map (fun e => e.map (fun kv => (kv.1, match kv.2 with
      | .str s => .str (expand s) | v => v))) }

/-- the key as `as_dict` sees it at the first `persist`: `inPlace = true` is the
pinned tree, `false` the repaired one -/
def Bench.recorded (inPlace : Bool) (expand : String → String) (b : Bench) : Bench :=
  if inPlace then { b with runDetails := b.runDetails.expandEnv expand } else b

end RB.Identity
