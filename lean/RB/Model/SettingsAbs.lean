/-
How the settings model (`RB.Settings`) reads Python values (`RB.Py.V`): the abstraction used by the
translation tie of C02 (`RB.Proofs.GenC02`) and by its directed search (`drivers/C02gen.lean`).
-/
import RB.Util.PyVal
import RB.Model.Settings

namespace RB.Settings
open RB.Py

/-- Python value of `invocations` / `iterations` / `warmup` → `Raw` -/
def absRaw : V → Option Raw
  | .none => some .absent
  | .int i => if 0 ≤ i then some (.plain i.toNat) else none
  | .str cs =>
    if V.allDigits cs then some (.plain (V.digitsVal cs))
    else if cs.getLast? = some '!' ∧ V.allDigits cs.dropLast then some (.marked (V.digitsVal cs.dropLast))
    else none
  | _ => none

/-- the model's `Option Nat` result as a Python value -/
def ofOptNat : Option Nat → V
  | none => V.none
  | some n => V.int n

end RB.Settings
