/-
C15 — model of `rebench/statistics.py: StatisticProperties.add_sample`
over exact rationals (every double is a dyadic rational; rounding is not
modelled, see DESIGN.md).  The geometric mean is not modelled: no property
mentions it.  `m2` is `_variance_times_num_samples`; std_dev² = m2 / n.
-/
namespace RB.Stats

structure S where
  n    : Nat
  mean : Rat
  m2   : Rat
  min  : Rat
  max  : Rat
deriving Repr, DecidableEq

/-- Python's `min(a, b)` / `max(a, b)` on numbers -/
def rmin (a b : Rat) : Rat := if b < a then b else a
def rmax (a b : Rat) : Rat := if a < b then b else a

def init : S := { n := 0, mean := 0, m2 := 0, min := 0, max := 0 }

/-- one `add_sample` call -/
def add (s : S) (x : Rat) : S :=
  if s.n = 0 then
    { n := 1, mean := x, m2 := s.m2, min := x, max := x }
  else
    let n' := s.n + 1
    let mean' := s.mean + (x - s.mean) / (n' : Rat)
    { n := n', mean := mean',
      m2 := s.m2 + (x - s.mean) * (x - mean'),
      min := rmin s.min x,
      max := rmax s.max x }

def addAll (s : S) (xs : List Rat) : S := xs.foldl add s

/-- textbook values computed from the complete list -/
def sum (xs : List Rat) : Rat := xs.foldl (· + ·) 0
def tmean (xs : List Rat) : Rat := sum xs / (xs.length : Rat)
def tm2 (xs : List Rat) : Rat := sum (xs.map (fun x => (x - tmean xs) * (x - tmean xs)))
def tmin : List Rat → Rat
  | [] => 0
  | x :: xs => xs.foldl rmin x
def tmax : List Rat → Rat
  | [] => 0
  | x :: xs => xs.foldl rmax x

/-- A data point as far as warm-up exclusion is concerned: its iteration
number and its total value. -/
structure DP where
  iteration : Nat
  total : Rat
deriving Repr, DecidableEq

/-- live: `executor.py` drops the first `w` data points of an invocation by
position (`warmup -= 1` per data point). -/
def liveSamples (w : Nat) (dps : List DP) : List Rat := (dps.drop w).map (·.total)

/-- reload: `persistence.py` drops data points whose iteration number is
`≤ w` (`iteration > warmup` keeps). -/
def reloadSamples (w : Nat) (dps : List DP) : List Rat :=
  (dps.filter (fun d => w < d.iteration)).map (·.total)

/-- the shape the adapters guarantee (C12): iterations are 1..k in order -/
def numbered : Nat → List DP → Prop
  | _, [] => True
  | i, d :: ds => d.iteration = i ∧ numbered (i + 1) ds

end RB.Stats
