/-
JSON <-> model glue shared by the drivers of C04, C10 and C11.
Only drivers import this file.
-/
import RB.Util.Driver
import RB.Model.Sched
open Lean RB.Drv RB.Term RB.Sched

namespace RB.SchedDrv

def parseOutcome (j : Json) : Option Outcome :=
  match getNat? j "oserror" with
  | some _ => some .osError
  | none => do
    let rc ← getInt? j "rc"
    let dps ← getNat? j "dps"
    let marker := (getBool? j "marker").getD false
    pure (.exit rc marker dps)

def parseCfg (j : Json) (faulty : Bool) : Option Cfg := do
  let n ← getNat? j "N"
  let retries ← getNat? j "retries"
  let warmup := (getNat? j "warmup").getD 0
  let ig := (getBool? j "ignore_timeouts").getD false
  pure { N := n, retries := retries, warmup := warmup, ignoreTimeouts := ig, faulty := faulty }

def evJson : Ev → Json
  | .start i => Json.arr #[Json.str "start", Json.num i]
  | .record i d => Json.arr #[Json.str "record", Json.num i, Json.num d]
  | .build b => Json.arr #[Json.str "build", Json.num b]

def tevJson (p : Nat × Ev) : Json :=
  match p.2 with
  | .start i => Json.arr #[Json.num p.1, Json.str "start", Json.num i]
  | .record i d => Json.arr #[Json.num p.1, Json.str "record", Json.num i, Json.num d]
  | .build b => Json.arr #[Json.num p.1, Json.str "build", Json.num b]

def stJson (s : St) : Json :=
  Json.mkObj [("consec", Json.num s.consec), ("failed", Json.num s.failed), ("failNow", Json.bool s.failNow),
              ("maxInv", Json.num s.maxInv), ("samples", Json.num s.samples),
              ("exeMissing", Json.bool s.exeMissing), ("succeeded", Json.bool s.succeeded)]

def parseSt (j : Json) : Option St := do
  let m ← getNat? j "maxInv"
  let sm ← getNat? j "samples"
  pure { maxInv := m, samples := sm }

def statusJson : Status → Json
  | .ok => Json.str "ok" | .failed => Json.str "failed" | .aborted => Json.str "aborted"
  | .uiError => Json.str "ui_error" | .crash => Json.str "crash"

def parseKind (s : String) : Option Kind :=
  match s with
  | "batch" => some .batch | "round-robin" => some .roundRobin | "random" => some .random | _ => none

def parseFilter (j : Json) : Option FilterExpr := do
  let k ← getStr? j "kind"
  let n ← getNat? j "parts"
  match k with
  | "e" => some (.exec n) | "s" => some (.suite n) | "t" => some (.tag n) | _ => none

def parseArg (j : Json) : Option Arg := do
  let k ← getStr? j "kind"
  match k with
  | "name" => some (.name ((getBool? j "known").getD false))
  | _ => (parseFilter j).map Arg.filter

def parseUsageArgs (j : Json) : Option Usage := do
  let as ← getArr? j "args"
  let as ← as.toList.mapM parseArg
  pure (usageOfArgs as ((getBool? j "schedKnown").getD true) ((getBool? j "machineKnown").getD true))

def parseUsage0 (j : Json) : Option Usage := do
  let fs := (getArr? j "filters").getD #[]
  let fs ← fs.toList.mapM parseFilter
  pure { schedKnown := (getBool? j "schedKnown").getD true, filters := fs,
         expKnown := (getBool? j "expKnown").getD true, machineKnown := (getBool? j "machineKnown").getD true }

structure Scn where
  cf : Conf
  g : G
  n : Nat
  faulty : Bool

def listFn {α : Type} [Inhabited α] (l : List α) : Nat → α := fun i => l.getD i default

/-- runs / scripts / init / builds / faulty / doBuilds of a scenario -/
def parseScn (j : Json) : Option Scn := do
  let faulty := (getBool? j "faulty").getD false
  let runs ← getArr? j "runs"
  let rcs ← runs.toList.mapM (fun r => do
    let c ← parseCfg r faulty
    let exe ← getNat? r "exe"
    let ad := (getBool? r "adapter").getD true
    let bs := (getArr? r "builds").getD #[]
    let bs ← bs.toList.mapM asNat?
    pure ({ cfg := c, exe := exe, adapterKnown := ad, builds := bs } : RunCfg))
  let scripts ← getArr? j "scripts"
  let scripts ← scripts.toList.mapM (fun s => do
    let a ← asArr? s
    a.toList.mapM parseOutcome)
  let inits := (getArr? j "init").getD #[]
  let inits ← inits.toList.mapM parseSt
  let failing := (getArr? j "failing_builds").getD #[]
  let failing ← failing.toList.mapM asNat?
  let n := rcs.length
  let rss : List RunSt := (List.range n).map (fun i =>
    { t := inits.getD i {}, script := scripts.getD i [] })
  let cf : Conf := { run := listFn rcs, doBuilds := (getBool? j "doBuilds").getD true,
                     buildOk := fun b => !failing.contains b }
  pure { cf := cf, g := { rs := listFn rss }, n := n, faulty := faulty }

def parseUsage (j : Json) : Option Usage :=
  match getArr? j "args" with
  | some _ => parseUsageArgs j
  | none => parseUsage0 j

def runStJson (s : RunSt) : Json :=
  (stJson s.t).mergeObj (Json.mkObj [("cmdBuilt", Json.bool s.cmdBuilt), ("pending", Json.bool s.pending),
                                     ("script_left", Json.num s.script.length)])

def finalJson (n : Nat) (rs : Nat → RunSt) : Json :=
  Json.arr ((List.range n).map (fun i => runStJson (rs i))).toArray

/-- op `*.trace`: one run fed an outcome stream -/
def opTrace (j : Json) : Option Json := do
  let faulty := (getBool? j "faulty").getD false
  let c ← parseCfg j faulty
  let s0 := match getObj? j "s0" with | some o => (parseSt o).getD {} | none => {}
  let os ← getArr? j "outcomes"
  let os ← os.toList.mapM parseOutcome
  let r := runTrace c s0 os
  pure (Json.mkObj [("events", Json.arr (r.2.map evJson).toArray), ("final", stJson r.1),
                    ("consumed", Json.num (consumed c s0 os)),
                    ("terminated", Json.bool (shouldTerminate c r.1)),
                    ("abandoned", Json.bool (abandoned c r.1)),
                    ("numbered", Json.bool (numbered s0.maxInv r.2)),
                    ("spec_terminated", Json.bool (specTerminate c ((os.take (consumed c s0 os)).reverse)))])

/-- op `*.session`: a sequential session through `mainFunc` -/
def opSession (j : Json) : Option Json := do
  let sc ← parseScn j
  let kind ← (getStr? j "kind").bind parseKind
  let order ← getArr? j "order"
  let order ← order.toList.mapM asNat?
  let choices ← getArr? j "choices"
  let choices ← choices.toList.mapM asNat?
  let usage := match getObj? j "usage" with | some u => (parseUsage u).getD {} | none => {}
  let stopAt := getNat? j "stopAt"
  let pinned := (getBool? j "pinned").getD false
  let out := mainFunc sc.cf usage kind sc.faulty sc.g order choices stopAt
  let r := session sc.cf kind sc.g order choices
  pure (Json.mkObj [("status", statusJson out.status), ("trace", Json.arr (out.trace.map tevJson).toArray),
                    ("final", match out.final with | some g => finalJson sc.n g.rs | none => Json.null),
                    ("picks", Json.arr (r.picks.map (fun (p : Nat) => Json.num p)).toArray),
                    ("finished", Json.bool r.finished),
                    ("pinned_status", if pinned then
                        (match usageStatusPinned usage with
                         | some st => statusJson st
                         | none => statusJson (if sessionOkPinned sc.faulty r.g order then .ok else .failed))
                      else Json.null)])

/-- op `*.exec`: the abstract scheduler on an observed pick sequence (half steps) -/
def opExec (j : Json) : Option Json := do
  let sc ← parseScn j
  let picks ← getArr? j "picks"
  let picks ← picks.toList.mapM asNat?
  let runs ← getArr? j "active"
  let runs ← runs.toList.mapM asNat?
  let S := halfSys sc.cf
  let r := exec S sc.g.rs picks
  pure (Json.mkObj [("trace", Json.arr (r.2.map tevJson).toArray), ("final", finalJson sc.n r.1),
                    ("valid", Json.bool (valid S sc.g.rs picks)),
                    ("complete", Json.bool (complete S sc.g.rs runs picks))])

/-- op `*.chunks`: the work distribution of the parallel scheduler -/
def opChunks (j : Json) : Option Json := do
  let cpu ← getNat? j "cpu"
  let rem ← getArr? j "remaining"
  let rem ← rem.toList.mapM asNat?
  let t := numThreads cpu
  pure (Json.mkObj [("threads", Json.num t), ("threads_pinned", Json.num (numThreadsPinned cpu)),
                    ("chunks", Json.arr ((handout t rem).map (fun c => Json.arr (c.map (fun (x : Nat) => Json.num x)).toArray)).toArray)])

def handle (op : String) (j : Json) : Option Json :=
  match op.splitOn "." with
  | [_, "trace"] => opTrace j
  | [_, "session"] => opSession j
  | [_, "exec"] => opExec j
  | [_, "chunks"] => opChunks j
  | _ => none

end RB.SchedDrv
