/-
JSON encoding shared by the C06 / C07 / C08 drivers: session scenarios in,
session results out.  Run and benchmark identities cross as indices (`Nat`);
`rt` tables say what the identity becomes after the JSON round trip.
-/
import RB.Util.Driver
import RB.Model.Session
open Lean

namespace RB.Drv
open RB.DataFile RB.Session

def chars (s : String) : List Char := s.toList
def str (cs : List Char) : String := String.ofList cs

def parseMeas? (j : Json) : Option Meas := do
  let c ← getStr? j "c"
  let u ← getStr? j "u"
  match getRat? j "v" with
  | some q => pure { crit := c, unit := u, value := .flt q }
  | none =>
    let r ← getStr? j "raw"
    pure { crit := c, unit := u, value := .raw r.toList }

def valueJson (v : Value) : Json := Json.str (str v.text)

def lineJson : Line Nat Nat → Json
  | .sess i => Json.arr #[Json.str "S", Json.num i]
  | .header => Json.arr #[Json.str "H"]
  | .bench id b => Json.arr #[Json.str "B", Json.num id, Json.num b]
  | .run id bid k => Json.arr #[Json.str "R", Json.num id, Json.num bid, Json.num k]
  | .meas inv it m k rid =>
    Json.arr #[Json.str "M", Json.num inv, Json.num it, valueJson m.value, Json.str m.unit,
               Json.str m.crit, Json.num k, Json.num rid]

def parseLine? (j : Json) : Option (Line Nat Nat) := do
  let a ← asArr? j
  let tag ← asStr? (← a[0]?)
  match tag with
  | "S" => pure (.sess (← asNat? (← a[1]?)))
  | "H" => pure .header
  | "B" => pure (.bench (← asNat? (← a[1]?)) (← asNat? (← a[2]?)))
  | "R" => pure (.run (← asNat? (← a[1]?)) (← asNat? (← a[2]?)) (← asNat? (← a[3]?)))
  | "M" => do
      let m : Meas := { value := .raw (← asStr? (← a[3]?)).toList, unit := ← asStr? (← a[4]?), crit := ← asStr? (← a[5]?) }
      pure (.meas (← asNat? (← a[1]?)) (← asNat? (← a[2]?)) m (← asNat? (← a[6]?)) (← asNat? (← a[7]?)))
  | _ => none

def evJson : Ev → Json
  | .build b => Json.arr #[Json.str "b", Json.num b]
  | .start r inv => Json.arr #[Json.str "r", Json.num r, Json.num inv]

def runStJson (r : RunSt) : Json :=
  Json.mkObj [("m", Json.num r.m), ("samples", Json.num r.samples), ("consec", Json.num r.consec),
              ("failed", Json.num r.failed), ("failImm", Json.bool r.failImm)]

def endJson : SessionEnd → Json
  | .complete => Json.str "complete"
  | .interrupted => Json.str "interrupted"
  | .outOfFuel => Json.str "out-of-fuel"
  | .loadError e => Json.str ("load-error:" ++ (match e with
      | .assertBenchDup => "assert-bench-dup" | .assertBenchId => "assert-bench-id"
      | .benchIndex => "bench-index" | .assertRunId => "assert-run-id" | .unknownRunId => "unknown-run-id"
      | .mixedDataPoint => "mixed-data-point"))

def parseRunC? (j : Json) : Option (RunC Nat × Nat) := do
  let key ← getNat? j "key"
  let bench ← getNat? j "bench"
  let n ← getNat? j "invocations"
  let retries ← getNat? j "retries"
  let warmup ← getNat? j "warmup"
  let files ← (← getArr? j "files").toList.mapM asNat?
  let builds ← (← getArr? j "builds").toList.mapM asNat?
  pure ({ key := key, invocations := n, retries := retries, warmup := warmup, files := files, builds := builds }, bench)

/-- harness table: per run a list indexed by invocation-1 of `null` (nothing parsable, exit 1), a list of
data points (exit 0), or `{"rc": n, "dps": [...]}` -/
def parseOutTable? (j : Json) : Option (List (List (Option RawOut))) := do
  let a ← asArr? j
  let parseDps := fun (o : Json) => do
    let dps ← asArr? o
    dps.toList.mapM (fun dp => do (← asArr? dp).toList.mapM parseMeas?)
  a.toList.mapM (fun perRun => do
    let invs ← asArr? perRun
    invs.toList.mapM (fun o =>
      if o.isNull then some none
      else match getInt? o "rc" with
        | some rc => do
            let dps ← parseDps (← getObj? o "dps")
            pure (some { rc := rc, dps := dps })
        | none => do
            let dps ← parseDps o
            pure (some { rc := 0, dps := dps })))

def parseSched? (s : String) : Option Sched :=
  match s with
  | "batch" => some .batch | "round-robin" => some .roundRobin | "random" => some .random | _ => none

def parseClean (j : Json) : Bool := (getBool? j "clean").getD false

def parseSessionSpec? (j : Json) : Option (Sched × List Nat × List Nat × Option Nat) := do
  let sched ← parseSched? (← getStr? j "sched")
  let order ← (← getArr? j "order").toList.mapM asNat?
  let choices ← (← getArr? j "choices").toList.mapM asNat?
  let stop := getNat? j "stop"
  pure (sched, order, choices, stop)

/-- table lookup with identity default: `rt[i]` -/
def tableFn (t : List Nat) (i : Nat) : Nat := t.getD i i

structure Scenario where
  colsOf : Option (Nat → List (List Char))     -- run columns: when given, files are read at text level
  cfg : List (RunC Nat)
  benchOf : Nat → Nat
  H : Harness
  specs : List (Sched × List Nat × List Nat × Option Nat)
  cleans : List Bool
  rtK : Nat → Nat
  rtB : Nat → Nat
  contents : List (List (Line Nat Nat))

def parseScenario? (j : Json) : Option Scenario := do
  let runs ← (← getArr? j "runs").toList.mapM parseRunC?
  let outs ← parseOutTable? (← getObj? j "out")
  let buildOk ← (← getArr? j "buildOk").toList.mapM asBool?
  let specs ← (← getArr? j "sessions").toList.mapM parseSessionSpec?
  let cleans := (← getArr? j "sessions").toList.map parseClean
  let nfiles ← getNat? j "nfiles"
  let rtK := match getArr? j "rtK" with
    | some a => (a.toList.mapM asNat?).getD []
    | none => []
  let rtB := match getArr? j "rtB" with
    | some a => (a.toList.mapM asNat?).getD []
    | none => []
  let contents ← match getArr? j "contents" with
    | some a => a.toList.mapM (fun f => do (← asArr? f).toList.mapM parseLine?)
    | none => some (List.replicate nfiles [])
  let ign : List Bool := match getArr? j "ignoreTimeouts" with
    | some a => a.toList.map (fun x => (asBool? x).getD false)
    | none => []
  let colsTable : Option (List (List (List Char))) := do
    let a ← getArr? j "cols"
    a.toList.mapM (fun r => do (← asArr? r).toList.mapM (fun c => (asStr? c).map String.toList))
  let benches := runs.map (·.2)
  -- identities are `key`s; benchOf maps a key to the benchmark of the run with that key
  let benchOf := fun k => match runs.find? (fun r => r.1.key = k) with
    | some r => r.2
    | none => benches.getD k 0
  pure { colsOf := colsTable.map (fun t => fun k => t.getD k []), cfg := runs.map (·.1), benchOf := benchOf,
         H := harnessOf ((getBool? j "faulty").getD false) (fun i => ign.getD i false)
                (fun r inv => ((outs.getD r []).getD (inv - 1) none)) (fun b => buildOk.getD b true),
         specs := specs, cleans := cleans, rtK := tableFn rtK, rtB := tableFn rtB, contents := contents }

/-- consecutive measurement lines as one text blob (what is on disk between two comment lines) -/
def segments (colsOf : Nat → List (List Char)) : List (Line Nat Nat) → List Json
  | [] => []
  | l :: ls =>
    match l with
    | .meas inv it m k rid =>
      let txt := str (measText colsOf inv it m k rid ++ ['\n'])
      match segments colsOf ls with
      | (Json.arr #[Json.str "D", Json.str rest]) :: more => Json.arr #[Json.str "D", Json.str (txt ++ rest)] :: more
      | more => Json.arr #[Json.str "D", Json.str txt] :: more
    | other => lineJson other :: segments colsOf ls

/-- per session: ending, trace, appended lines per file, run states -/
def resultJson (colsOf : Option (Nat → List (List Char))) (before : List (List (Line Nat Nat)))
    (r : SessionResult Nat Nat) : Json :=
  let appended := (r.contents.zip before).map (fun (a, b) =>
    Json.mkObj ([("prefix_kept", Json.bool (b.isPrefixOf a)),
                 ("appended", Json.arr ((a.drop b.length).map lineJson).toArray)] ++
                (match colsOf with
                 | some f => [("segments", Json.arr (segments f (a.drop b.length)).toArray)]
                 | none => [])))
  Json.mkObj [("end", endJson r.ending),
              ("trace", Json.arr (r.trace.map evJson).toArray),
              ("files", Json.arr appended.toArray),
              ("runs", Json.arr (r.runs.map runStJson).toArray),
              ("loaded", Json.arr (r.loadedRuns.map runStJson).toArray)]

def runScenario (sc : Scenario) : Json :=
  let pairs : List (List (List (Line Nat Nat)) × SessionResult Nat Nat) := match sc.colsOf with
    | some f => sessionsClean sc.benchOf f sc.rtK sc.rtB sc.cfg sc.H (sc.cleans.zip sc.specs) sc.contents
    | none =>
      let rs := sessions sc.benchOf sc.rtK sc.rtB sc.cfg sc.H sc.specs sc.contents
      (sc.contents :: rs.map (·.contents)).zip rs
  let rs := pairs.map (·.2)
  Json.mkObj [("sessions", Json.arr (pairs.map (fun (b, r) => resultJson sc.colsOf b r)).toArray),
              ("final", Json.arr ((rs.getLast?.map (·.contents)).getD sc.contents |>.map
                  (fun f => Json.arr (f.map lineJson).toArray)).toArray)]

end RB.Drv
