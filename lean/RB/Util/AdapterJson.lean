/-
JSON encoding of the adapter model's results, shared by the C05 and C12 drivers.
-/
import RB.Util.Driver
import RB.Model.Adapters
open Lean

namespace RB.Drv.Ad
open RB.Adapters

def s (cs : List Char) : Json := Json.str (String.ofList cs)

def valJson : Val → Json
  | .flt q => Json.mkObj [("t", "f"), ("v", ratToJson q)]
  | .int n => Json.mkObj [("t", "i"), ("v", Json.str (toString n))]
  | .bool b => Json.mkObj [("t", "b"), ("v", Json.bool b)]
  | .inf n => Json.mkObj [("t", "inf"), ("neg", Json.bool n)]
  | .nan => Json.mkObj [("t", "nan")]

def measJson (m : Meas) : Json :=
  Json.mkObj [("inv", Json.num m.invocation), ("it", Json.num m.iteration),
              ("c", s m.criterion), ("u", s m.unit), ("v", valJson m.value)]

def outcomeJson : Outcome → Json
  | .ok dps => Json.mkObj [("outcome", "ok"),
      ("dps", Json.arr (dps.map (fun d => Json.arr (d.map measJson).toArray)).toArray)]
  | .notParseable => Json.mkObj [("outcome", "OutputNotParseable")]
  | .invalid => Json.mkObj [("outcome", "ResultsIndicatedAsInvalid")]
  | .crash .uiError => Json.mkObj [("outcome", "crash:UIError")]
  | .crash .valueError => Json.mkObj [("outcome", "crash:ValueError")]

def resultJson : Result → Json
  | .out o => outcomeJson o
  | .intDigitsError => Json.mkObj [("outcome", "crash:ValueError"), ("why", "int-max-str-digits")]

def adapter? : String → Option Adapter
  | "ReBenchLog" => some .rebenchLog
  | "PlainSecondsLog" => some .plainSeconds
  | "SavinaLog" => some .savina
  | "ValidationLog" => some .validation
  | "JMH" => some .jmh
  | "TimeFormatted" => some .timeFormatted
  | "TimeP" => some .timeP
  | _ => none

def re? : String → Option Re
  | "rebench.log" => some reRebenchLog
  | "rebench.extra" => some reRebenchExtra
  | "savina" => some reSavina
  | "validation.log" => some reValidation
  | "validation.actors" => some reActors
  | "jmh" => some reJMH
  | "jmh.old" => some reJMHOld
  | "time" => some reTime
  | "time2" => some reTime2
  | "time.formatted" => some reFormattedTime
  | "time.rss" => some reFormattedRss
  | _ => none

def searchRe? : String → Option Re
  | "Error" => some reError
  | "Segmentation fault" => some reSegfault
  | "Bus error" => some reBusError
  | "npb.partial" => some reNPBPartial
  | "npb.invalid" => some reNPBInvalid
  | "incorrect" => some reIncorrect
  | "error" => some reErr
  | "Run complete" => some reRunComplete
  | _ => none

/-- groups 1..n as strings or null -/
def capsJson (c : Caps) (n : Nat) : Json :=
  Json.arr ((List.range n).map (fun i => match cap c (i + 1) with
    | some v => s v
    | none => Json.null)).toArray

def handle (op : String) (j : Json) : Option Json :=
  match op with
  | "parse" => do
      let a ← getStr? j "adapter" >>= adapter?
      let text ← getStr? j "text"
      let faulty ← getBool? j "faulty"
      let inv ← getNat? j "inv"
      pure (resultJson (parse a faulty inv text.toList))
  | "parse_old" => do
      let a ← getStr? j "adapter"
      let text ← getStr? j "text"
      let faulty ← getBool? j "faulty"
      let inv ← getNat? j "inv"
      match a with
      | "JMH" => pure (outcomeJson (parseJMHOld faulty inv text.toList))
      | "SavinaLog" => pure (outcomeJson (parseSavinaOld faulty inv text.toList))
      | _ => none
  | "match" => do
      let r ← getStr? j "re" >>= re?
      let line ← getStr? j "line"
      let n ← getNat? j "groups"
      match r.pmatch line.toList with
      | some c => pure (Json.mkObj [("m", capsJson c n)])
      | none => pure (Json.mkObj [("m", Json.null)])
  | "search" => do
      let r ← getStr? j "re" >>= searchRe?
      let line ← getStr? j "line"
      let dotStar := ["npb.partial", "npb.invalid", "incorrect", "error"].contains ((getStr? j "re").getD "")
      pure (Json.mkObj [("m", Json.bool (if dotStar then r.searchDotStar line.toList else r.search line.toList))])
  | "float" => do
      let line ← getStr? j "line"
      match pyFloat line.toList with
      | some v => pure (Json.mkObj [("v", valJson v)])
      | none => pure (Json.mkObj [("v", Json.null)])
  | _ => none

end RB.Drv.Ad
