/-
Line-protocol helpers shared by the per-property drivers.
One JSON object per input line, one canonical JSON line per answer.
Only drivers import this file; model files import nothing outside core.
-/
import Lean.Data.Json
open Lean

namespace RB.Drv

def ratToJson (q : Rat) : Json := Json.str s!"{q.num}/{q.den}"

def parseInt? (s : String) : Option Int :=
  if s.startsWith "-" then (s.drop 1).toNat?.map (fun n => - (Int.ofNat n))
  else s.toNat?.map Int.ofNat

/-- exact rationals cross the boundary as "num/den" (or "num") -/
def parseRat? (s : String) : Option Rat :=
  match s.splitOn "/" with
  | [n] => (parseInt? n).map (fun i => (i : Rat))
  | [n, d] => do
      let i ← parseInt? n
      let k ← d.toNat?
      if k = 0 then none else some (mkRat i k)
  | _ => none

def getStr? (j : Json) (k : String) : Option String :=
  match j.getObjVal? k with
  | .ok v => match v.getStr? with | .ok s => some s | _ => none
  | _ => none

def getNat? (j : Json) (k : String) : Option Nat :=
  match j.getObjVal? k with
  | .ok v => match v.getNat? with | .ok s => some s | _ => none
  | _ => none

def getInt? (j : Json) (k : String) : Option Int :=
  match j.getObjVal? k with
  | .ok v => match v.getInt? with | .ok s => some s | _ => none
  | _ => none

def getBool? (j : Json) (k : String) : Option Bool :=
  match j.getObjVal? k with
  | .ok v => match v.getBool? with | .ok s => some s | _ => none
  | _ => none

def getArr? (j : Json) (k : String) : Option (Array Json) :=
  match j.getObjVal? k with
  | .ok v => match v.getArr? with | .ok s => some s | _ => none
  | _ => none

def getObj? (j : Json) (k : String) : Option Json :=
  match j.getObjVal? k with
  | .ok v => some v
  | _ => none

def getRat? (j : Json) (k : String) : Option Rat := do
  let s ← getStr? j k
  parseRat? s

def asRat? (j : Json) : Option Rat :=
  match j.getStr? with | .ok s => parseRat? s | _ => none

def asNat? (j : Json) : Option Nat :=
  match j.getNat? with | .ok s => some s | _ => none

def asInt? (j : Json) : Option Int :=
  match j.getInt? with | .ok s => some s | _ => none

def asStr? (j : Json) : Option String :=
  match j.getStr? with | .ok s => some s | _ => none

def asBool? (j : Json) : Option Bool :=
  match j.getBool? with | .ok s => some s | _ => none

def asArr? (j : Json) : Option (Array Json) :=
  match j.getArr? with | .ok s => some s | _ => none

def badOp : Json := Json.mkObj [("err", Json.str "bad-op")]

partial def loop (h : IO.FS.Stream) (out : IO.FS.Stream) (handle : String → Json → Option Json) : IO Unit := do
  let line ← h.getLine
  if line.isEmpty then return ()
  let ans :=
    match Json.parse line with
    | .error _ => badOp
    | .ok j =>
      match getStr? j "op" with
      | none => badOp
      | some op => (handle op j).getD badOp
  out.putStrLn ans.compress
  loop h out handle

def run (handle : String → Json → Option Json) : IO Unit := do
  let i ← IO.getStdin
  let o ← IO.getStdout
  loop i o handle
  o.flush

end RB.Drv
