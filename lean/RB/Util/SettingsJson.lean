/- JSON encoding of the C02 structures, shared by the C01 and C02 drivers. -/
import RB.Util.Driver
import RB.Model.Settings
open Lean RB.Drv RB.Settings

namespace RB.Drv

def parseRaw (j : Json) : Option Raw :=
  if j.isNull then some .absent else
  match getNat? j "p", getNat? j "m" with
  | some n, none => some (.plain n)
  | none, some n => some (.marked n)
  | _, _ => none

def rawField (j : Json) (k : String) : Option Raw :=
  match j.getObjVal? k with
  | .ok v => parseRaw v
  | .error _ => some .absent

/-- optional Nat code: missing key or null = not defined at this level -/
def optField (j : Json) (k : String) : Option (Option Nat) :=
  match j.getObjVal? k with
  | .ok v => if v.isNull then some none else (asNat? v).map some
  | .error _ => some none

def parseLevel (j : Json) : Option Level := do
  pure { invocations := ← rawField j "invocations", iterations := ← rawField j "iterations",
         warmup := ← rawField j "warmup",
         minIterationTime := ← optField j "min_iteration_time",
         maxInvocationTime := ← optField j "max_invocation_time",
         ignoreTimeouts := ← optField j "ignore_timeouts",
         retriesAfterFailure := ← optField j "retries_after_failure",
         executeExclusively := ← optField j "execute_exclusively",
         env := ← optField j "env",
         inputSizes := ← optField j "input_sizes", cores := ← optField j "cores",
         variableValues := ← optField j "variable_values", tags := ← optField j "tags" }

def mkDetails (dl : Level) : Details :=
  { invocations := dl.invocations
    iterations := dl.iterations
    warmup := dl.warmup
    minIterationTime := dl.minIterationTime
    maxInvocationTime := dl.maxInvocationTime
    ignoreTimeouts := dl.ignoreTimeouts
    retriesAfterFailure := dl.retriesAfterFailure
    executeExclusively := dl.executeExclusively
    env := dl.env }

def mkVars (dl : Level) : Vars :=
  { inputSizes := dl.inputSizes
    cores := dl.cores
    variableValues := dl.variableValues
    tags := dl.tags }

def optJson : Option Nat → Json
  | some n => Json.num n
  | none => Json.null

def rawJson : Raw → Json
  | .absent => Json.null
  | .plain n => Json.mkObj [("p", Json.num n)]
  | .marked n => Json.mkObj [("m", Json.num n)]


/-- run details only (variable lists are parsed by the caller) -/
def parseLevelD (j : Json) : Option Level := do
  pure { invocations := ← rawField j "invocations", iterations := ← rawField j "iterations",
         warmup := ← rawField j "warmup",
         minIterationTime := ← optField j "min_iteration_time",
         maxInvocationTime := ← optField j "max_invocation_time",
         ignoreTimeouts := ← optField j "ignore_timeouts",
         retriesAfterFailure := ← optField j "retries_after_failure",
         executeExclusively := ← optField j "execute_exclusively",
         env := ← optField j "env" }

def detailsJson (d : Details) : Json :=
  Json.mkObj [
    ("invocations", rawJson d.invocations), ("iterations", rawJson d.iterations), ("warmup", rawJson d.warmup),
    ("min_iteration_time", optJson d.minIterationTime),
    ("max_invocation_time", optJson d.maxInvocationTime),
    ("ignore_timeouts", optJson d.ignoreTimeouts),
    ("retries_after_failure", optJson d.retriesAfterFailure),
    ("execute_exclusively", optJson d.executeExclusively),
    ("env", optJson d.env)]

end RB.Drv
