/-
A small, hand-written semantics of the Python values and built-ins that the
translated configuration code (`tools/py2lean_fn.py`, DESIGN.md §9.2) uses.

This file is part of the trusted base of the translation tie: the translator
maps Python syntax to these operations one-to-one, and each operation below is
meant to be exactly Python's behaviour *on the inputs for which it returns
`some`*; `none` stands for "raises an exception **or** is outside what is
modelled here" — theorems only ever conclude something from a `some`.

Strings are lists of code points (`List Char`), which is what a Python `str` is.
-/
namespace RB.Py

/-- a Python value as far as the configuration code can tell values apart -/
inductive V where
  | none
  | bool (b : Bool)
  | int (i : Int)
  | str (cs : List Char)
  /-- a `float`: opaque, only its truth value matters -/
  | float (code : Nat) (nonzero : Bool)
  /-- a `dict`: opaque, only its truth value (non-empty) matters -/
  | dict (code : Nat) (nonempty : Bool)
  /-- a `list`: opaque, only its truth value (non-empty) matters -/
  | list (code : Nat) (nonempty : Bool)
deriving Repr, DecidableEq

namespace V

/-- `x is None` -/
def isNone : V → Bool
  | .none => true
  | _ => false

/-- `isinstance(x, int)` — `bool` is a subclass of `int` -/
def isInt : V → Bool
  | .int _ => true
  | .bool _ => true
  | _ => false

/-- `isinstance(x, dict)` -/
def isDict : V → Bool
  | .dict _ _ => true
  | _ => false

/-- `isinstance(x, str)` -/
def isStr : V → Bool
  | .str _ => true
  | _ => false

/-- truth value of `x` in a boolean position -/
def truthy : V → Bool
  | .none => false
  | .bool b => b
  | .int i => i != 0
  | .str cs => !cs.isEmpty
  | .float _ nz => nz
  | .dict _ ne => ne
  | .list _ ne => ne

/-- decimal digits of a natural number, most significant first -/
def natDigits (n : Nat) : List Char := (Nat.toDigits 10 n)

/-- `str(x)` for the values whose text is modelled -/
def pystr : V → Option V
  | .none => some (.str "None".toList)
  | .bool true => some (.str "True".toList)
  | .bool false => some (.str "False".toList)
  | .int i => some (.str (if i < 0 then '-' :: natDigits i.natAbs else natDigits i.natAbs))
  | .str cs => some (.str cs)
  | _ => Option.none

/-- `x[-1]` on a `str` (IndexError on the empty string) -/
def indexLast : V → Option V
  | .str cs => match cs.getLast? with
    | some c => some (.str [c])
    | Option.none => Option.none
  | _ => Option.none

/-- `x[:-1]` on a `str` -/
def sliceDropLast : V → Option V
  | .str cs => some (.str cs.dropLast)
  | _ => Option.none

def isDigit (c : Char) : Bool := '0' ≤ c && c ≤ '9'

def digitVal (c : Char) : Nat := c.toNat - '0'.toNat

/-- value of a list of ASCII digits -/
def digitsVal (cs : List Char) : Nat := cs.foldl (fun acc c => acc * 10 + digitVal c) 0

/-- a non-empty list of ASCII digits -/
def allDigits (cs : List Char) : Bool := !cs.isEmpty && cs.all isDigit

/-- `int(x)`: ints and bools as they are, strings of ASCII digits by value; every other
string (signs, blanks, underscores, non-ASCII digits: Python accepts some of them) and
every other type is outside the model -/
def pyint : V → Option V
  | .int i => some (.int i)
  | .bool b => some (.int (if b then 1 else 0))
  | .str cs => if allDigits cs then some (.int (digitsVal cs)) else Option.none
  | _ => Option.none

/-- `bool(x)` -/
def pybool (v : V) : V := .bool (truthy v)

/-- `float(x)`: only what is needed to say that a float stays a float -/
def pyfloat : V → Option V
  | .float c nz => some (.float c nz)
  | _ => Option.none

/-- `a == b` for the modelled values (`True == 1`, `False == 0`; opaque values by identity of code) -/
def pyeq : V → V → Bool
  | .bool a, .int i => (if a then 1 else 0) == i
  | .int i, .bool a => (if a then 1 else 0) == i
  | a, b => decide (a = b)

/-- the integer a value stands for in arithmetic and ordering: an `int`, or a `bool` (`True` = 1) -/
def asInt? : V → Option Int
  | .int i => some i
  | .bool b => some (if b then 1 else 0)
  | _ => Option.none

/-- `a - b` on ints (bools count as ints); everything else (floats, `None`: TypeError) is outside the model -/
def sub (a b : V) : Option V := (asInt? a).bind fun x => (asInt? b).map fun y => V.int (x - y)

/-- `a + b` on ints (string concatenation etc. is outside the model) -/
def add (a b : V) : Option V :=
  match a, b with
  | .str x, .str y => some (.str (x ++ y))         -- concatenation of two `str`
  | _, _ => (asInt? a).bind fun x => (asInt? b).map fun y => V.int (x + y)

/-- `a * b` on numbers (`int` / `bool`); anything else is outside the model -/
def mul (a b : V) : Option V := (asInt? a).bind fun x => (asInt? b).map fun y => V.int (x * y)

/-- `a < b`, `a <= b`, `a > b`, `a >= b` on ints; `None` (TypeError), floats and strings are outside the model -/
def lt (a b : V) : Option Bool := (asInt? a).bind fun x => (asInt? b).map fun y => decide (x < y)
def le (a b : V) : Option Bool := (asInt? a).bind fun x => (asInt? b).map fun y => decide (x ≤ y)
def gt (a b : V) : Option Bool := (asInt? a).bind fun x => (asInt? b).map fun y => decide (y < x)
def ge (a b : V) : Option Bool := (asInt? a).bind fun x => (asInt? b).map fun y => decide (y ≤ x)

/-- the parts of a list of code points between the occurrences of `sep` (never an empty list) -/
def splitChars (sep : Char) : List Char → List (List Char)
  | [] => [[]]
  | c :: cs =>
    if c = sep then [] :: splitChars sep cs
    else match splitChars sep cs with
      | [] => [[c]]
      | p :: ps => (c :: p) :: ps

/-- `x.split(sep)` on a `str` with a separator of one character: all the parts, in order (Python returns a
list of `str`; a list of n separators gives n + 1 parts).  Other receivers are outside the model. -/
def split (sep : Char) : V → Option (List V)
  | .str cs => some ((splitChars sep cs).map V.str)
  | _ => Option.none

/-- does `p` occur in `s` as a run of consecutive code points -/
def hasSub (p : List Char) : List Char → Bool
  | [] => p.isEmpty
  | c :: r => p.isPrefixOf (c :: r) || hasSub p r

/-- `x.startswith(p)` on a `str` (anything else has no such method, or is outside the model) -/
def startswith (p : List Char) : V → Option Bool
  | .str cs => some (p.isPrefixOf cs)
  | _ => Option.none

/-- `p in x` for a `str` `x` -/
def contains (p : List Char) : V → Option Bool
  | .str cs => some (hasSub p cs)
  | _ => Option.none

end V

/-- `[x for x in xs if c(x)]`: the elements whose condition holds, in order; a condition that raises ends
everything -/
def filterOpt {α : Type} (xs : List α) (c : α → Option Bool) : Option (List α) :=
  match xs with
  | [] => some []
  | x :: r => (c x).bind fun b => (filterOpt r c).map fun l => if b then x :: l else l

/-- `len(xs)` of a list -/
def pylen {α : Type} (xs : List α) : V := V.int xs.length

/-- truth value of "a list or `None`" -/
def optListTruthy {α : Type} : Option (List α) → Bool
  | Option.none => false
  | some xs => !xs.isEmpty

/-- `for x in xs: if c(x): return found(x)` followed by `rest`: the elements are looked at in order, the
first one whose condition holds decides, a condition that raises ends everything, and `rest` is what
happens when the loop runs to its end -/
def forFirst {α β : Type} (xs : List α) (c : α → Option Bool) (found : α → Option β) (rest : Option β) : Option β :=
  match xs with
  | [] => rest
  | x :: r => (c x).bind fun b => if b then found x else forFirst r c found rest

/-- `for x in xs: body` where the body only changes the state `s` (no `return`, `break`, `continue`): the
body is run for every element in order; a body that raises ends everything -/
def forEachM {α σ : Type} (xs : List α) (s : σ) (f : σ → α → Option σ) : Option σ :=
  match xs with
  | [] => some s
  | x :: r => (f s x).bind fun s' => forEachM r s' f

/-- a mapping with string keys (`dict.get`) -/
abbrev Dict := String → Option V

/-- `d.get(k)` -/
def Dict.get (d : Dict) (k : String) : V := (d k).getD V.none

/-- `d.get(k, dflt)` -/
def Dict.getOr (d : Dict) (k : String) (dflt : V) : V := (d k).getD dflt

end RB.Py
