-- Root of the `RB` library: models, proofs and driver utilities.
import RB.Util.Driver
import RB.Model.Stats
import RB.Proofs.C15
import RB.Model.DB
import RB.Proofs.C17
import RB.Model.Report
import RB.Proofs.C18
import RB.Model.Kill
import RB.Proofs.C16
