-- Root of the `RB` library: models, proofs and driver utilities.
import RB.Util.Driver
import RB.Model.Stats
import RB.Proofs.C15
import RB.Model.Loader
import RB.Proofs.C09
import RB.Model.Rewrite
import RB.Proofs.C14
