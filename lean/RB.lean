-- Root of the `RB` library: models, proofs and driver utilities.
import RB.Util.Driver
import RB.Model.Stats
import RB.Model.Cmdline
import RB.Model.Denoise
import RB.Proofs.C15
import RB.Proofs.C03
import RB.Proofs.C20
