-- Root of the `RB` library: models, proofs and driver utilities.
import RB.Util.Driver
import RB.Model.Stats
import RB.Proofs.C15
import RB.Model.Settings
import RB.Proofs.C02
import RB.Util.SettingsJson
import RB.Model.Runs
import RB.Proofs.C01
import RB.Model.Adapters
import RB.Util.AdapterJson
import RB.Proofs.C12
import RB.Proofs.C05
