-- Root of the `RB` library: models, proofs and driver utilities.
import RB.Util.Driver
import RB.Model.Stats
import RB.Proofs.C15
import RB.Model.Builds
import RB.Proofs.C13
import RB.Model.ConfigDoc
import RB.Proofs.C19
