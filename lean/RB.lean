-- Root of the `RB` library: models, proofs and driver utilities.
import RB.Util.Driver
import RB.Model.Stats
import RB.Proofs.C15
import RB.Model.DataFile
import RB.Model.Session
import RB.Util.SessionJson
import RB.Proofs.C06
import RB.Model.Identity
import RB.Proofs.C07
import RB.Proofs.C08
