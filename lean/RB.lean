-- Root of the `RB` library: models, proofs and driver utilities.
import RB.Util.Driver
import RB.Model.Stats
import RB.Proofs.C15
import RB.Model.Termination
import RB.Model.Sched
import RB.Util.SchedDriver
import RB.Proofs.C04
import RB.Proofs.C10
import RB.Proofs.C11
