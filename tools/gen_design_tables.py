#!/usr/bin/env python3
"""Rewrite the generated regions of DESIGN.md (between <!-- BEGIN:x --> and <!-- END:x -->):
seeds    — one row per seeded change in seeded/<id>/meta.json
seedstats — per seeding round: how many were caught at once / after strengthening
findings — one row per entry of known_findings.json / known_findings.d/*.json"""
import glob, json, os, re
here = os.path.dirname(os.path.dirname(os.path.abspath(__file__)))


def seeds():
    rows = ['| seed | property | what the change does | needs to manifest | caught by | result |', '|---|---|---|---|---|---|']
    for d in sorted(glob.glob(os.path.join(here, 'seeded', '*'))):
        m = json.load(open(os.path.join(d, 'meta.json')))
        c = m.get('confirmed_by_main', {})
        rows.append('| %s | %s | %s | %s | `%s` | %s%s |' % (
            os.path.basename(d), m.get('property'), str(m.get('summary', '')).replace('|', '/').replace('\n', ' ')[:260],
            str(m.get('needs_to_manifest', '')).replace('|', '/').replace('\n', ' ')[:220],
            c.get('check', ''), c.get('detected_by_check', ''),
            (': ' + c.get('note', '').replace('|', '/')) if c.get('note') else ''))
    return '\n'.join(rows)


def seedstats():
    rnd = {'a': 1, 'b': 1, 'c': 2, 'd': 2, 'e': 3, 'f': 3, 'g': 4, 'h': 4, 'i': 5, 'j': 5, 'k': 6, 'l': 6, 'm': 7, 'n': 7}
    tab = {}
    for d in sorted(glob.glob(os.path.join(here, 'seeded', '*'))):
        m = json.load(open(os.path.join(d, 'meta.json')))
        r = rnd.get(os.path.basename(d).split('-')[-1], 0)
        det = m.get('confirmed_by_main', {}).get('detected_by_check', '?')
        t = tab.setdefault(r, {'yes': 0, 'after-strengthening': 0, 'superseded': 0, 'other': 0})
        t[det if det in t else 'other'] += 1
    rows = ['| round | seeded changes kept | caught by the check as it was | caught after strengthening the check | caught by the check of another property | superseded by a repair of ReBench |', '|---|---|---|---|---|---|']
    for r in sorted(tab):
        t = tab[r]
        rows.append('| %d | %d | %d | %d | %d | %d |' % (r, sum(t.values()), t['yes'], t['after-strengthening'], t['other'], t['superseded']))
    tot = {k: sum(t[k] for t in tab.values()) for k in ('yes', 'after-strengthening', 'superseded', 'other')}
    rows.append('| all | %d | %d | %d | %d | %d |' % (sum(tot.values()), tot['yes'], tot['after-strengthening'], tot['other'], tot['superseded']))
    return '\n'.join(rows)


def findings():
    out = []
    files = [os.path.join(here, 'known_findings.json')] + sorted(glob.glob(os.path.join(here, 'known_findings.d', '*.json')))
    rows = ['| property | id | status | what fails | repair commit / why recorded |', '|---|---|---|---|---|']
    for f in files:
        if not os.path.exists(f):
            continue
        for k in json.load(open(f))['findings']:
            rows.append('| %s | %s | %s | %s | %s |' % (
                k['property'], k['id'], k['status'], k['what_fails'].replace('|', '/').replace('\n', ' ')[:330],
                (k.get('commit') or k.get('why_not_fixed') or k.get('note') or '').replace('|', '/')[:200]))
    return '\n'.join(rows)


def status():
    rows = ['| id | theorems audited (+ from translation tie) | `_partial` theorems | known findings | fixed findings | what the claim says (MANIFEST level_claimed.text, abridged) |', '|---|---|---|---|---|---|']
    claims = json.load(open(os.path.join(here, 'tools', 'claims.json')))['claimed']
    for f in sorted(glob.glob(os.path.join(here, 'tools', 'claims.d', '*.json'))):
        claims[os.path.basename(f)[:-5]] = json.load(open(f))
    kf = {}
    for f in sorted(glob.glob(os.path.join(here, 'known_findings.d', '*.json'))):
        for k in json.load(open(f))['findings']:
            kf.setdefault(k['property'], {'known': 0, 'fixed': 0})[k['status']] += 1
    for f in sorted(glob.glob(os.path.join(here, 'lean', 'obligations', '*.json'))):
        pid = os.path.basename(f)[:-5]
        o = json.load(open(f))
        ge = o.get('gen', [])
        g = [t for e in (ge if isinstance(ge, list) else [ge]) for t in e.get('theorems', [])]
        rows.append('| %s | %d%s | %s | %d | %d | %s |' % (
            pid, len(o['theorems']), (' + %d' % len(g)) if g else '',
            ', '.join('`%s`' % t.split('.')[-1] for t in o.get('partial', [])) or '–',
            kf.get(pid, {}).get('known', 0), kf.get(pid, {}).get('fixed', 0),
            claims.get(pid, {}).get('text', '').replace('|', '/').replace('\n', ' ')[:420] + ' …'))
    return '\n'.join(rows)


p = os.path.join(here, 'DESIGN.md')
s = open(p).read()
for name, fn in (('seeds', seeds), ('seedstats', seedstats), ('findings', findings), ('status', status)):
    pat = re.compile(r'(<!-- BEGIN:%s -->\n).*?(<!-- END:%s -->)' % (name, name), re.S)
    if pat.search(s):
        s = pat.sub(lambda m: m.group(1) + fn() + '\n' + m.group(2), s)
open(p, 'w').write(s)
print('DESIGN.md tables regenerated')
