#!/usr/bin/env python3
"""tools/keep_seed.py <seed dir> <name> <property> <detected: yes|no|after-strengthening> <check cmd> [note]
Copies a confirmed seeded change into /verif/seeded/<name>/ and completes its meta.json."""
import json, os, shutil, sys
seed, name, prop, detected, cmd = sys.argv[1:6]
note = sys.argv[6] if len(sys.argv) > 6 else ''
dst = os.path.join('/verif/seeded', name)
os.makedirs(dst, exist_ok=True)
for f in os.listdir(seed):
    if f.startswith('patch') or f.startswith('demo') or f == 'meta.json':
        shutil.copy(os.path.join(seed, f), os.path.join(dst, f))
m = json.load(open(os.path.join(dst, 'meta.json')))
conf = None
cf = '/tmp/seed/confirm_' + os.path.relpath(seed, '/tmp/seed').replace('/', '_') + '.json'
if os.path.exists(cf):
    conf = json.load(open(cf))
m['property'] = prop
m['confirmed_by_main'] = {
    'what_i_ran': ['tools/confirm_seed.py %s  (scratch worktree of /repo: demo passes on the clean tree, patch applies, demo fails with it, full test suite passes with it)' % seed,
                   'tools/run_seed.sh %s %s  (git -C /repo apply patch.diff; %s; git -C /repo checkout -- .)' % (seed, prop, cmd)],
    'confirm_result': None if conf is None else {k: conf.get(k) for k in ('confirmed', 'demo_clean_rc', 'demo_patched_rc', 'suite_patched')},
    'detected_by_check': detected, 'check': cmd, 'note': note}
json.dump(m, open(os.path.join(dst, 'meta.json'), 'w'), indent=1)
print('kept', dst)
