#!/usr/bin/env python3
"""Regenerate MANIFEST.json from tools/claims.json (one entry per claimed property)
and properties.jsonl (every property not claimed goes to not_applicable with its reason)."""
import json, os
here = os.path.dirname(os.path.dirname(os.path.abspath(__file__)))
claims = json.load(open(os.path.join(here, 'tools', 'claims.json')))
d = os.path.join(here, 'tools', 'claims.d')
if os.path.isdir(d):
    for f in sorted(os.listdir(d)):
        if f.endswith('.json'):
            claims['claimed'][f[:-5]] = json.load(open(os.path.join(d, f)))
props = [json.loads(l) for l in open(os.path.join(here, 'properties.jsonl'))]
checks, na = [], []
for p in props:
    pid = p['id']
    c = claims['claimed'].get(pid)
    if c is None:
        na.append({'property_id': pid, 'reason': claims['unclaimed'].get(pid, 'check not built yet')})
        continue
    checks.append({
        'property_id': pid,
        'quick_cmd': './check %s --tier quick' % pid,
        'thorough_cmd': './check %s --tier thorough' % pid,
        'evidence_file': 'evidence/%s.json' % pid,
        'replay_cmd_template': './check %s --replay {path}' % pid,
        'engine': 'lean4-proof+correspondence',
        'level_claimed': {'category': 'proof', 'text': c['text'], 'design_ref': c.get('design_ref', 'DESIGN.md section 5, ' + pid)},
        'level_note': c['note'],
        'technique': c['technique'],
    })
m = {
    'version': 1,
    'setup_cmd': 'cd lean && lake build',
    'hooks': {'guard': 'REBENCH_VERIF', 'enable': 'no source hooks are needed: the harness instruments ReBench from outside (monkey-patching in its own process, fake harness executables)',
              'baseline_off_cmd': 'cd /repo && /venv/bin/python -m pytest -ra -q -p no:cacheprovider --timeout=900 --continue-on-collection-errors',
              'source_commits': claims.get('hook_commits', []), 'add_only': True},
    'engines': [{'name': 'lean4-proof+correspondence', 'path': 'lean/ (theorems, model, drivers) + harness/ (correspondence, oracles)',
                 'serves_properties': [c['property_id'] for c in checks],
                 'kind_free_text': 'Lean 4 theorems about a hand-written executable model; the model is tied to /repo on every run by differential execution of model and implementation, with an executable oracle of the property searching for failing inputs'}],
    'checks': checks,
    'notes': claims.get('notes', ''),
    'not_applicable': na,
}
json.dump(m, open(os.path.join(here, 'MANIFEST.json'), 'w'), indent=1)
print('claimed', len(checks), 'unclaimed', len(na))
