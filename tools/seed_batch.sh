#!/bin/sh
# [VARIANTS="c d"] tools/seed_batch.sh <Cxx> [check-id ...]: confirm /tmp/seed/<Cxx>/out/{a,b} and run the named checks (default: Cxx) against each
p="$1"; shift; checks="${*:-$p}"
for v in ${VARIANTS:-a b}; do
  d=/tmp/seed/$p/out/$v
  [ -d "$d" ] || continue
  python3 /verif/tools/confirm_seed.py $d > /tmp/seed/confirm_${p}_out_${v}.json 2>&1
  python3 -c "
import json; d=json.load(open('/tmp/seed/confirm_${p}_out_${v}.json')); print('$p-$v confirmed=%s clean_rc=%s patched_rc=%s suite=%s' % (d.get('confirmed'), d.get('demo_clean_rc'), d.get('demo_patched_rc'), d.get('suite_patched')))"
  for c in $checks; do
    echo "  -- $c vs $p-$v: $(/verif/tools/run_seed.sh $d $c | grep -E 'VIOLATION|seed=|apply|clean' | sed 's/.*replays\///' | tr '\n' ' ' | cut -c1-330)"
  done
done
