"""Mutation self-test for C05 / C12 (BUILDING.md, self-test 3): applies each hand-made mutation to a scratch
copy of ReBench, runs the quick check of the owning property and prints whether a VIOLATION was reported.
usage: MUT_REPO=<copy of repo> MUT_VERIF=<copy of verif> python tools/mutate_c05_c12.py [id-prefix ...]"""
import subprocess, sys, os, re, json
REPO = os.environ['MUT_REPO']    # a scratch copy of the ReBench tree (mutated in place, restored after each run)
VERIF = os.environ['MUT_VERIF']  # a scratch copy of the verification tree (so that evidence/ and replays/ of the real one stay)
I=REPO+'/rebench/interop/'
MUTS=[
 # (id, property, file, old, new)
 ('M1-jmh-return-empty','C12',I+'jmh_adapter.py',"            if self.re_complete.search(line):\n                break","            if self.re_complete.search(line):\n                return data_points"),
 ('M2-savina-no-marker','C12',I+'savina_log_adapter.py',"            if self.check_for_error(line):\n                raise ResultsIndicatedAsInvalid(\n                    \"Output of bench program indicated error.\")\n\n            match = self.re_log_line.match(line)","            match = self.re_log_line.match(line)"),
 ('M3-rebench-return-empty','C12',I+'rebench_log_adapter.py',"        if not data_points:\n            raise OutputNotParseable(data)","        if False:\n            raise OutputNotParseable(data)"),
 ('M4-bus-error-dropped','C12',I+'adapter.py',"        if self.re_bus_error.search(line):\n            return True\n","        if self.re_bus_error.search(line):\n            pass\n"),
 ('M5-rebench-iteration-not-incremented','C12',I+'rebench_log_adapter.py',"                    current = DataPoint(run_id)\n                    iteration += 1","                    current = DataPoint(run_id)"),
 ('M6-validation-total-not-last','C12',I+'validation_log_adapter.py',"                current.add_measurement(success_measure)\n                current.add_measurement(measure)","                current.add_measurement(measure)\n                current.add_measurement(success_measure)"),
 ('M7-faulty-ignored','C12',I+'adapter.py',"        if self._include_faulty:\n            return False\n","        if self._include_faulty and False:\n            return False\n"),
 ('M8-timep-total-dropped','C12',I+'time_adapter.py',"        if total_measure:\n            current.add_measurement(total_measure)\n            data_points.append(current)","        if total_measure:\n            data_points.append(current)"),
 ('M9-plain-marker-after-parse','C12',I+'plain_seconds_log_adapter.py',"            if self.check_for_error(line):\n                raise ResultsIndicatedAsInvalid(\n                    \"Output of bench program indicated error.\")\n\n            try:","            try:"),
 ('M10-invocation-off-by-one','C12',I+'time_adapter.py',"measure = Measurement(invocation, iteration, mem_kb, \"kb\", run_id, \"MaxRSS\")","measure = Measurement(invocation + 1, iteration, mem_kb, \"kb\", run_id, \"MaxRSS\")"),
 ('N1-rebench-us-times-1000','C05',I+'rebench_log_adapter.py',"                    time /= 1000","                    time *= 1000"),
 ('N2-plain-div-1000','C05',I+'plain_seconds_log_adapter.py',"float(line) * 1000","float(line) / 1000"),
 ('N3-rebench-criterion-no-dot','C05',I+'rebench_log_adapter.py',r'r"^(?:.*: )?([^\s]+)( [\w\.]+)?: iterations=([0-9]+) "',r'r"^(?:.*: )?([^\s]+)( [\w]+)?: iterations=([0-9]+) "'),
 ('N4-savina-one-fraction-digit','C05',I+'savina_log_adapter.py',r"([0-9]+\.[0-9]+) ms",r"([0-9]+\.[0-9]) ms"),
 ('N5-jmh-unit-dotplus','C05',I+'jmh_adapter.py',r"\s+([^\r]+)",r"\s+(.+)"),
 ('N6-validation-unit-swapped','C05',I+'validation_log_adapter.py','if match.group(5) == "u":','if match.group(5) == "m":'),
 ('N7-extra-criterion-next-iteration','C05',I+'rebench_log_adapter.py',"measure = Measurement(invocation, iteration, value, unit, run_id, criterion)","measure = Measurement(invocation, iteration + 1, value, unit, run_id, criterion)"),
 ('N8-time-formatted-times-100','C05',I+'time_adapter.py',"float(match2.group(1)) * 1000","float(match2.group(1)) * 100"),
 ('N9-criterion-29','C05',I+'rebench_log_adapter.py',"[^:]{1,30}","[^:]{1,29}"),
 ('N10-timep-minutes-times-6','C05',I+'time_adapter.py',"or 0) * 60 +","or 0) * 6 +"),
 ('N11-rebench-lazy-prefix','C05',I+'rebench_log_adapter.py',r'r"^(?:.*: )?([^\s]+)( [\w\.]+)?: iterations',r'r"^(?:.*?: )?([^\s]+)( [\w\.]+)?: iterations'),
 ('N12-exponent-sign-dropped','C05',I+'rebench_log_adapter.py',r'+ r"runtime: (?P<runtime>(\d+(\.\d*)?|\.\d+)([eE][-+]?\d+)?)"',r'+ r"runtime: (?P<runtime>(\d+(\.\d*)?|\.\d+)([eE][+]?\d+)?)"'),
 ('N13-rebench-accepts-ns','C05',I+'rebench_log_adapter.py','+ r"(?P<unit>[mu])s")','+ r"(?P<unit>[mun])s")'),
 ('M11-timep-closing-test','C12',I+'time_adapter.py',"if current.number_of_measurements() == 3 and \\\n                        current.get_total_value() is not None:","if current.number_of_measurements() == 3:"),
]
only=sys.argv[1:] 
env=dict(os.environ, REBENCH_REPO=REPO)
for (mid,prop,f,old,new) in MUTS:
    if only and not any(mid.startswith(o) for o in only): continue
    src=open(f).read()
    if old not in src:
        print(mid,'PATTERN NOT FOUND'); continue
    open(f,'w').write(src.replace(old,new,1))
    try:
        res=[]
        for p in ([prop] if '--both' not in os.environ.get('MUT_OPTS','') else ['C05','C12']):
            r=subprocess.run(['/venv/bin/python','-B',VERIF+'/harness/main.py',p,'--tier','quick','--skip-proof'],cwd=VERIF,env=env,capture_output=True,text=True)
            viol=[l for l in r.stdout.split('\n') if l.startswith('VIOLATION')]
            detail=''
            if viol:
                m=re.search(r'replay=(\S+)',viol[0])
                try:
                    j=json.load(open(os.path.join(VERIF,m.group(1))))
                    detail=json.dumps(j.get('signature') or j.get('correspondence'))[:160]+' input='+json.dumps(j['input'])[:120]
                except Exception as e: detail=str(e)
            res.append('%s exit=%d %s %s'%(p,r.returncode,(viol[0] if viol else r.stdout.strip().split('\n')[-1][:150]),detail))
        print(mid,'|',' || '.join(res)); sys.stdout.flush()
    finally:
        open(f,'w').write(src)
subprocess.run(['git','status','--short'],cwd=REPO)
