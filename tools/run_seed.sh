#!/bin/sh
# tools/run_seed.sh <seed dir> <Cxx> [tier]: apply the seeded patch to /repo, run the check, undo.
# Prints the check's last lines and its exit status.  /repo must be clean before.
seed="$1"; pid="$2"; tier="${3:-quick}"
cd /repo || exit 2
if [ -n "$(git status --porcelain)" ]; then echo "repo not clean"; exit 2; fi
git apply "$seed/patch.diff" || { echo "patch does not apply"; exit 2; }
cd /verif && ./check "$pid" --tier "$tier" --skip-proof 2>&1 | tail -4
rc=$?
cd /repo && git checkout -- . && git clean -fdq -- . >/dev/null 2>&1
echo "exit-of-tail=$rc"
