#!/usr/bin/env python3
"""py2lean_fn — translate module-level functions, classmethods that build an object, and
self-mutating methods of the configuration code into Lean 4 definitions over the Python
value type `RB.Py.V` (lean/RB/Util/PyVal.lean).  Second translator of the translation tie
(DESIGN.md section 9.2); the first one, py2lean.py, handles numeric state machines.

    tools/py2lean_fn.py <spec.json> <repo root> <output .lean>

Every translated function returns `Option T`: `none` = "raises, or leaves the modelled
fragment of Python".  Statements: `if`/`elif`/`else`, `return e`, assignment to locals and to
`self.<field>`, `assert e`, docstrings.  Expressions: names, `None`, `True`/`False`, int and
str constants, `x is None`, `x is not None`, `isinstance(x, int|str|dict)`, `str(x)`, `int(x)`,
`bool(x)`, `float(x)`, `x[-1]`, `x[:-1]`, `a == b`, `a != b`, `not`, `and`/`or` of total
operands, truth value of a value in a condition, the empty dict literal `{}`, `d.get(k)`, `d.get(k, dflt)` with a constant
key on a parameter declared `Dict`, attribute reads `obj.field` on a parameter declared as a
record, calls of other translated functions, and `Cls(a, b, ...)` / keyword-less constructor
calls of a class declared in the spec: the arguments are matched to the parameters of the
class's `__init__` *as written in the source*, and `__init__` must assign each parameter to
the field of the same name.  Anything else raises Unsupported (= the tie is not available for
the current source; never a finding by itself).
"""
import ast
import json
import os
import sys


class Unsupported(Exception):
    pass


def lean_name(n):
    n = n.lstrip('_')
    return {'default': 'dflt', 'from': 'from_', 'end': 'end_', 'at': 'at_'}.get(n, n)


def lean_str(s):
    return '(V.str [%s])' % ', '.join("'%s'" % ('\\\\' if c == '\\' else "\\'" if c == "'" else c) for c in s)


class Fn(object):
    def __init__(self, spec, records, funcs):
        self.spec = spec
        self.records = records          # class name -> [field names]
        self.funcs = funcs              # python name -> {'ret': lean type, 'params': [...]}
        self.counter = 0

    def fresh(self):
        self.counter += 1
        return 't%d' % self.counter

    # ------------------------------------------------------------ expressions
    # expr() returns (binds, term, type) where binds = [(name, option-term)], evaluated in order
    def expr(self, e, env):
        if isinstance(e, ast.Constant):
            v = e.value
            if v is None:
                return [], 'V.none', 'V'
            if isinstance(v, bool):
                return [], '(V.bool %s)' % ('true' if v else 'false'), 'V'
            if isinstance(v, int):
                return [], '(V.int %d)' % v if v >= 0 else '(V.int (-%d))' % -v, 'V'
            if isinstance(v, str):
                return [], lean_str(v), 'V'
            raise Unsupported('constant %r' % (v,))
        if isinstance(e, ast.Dict) and not e.keys:
            return [], '(V.dict 0 false)', 'V'          # the empty dict literal
        if isinstance(e, ast.Name):
            if e.id in env:
                return [], lean_name(e.id), env[e.id]
            raise Unsupported('unknown name %s' % e.id)
        if isinstance(e, ast.Attribute):
            b, t, ty = self.expr(e.value, env)
            if ty in self.records:
                if e.attr not in self.records[ty]:
                    raise Unsupported('%s has no field %s' % (ty, e.attr))
                return b, '%s.%s' % (t, lean_name(e.attr)), 'V'
            raise Unsupported('attribute %s of a %s' % (e.attr, ty))
        if isinstance(e, ast.Subscript):
            b, t, ty = self.expr(e.value, env)
            if ty != 'V':
                raise Unsupported('subscript of a %s' % ty)
            s = e.slice
            if isinstance(s, ast.UnaryOp) and isinstance(s.op, ast.USub) and isinstance(s.operand, ast.Constant) \
                    and s.operand.value == 1:
                n = self.fresh()
                return b + [(n, '(V.indexLast %s)' % t)], n, 'V'
            if isinstance(s, ast.Slice) and s.lower is None and s.step is None and isinstance(s.upper, ast.UnaryOp) \
                    and isinstance(s.upper.op, ast.USub) and isinstance(s.upper.operand, ast.Constant) \
                    and s.upper.operand.value == 1:
                n = self.fresh()
                return b + [(n, '(V.sliceDropLast %s)' % t)], n, 'V'
            raise Unsupported('subscript %s' % ast.unparse(s))
        if isinstance(e, ast.Compare):
            if len(e.ops) != 1:
                raise Unsupported('chained comparison')
            op = e.ops[0]
            b1, a, ta = self.expr(e.left, env)
            right = e.comparators[0]
            if isinstance(op, (ast.Is, ast.IsNot)):
                if not (isinstance(right, ast.Constant) and right.value is None) or ta != 'V':
                    raise Unsupported('`is` other than with None')
                t = '(V.isNone %s)' % a
                return b1, t if isinstance(op, ast.Is) else '(! %s)' % t, 'Bool'
            b2, c, tc = self.expr(right, env)
            if ta != 'V' or tc != 'V':
                raise Unsupported('comparison of non-values')
            if isinstance(op, ast.Eq):
                return b1 + b2, '(V.pyeq %s %s)' % (a, c), 'Bool'
            if isinstance(op, ast.NotEq):
                return b1 + b2, '(! (V.pyeq %s %s))' % (a, c), 'Bool'
            raise Unsupported('comparison %s' % type(op).__name__)
        if isinstance(e, ast.UnaryOp) and isinstance(e.op, ast.USub) and isinstance(e.operand, ast.Constant) \
                and isinstance(e.operand.value, int) and not isinstance(e.operand.value, bool):
            return [], '(V.int (-%d))' % e.operand.value, 'V'
        if isinstance(e, ast.UnaryOp) and isinstance(e.op, ast.Not):
            b, t = self.cond(e.operand, env)
            return b, '(! %s)' % t, 'Bool'
        if isinstance(e, ast.BoolOp):
            parts = []
            for v in e.values:
                b, t = self.cond(v, env)
                if b:
                    raise Unsupported('and/or with an operand that may raise')
                parts.append(t)
            return [], '(' + (' && ' if isinstance(e.op, ast.And) else ' || ').join(parts) + ')', 'Bool'
        if isinstance(e, ast.Call):
            return self.call(e, env)
        raise Unsupported('expression %s' % type(e).__name__)

    def cond(self, e, env):
        b, t, ty = self.expr(e, env)
        if ty == 'Bool':
            return b, t
        if ty == 'V':
            return b, '(V.truthy %s)' % t
        raise Unsupported('truth value of a %s' % ty)

    def args(self, call, env):
        if call.keywords:
            raise Unsupported('keyword arguments')
        binds, terms, types = [], [], []
        for a in call.args:
            b, t, ty = self.expr(a, env)
            binds += b
            terms.append(t)
            types.append(ty)
        return binds, terms, types

    def call(self, e, env):
        f = e.func
        if isinstance(f, ast.Attribute) and f.attr == 'get' and isinstance(f.value, ast.Name) \
                and env.get(f.value.id) == 'Dict':
            if not e.args or not (isinstance(e.args[0], ast.Constant) and isinstance(e.args[0].value, str)) or e.keywords:
                raise Unsupported('dict.get with a non-constant key')
            d, k = lean_name(f.value.id), json.dumps(e.args[0].value)
            if len(e.args) == 1:
                return [], '(Dict.get %s %s)' % (d, k), 'V'
            if len(e.args) == 2:
                b, t, ty = self.expr(e.args[1], env)
                if ty != 'V':
                    raise Unsupported('dict.get default of type %s' % ty)
                return b, '(Dict.getOr %s %s %s)' % (d, k, t), 'V'
            raise Unsupported('dict.get arity')
        if not isinstance(f, ast.Name):
            raise Unsupported('call of %s' % ast.unparse(f))
        name = f.id
        if name == 'isinstance' and len(e.args) == 2 and isinstance(e.args[1], ast.Name):
            b, t, ty = self.expr(e.args[0], env)
            pred = {'int': 'V.isInt', 'str': 'V.isStr', 'dict': 'V.isDict'}.get(e.args[1].id)
            if pred is None or ty != 'V':
                raise Unsupported('isinstance(_, %s)' % e.args[1].id)
            return b, '(%s %s)' % (pred, t), 'Bool'
        total = {'bool': 'V.pybool'}
        partial = {'str': 'V.pystr', 'int': 'V.pyint', 'float': 'V.pyfloat'}
        if name in total or name in partial:
            if len(e.args) != 1 or e.keywords:
                raise Unsupported('%s arity' % name)
            b, t, ty = self.expr(e.args[0], env)
            if ty != 'V':
                raise Unsupported('%s of a %s' % (name, ty))
            if name in total:
                return b, '(%s %s)' % (total[name], t), 'V'
            n = self.fresh()
            return b + [(n, '(%s %s)' % (partial[name], t))], n, 'V'
        if name in self.funcs:
            sig = self.funcs[name]
            b, terms, types = self.args(e, env)
            if types != [t for (_p, t) in sig['params']]:
                raise Unsupported('call of %s with %s' % (name, types))
            n = self.fresh()
            return b + [(n, '(%s %s)' % (lean_name(name), ' '.join(terms)))], n, sig['ret']
        if name in self.records:
            fields = self.records[name]
            b, terms, types = self.args(e, env)
            if len(terms) != len(fields) or any(t != 'V' for t in types):
                raise Unsupported('constructor %s called with %d arguments for %d parameters' % (name, len(terms), len(fields)))
            lit = '{ ' + ', '.join('%s := %s' % (lean_name(f_), t) for f_, t in zip(fields, terms)) + ' : %s }' % name
            return b, lit, name
        raise Unsupported('call of %s' % name)

    # ------------------------------------------------------------ statements
    @staticmethod
    def wrap(binds, body, pad):
        out = ''
        for (n, t) in binds:
            out += pad + '%s.bind fun %s =>\n' % (t, n)
        return out + body

    def block(self, stmts, env, ret, self_ty, indent):
        """statement list -> one Lean term of type `Option ret`"""
        pad = '  ' * indent
        if not stmts:
            if self_ty is not None:
                return pad + 'some self'
            if ret == 'V':
                return pad + 'some V.none'       # falling off the end returns None
            raise Unsupported('a %s-returning function can fall off its end' % ret)
        s, rest = stmts[0], stmts[1:]
        if isinstance(s, ast.Expr) and isinstance(s.value, ast.Constant) and isinstance(s.value.value, str):
            return self.block(rest, env, ret, self_ty, indent)
        if isinstance(s, ast.Pass):
            return self.block(rest, env, ret, self_ty, indent)
        if isinstance(s, ast.Return):
            if s.value is None:
                return self.block([], env, ret, self_ty, indent)
            if ret == 'Bool' and isinstance(s.value, ast.Constant) and isinstance(s.value.value, bool):
                b, t, ty = [], 'true' if s.value.value else 'false', 'Bool'
            else:
                b, t, ty = self.expr(s.value, env)
            if ty != ret:
                raise Unsupported('returns a %s, spec says %s' % (ty, ret))
            return self.wrap(b, pad + 'some %s' % t, pad)
        if isinstance(s, ast.Assert):
            b, t = self.cond(s.test, env)
            body = pad + 'if %s then\n%s\n%selse\n%s  none' % (t, self.block(rest, env, ret, self_ty, indent + 1), pad, pad)
            return self.wrap(b, body, pad)
        if isinstance(s, ast.Assign):
            if len(s.targets) != 1:
                raise Unsupported('multiple assignment')
            tg = s.targets[0]
            b, t, ty = self.expr(s.value, env)
            if isinstance(tg, ast.Name):
                body = pad + 'let %s := %s\n' % (lean_name(tg.id), t) + \
                    self.block(rest, dict(env, **{tg.id: ty}), ret, self_ty, indent)
                return self.wrap(b, body, pad)
            if isinstance(tg, ast.Attribute) and isinstance(tg.value, ast.Name) and tg.value.id == 'self' \
                    and self_ty is not None:
                if tg.attr not in self.records[self_ty] or ty != 'V':
                    raise Unsupported('assignment to self.%s' % tg.attr)
                body = pad + 'let self := { self with %s := %s }\n' % (lean_name(tg.attr), t) + \
                    self.block(rest, env, ret, self_ty, indent)
                return self.wrap(b, body, pad)
            raise Unsupported('assignment target %s' % ast.unparse(tg))
        if isinstance(s, ast.If):
            b, t = self.cond(s.test, env)
            a = self.block(list(s.body) + rest, env, ret, self_ty, indent + 1)
            c = self.block(list(s.orelse) + rest, env, ret, self_ty, indent + 1)
            return self.wrap(b, pad + 'if %s then\n%s\n%selse\n%s' % (t, a, pad, c), pad)
        raise Unsupported('statement %s' % type(s).__name__)


def find_def(tree, cls, name):
    body = tree.body
    if cls:
        for n in tree.body:
            if isinstance(n, ast.ClassDef) and n.name == cls:
                body = n.body
                break
        else:
            raise Unsupported('class %s not found' % cls)
    for n in body:
        if isinstance(n, ast.FunctionDef) and n.name == name:
            return n
    raise Unsupported('%s%s not found' % (cls + '.' if cls else '', name))


def record_fields(tree, cls):
    """parameters of __init__ in source order; __init__ must store each in the field of the same name"""
    init = find_def(tree, cls, '__init__')
    params = [a.arg for a in init.args.args[1:]]
    stored = {}
    for s in init.body:
        if isinstance(s, ast.Expr) and isinstance(s.value, ast.Constant):
            continue
        if isinstance(s, ast.Assign) and len(s.targets) == 1 and isinstance(s.targets[0], ast.Attribute) \
                and isinstance(s.targets[0].value, ast.Name) and s.targets[0].value.id == 'self' \
                and isinstance(s.value, ast.Name):
            stored[s.targets[0].attr] = s.value.id
            continue
        raise Unsupported('%s.__init__ does more than store its parameters: %s' % (cls, ast.unparse(s)[:60]))
    for p in params:
        if stored.get(p) != p:
            raise Unsupported('%s.__init__ does not store parameter %s in self.%s' % (cls, p, p))
    if set(stored) != set(params):
        raise Unsupported('%s.__init__ sets fields %s from parameters %s' % (cls, sorted(stored), params))
    return params


def translate(spec, repo):
    trees = {}

    def tree(src):
        if src not in trees:
            trees[src] = ast.parse(open(os.path.join(repo, src)).read())
        return trees[src]
    records = {}
    for r in spec.get('records', []):
        records[r['class']] = record_fields(tree(r['source']), r['class'])
    funcs = {}
    for u in spec['units']:
        if u.get('kind', 'function') == 'function':
            funcs[u['name']] = {'ret': u['returns'], 'params': list(u['params'].items())}
    out = ['/- GENERATED by tools/py2lean_fn.py — do not edit.  Sources: %s -/' %
           ', '.join(sorted({u['source'] for u in spec['units']})),
           'import RB.Util.PyVal', 'namespace %s' % spec['namespace'], 'open RB.Py', '']
    for name, fields in records.items():
        out.append('structure %s where' % name)
        for f in fields:
            out.append('  %s : V' % lean_name(f))
        out.append('deriving Repr, DecidableEq')
        out.append('')
    for u in spec['units']:
        fn = find_def(tree(u['source']), u.get('class'), u['name'])
        kind = u.get('kind', 'function')
        tr = Fn(spec, records, funcs)
        got = [a.arg for a in fn.args.args]
        if kind == 'function':
            want = list(u['params'])
            if got != want:
                raise Unsupported('signature of %s is %s, spec says %s' % (u['name'], got, want))
            env = dict(u['params'])
            sig = ' '.join('(%s : %s)' % (lean_name(p), t) for p, t in u['params'].items())
            body = tr.block(fn.body, env, u['returns'], None, 1)
            out.append('def %s %s : Option %s :=\n%s\n' % (lean_name(u['name']), sig, u['returns'], body))
        elif kind == 'classmethod':
            want = ['cls'] + list(u['params'])
            if got != want:
                raise Unsupported('signature of %s.%s is %s, spec says %s' % (u['class'], u['name'], got, want))
            env = dict(u['params'])
            sig = ' '.join('(%s : %s)' % (lean_name(p), t) for p, t in u['params'].items())
            body = tr.block(fn.body, env, u['class'], None, 1)
            out.append('def %s_%s %s : Option %s :=\n%s\n' % (u['class'], u['name'].lstrip('_'), sig, u['class'], body))
        elif kind == 'method':
            want = ['self'] + list(u.get('params', {}))
            if got != want:
                raise Unsupported('signature of %s.%s is %s, spec says %s' % (u['class'], u['name'], got, want))
            env = dict(u.get('params', {}), self=u['class'])
            sig = ' '.join(['(self : %s)' % u['class']] + ['(%s : %s)' % (lean_name(p), t) for p, t in u.get('params', {}).items()])
            body = tr.block(fn.body, env, u['class'], u['class'], 1)
            out.append('def %s_%s %s : Option %s :=\n%s\n' % (u['class'], u['name'].lstrip('_'), sig, u['class'], body))
        else:
            raise Unsupported('unit kind %s' % kind)
    out.append('end %s' % spec['namespace'])
    return '\n'.join(out) + '\n'


def main():
    spec = json.load(open(sys.argv[1]))
    try:
        text = translate(spec, sys.argv[2])
    except Unsupported as e:
        print('UNSUPPORTED: %s' % e)
        sys.exit(3)
    with open(sys.argv[3], 'w') as f:
        f.write(text)


if __name__ == '__main__':
    main()
