#!/usr/bin/env python3
"""py2lean_fn — translate module-level functions, classmethods that build an object, and
self-mutating methods of the configuration code into Lean 4 definitions over the Python
value type `RB.Py.V` (lean/RB/Util/PyVal.lean).  Second translator of the translation tie
(DESIGN.md section 9.2); the first one, py2lean.py, handles numeric state machines.

    tools/py2lean_fn.py <spec.json> <repo root> <output .lean>

Every translated function returns `Option T`: `none` = "raises, or leaves the modelled
fragment of Python".  Statements: `if`/`elif`/`else`, `return e`, assignment to locals and to
`self.<field>`, `assert e`, docstrings.  Expressions: names, `None`, `True`/`False`, int and
str constants, `x is None`, `x is not None`, `isinstance(x, int|str|dict)`, `str(x)`, `int(x)`,
`bool(x)`, `float(x)`, `x[-1]`, `x[:-1]`, `a == b`, `a != b`, `not`, `and`/`or` of total
operands, truth value of a value in a condition, the empty dict literal `{}`, `d.get(k)`, `d.get(k, dflt)` with a constant
key on a parameter declared `Dict`, attribute reads `obj.field` on a parameter declared as a
record, calls of other translated functions, and `Cls(a, b, ...)` / keyword-less constructor
calls of a class declared in the spec: the arguments are matched to the parameters of the
class's `__init__` *as written in the source*, and `__init__` must assign each parameter to
the field of the same name.  Anything else raises Unsupported (= the tie is not available for
the current source; never a finding by itself).

Added for the run filters (spec `lean/gen/run_filter.json`):
* spec key `views`: objects of which only the listed, typed attributes are read (`bench.suite.executor.name`);
* records whose `__init__` stores a parameter `p` in `self._p`, or passes parameters on to the base class's
  `__init__` (`super(C, self).__init__(a)`); record fields may be typed (`"fields"` for a record whose
  `__init__` is translated as a unit of kind `init`);
* spec key `unions`: a list field holds objects of several declared classes; `obj.m(args)` on such an object is
  a generated dispatch over the classes' own (or inherited) method `m`;
* unit kinds `query` (method that only reads `self`), `staticmethod` (with monomorphic `instances`), `init`;
* types `List T` and `OptList T` (a list or `None`); `[]`, truth value of a list, `len(xs)`, `xs[i]` with a
  constant index, `x.split("c")` with a one-character constant, `xs.append(e)` on a list field of `self`;
* `super(C, self).m(args)`; `a and b` / `a or b` whose operands may raise (short-circuit in `Option`);
* `raise E(...)` (= `none`); `for x in xs: if c: return e` followed by more statements (`forFirst`);
  `for x in xs: <body without return>` in a self-mutating method (`forEachM`).

Added for the warm-up / recording rule (spec `lean/gen/warmup.json`):
* unit kind `trace`: a method is translated to the list of *events* it performs -- the calls declared under
  `events` (e.g. `run_id.add_data_point(dp, flag)`), in order; other methods of kind `trace` called on `self`
  are spliced in.  Declared `inputs` (source text -> parameter) stand for the values the method reads from
  its environment (`run_id.warmup_iterations`, `run_id.is_profiling()`, the list returned by
  `gauge_adapter.parse_data(...)`); they are parameters of the generated function, not interpreted.
* in a `trace` unit the locals listed under `ignore_locals` (UI only: `msg`, `i`, ...), the calls under
  `ignore_calls` and assignments to the `self` attributes under `ignore_fields` are dropped, **but only** if
  they never flow into anything kept: an ignored name inside a kept expression, or an `if` that tests an
  ignored name and contains a kept statement, is refused.  Of `try: ... except ...:` only the `try` body is
  translated (`none` already stands for "raises").
* `for x in xs:` with loop-carried locals (state = the kept locals assigned in the body, and the trace);
  `x -= e` / `x += e`, `a - b`, `a + b`, `<`, `<=`, `>`, `>=` on ints (`V.sub`, `V.add`, `V.lt`, ...: `none`
  on anything that is not an int or bool); the conditional expression `a if c else b`.
* more for `trace` units (failure classification, spec `lean/gen/failure_class.json`): `return <text>` as a final
  event (`return_events`), `obj.attr = e` as an event (`attr_events`), events that keep only some of their
  arguments (`keep`), a tuple assignment from a declared call whose targets become inputs (`assigned_inputs`),
  nested function definitions bound to ignored names, inputs that are module-level integer constants of another
  source file (`const`), `assert`.
* unit kind `call_arg`: the n-th argument of the one call of a given method inside a function, as a function
  of the declared inputs (the reload rule inside `_parse_data_line`).
"""
import ast
import json
import os
import sys


class Unsupported(Exception):
    pass


def lean_name(n):
    n = n.lstrip('_')
    return {'default': 'dflt', 'from': 'from_', 'end': 'end_', 'at': 'at_'}.get(n, n)


def cls_name(n):
    return n.lstrip('_')


def lean_ty(t):
    if t.startswith('(') and ' × ' in t:
        return t
    if t.startswith('List '):
        return 'List %s' % lean_ty_atom(t[5:])
    if t.startswith('OptList '):
        return 'Option (List %s)' % lean_ty_atom(t[8:])
    return cls_name(t)


def lean_ty_atom(t):
    r = lean_ty(t)
    return '(%s)' % r if ' ' in r else r


def lean_chars(s):
    return '[%s]' % ', '.join("'%s'" % ('\\\\' if c == '\\' else "\\'" if c == "'" else c) for c in s)


def lean_str(s):
    return '(V.str [%s])' % ', '.join("'%s'" % ('\\\\' if c == '\\' else "\\'" if c == "'" else c) for c in s)


class Fn(object):
    def __init__(self, spec, records, funcs, ctx=None):
        self.spec = spec
        self.records = records          # class name -> [field names]
        self.funcs = funcs              # python name -> {'ret': lean type, 'params': [...]}
        self.counter = 0
        ctx = ctx or {}
        self.ftypes = ctx.get('ftypes', {})      # class -> {field: type}; absent = every field is a V
        self.ctors = ctx.get('ctors', {})        # class -> [(parameter, field)] of __init__
        self.unions = ctx.get('unions', {})      # union name -> [class names]
        self.methods = ctx.get('methods', {})    # (class or union, method) -> [{'params': [(n, t)], 'ret': t, 'lean': name}]
        self.bases = ctx.get('bases', {})        # class -> base class (declared records only)
        self.cls = ctx.get('cls')                # class of the unit being translated
        self.consts = ctx.get('consts', {})      # module-level integer constants of the unit's source file
        self.inputs = ctx.get('inputs', {})      # source text -> (lean term, type): values read from the environment
        self.tr = ctx.get('trace')               # trace mode: {'events', 'ignore_locals', 'ignore_calls', 'ignore_fields', 'units'}
        self.fall = None                         # what falling off the end of the current block means (trace mode)
        self.in_loop = False

    def ftype(self, cls, field):
        return self.ftypes.get(cls, {}).get(field, 'V')

    def field_of(self, cls, attr):
        """the declared field an attribute name refers to (`_name` and `name` are the same Lean field)"""
        for f in self.records[cls]:
            if f == attr:
                return f
        for f in self.records[cls]:
            if lean_name(f) == lean_name(attr):
                return f
        return None

    def opt_term(self, e, env):
        """a condition as one Lean term of type `Option Bool` (its own binds inside)"""
        b, t = self.cond(e, env)
        if not b:
            return 'some %s' % t
        out = ''
        for (n, o) in b:
            out += '%s.bind fun %s => ' % (o, n)
        return '(' + out + 'some %s)' % t

    def method_call(self, recv_term, recv_ty, name, e, env, pre):
        cands = self.methods.get((recv_ty, name))
        if not cands:
            raise Unsupported('method %s of a %s' % (name, recv_ty))
        b, terms, types = self.args(e, env)
        for c in cands:
            if [t for (_n, t) in c['params']] == types:
                n = self.fresh()
                return pre + b + [(n, '(%s %s)' % (c['lean'], ' '.join([recv_term] + terms)))], n, c['ret']
        raise Unsupported('method %s.%s called with %s' % (recv_ty, name, types))

    def fresh(self):
        self.counter += 1
        return 't%d' % self.counter

    # ------------------------------------------------------------ expressions
    # expr() returns (binds, term, type) where binds = [(name, option-term)], evaluated in order
    def expr(self, e, env):
        if self.inputs:
            key = ast.unparse(e)
            if key in self.inputs:
                return [], self.inputs[key][0], self.inputs[key][1]
        if self.tr and isinstance(e, ast.Name) and e.id in self.tr['ignore_locals']:
            raise Unsupported('the ignored local %s flows into a kept expression' % e.id)
        if isinstance(e, ast.BinOp) and isinstance(e.op, ast.Mult):
            b1, a, ta = self.expr(e.left, env)
            b2, c, tc = self.expr(e.right, env)
            if ta != 'V' or tc != 'V':
                raise Unsupported('arithmetic on non-values')
            n = self.fresh()
            return b1 + b2 + [(n, '(V.mul %s %s)' % (a, c))], n, 'V'
        if isinstance(e, ast.BinOp) and isinstance(e.op, (ast.Sub, ast.Add)):
            b1, a, ta = self.expr(e.left, env)
            b2, c, tc = self.expr(e.right, env)
            if isinstance(e.op, ast.Add) and ta.startswith('List ') and tc.startswith('List ') \
                    and (ta == tc or 'List ?' in (ta, tc)):
                return b1 + b2, '(%s ++ %s)' % (a, c), tc if ta == 'List ?' else ta    # concatenation of lists
            if ta != 'V' or tc != 'V':
                raise Unsupported('arithmetic on non-values')
            n = self.fresh()
            return b1 + b2 + [(n, '(V.%s %s %s)' % ('sub' if isinstance(e.op, ast.Sub) else 'add', a, c))], n, 'V'
        if isinstance(e, ast.IfExp):
            bc, tc = self.cond(e.test, env)
            ba, ta, tya = self.expr(e.body, env)
            bb, tb, tyb = self.expr(e.orelse, env)
            conv = lambda t_, ty_, node: (('true' if node.value else 'false'), 'Bool') \
                if isinstance(node, ast.Constant) and isinstance(node.value, bool) else (t_, ty_)
            if 'Bool' in (tya, tyb):
                ta, tya = conv(ta, tya, e.body)
                tb, tyb = conv(tb, tyb, e.orelse)
            if tya != tyb:
                raise Unsupported('conditional expression of types %s / %s' % (tya, tyb))
            n = self.fresh()
            wa = Fn.wrap_inline(ba, 'some %s' % ta)
            wb = Fn.wrap_inline(bb, 'some %s' % tb)
            return bc + [(n, '(if %s then %s else %s)' % (tc, wa, wb))], n, tya
        if isinstance(e, ast.Constant):
            v = e.value
            if v is None:
                return [], 'V.none', 'V'
            if isinstance(v, bool):
                return [], '(V.bool %s)' % ('true' if v else 'false'), 'V'
            if isinstance(v, int):
                return [], '(V.int %d)' % v if v >= 0 else '(V.int (-%d))' % -v, 'V'
            if isinstance(v, str):
                return [], lean_str(v), 'V'
            raise Unsupported('constant %r' % (v,))
        if isinstance(e, ast.Dict) and not e.keys:
            return [], '(V.dict 0 false)', 'V'          # the empty dict literal
        if isinstance(e, ast.List) and not e.elts:
            return [], '[]', 'List ?'                    # typed by the field it is assigned to
        if isinstance(e, ast.List):
            parts = [self.expr(x_, env) for x_ in e.elts]
            if len({ty_ for (_b, _t, ty_) in parts}) != 1:
                raise Unsupported('list literal of mixed types')
            return [b_ for (bs_, _t, _y) in parts for b_ in bs_], '[%s]' % ', '.join(t_ for (_b, t_, _y) in parts), \
                'List %s' % parts[0][2]
        if isinstance(e, ast.Name):
            if e.id in env:
                return [], lean_name(e.id), env[e.id]
            if e.id in self.consts:
                v = self.consts[e.id]                    # a module-level integer constant of the unit's source file
                return [], '(V.int %d)' % v if v >= 0 else '(V.int (-%d))' % -v, 'V'
            raise Unsupported('unknown name %s' % e.id)
        if isinstance(e, ast.Tuple) and len(e.elts) == 2:
            b1, a, ta = self.expr(e.elts[0], env)
            b2, c, tc = self.expr(e.elts[1], env)
            return b1 + b2, '(%s, %s)' % (a, c), '(%s × %s)' % (lean_ty(ta), lean_ty(tc))
        if isinstance(e, ast.ListComp):
            # [x for x in xs if c]: the elements of a list that satisfy a condition, in order
            if len(e.generators) == 1 and not e.generators[0].is_async and isinstance(e.generators[0].target, ast.Name) \
                    and not e.generators[0].ifs and isinstance(e.elt, ast.Call) and isinstance(e.elt.func, ast.Name) \
                    and not e.elt.keywords and len(e.elt.args) == 1 and isinstance(e.elt.args[0], ast.Name) \
                    and e.elt.args[0].id == e.generators[0].target.id and e.elt.func.id in self.inputs:
                # [f(x) for x in xs] with a declared input function f: the list of the f(x), in order
                f_term, f_ty = self.inputs[e.elt.func.id]
                b, t, ty = self.expr(e.generators[0].iter, env)
                if not ty.startswith('List ') or f_ty != '%s → %s' % (ty[5:], ty[5:]):
                    raise Unsupported('comprehension with %s : %s over a %s' % (e.elt.func.id, f_ty, ty))
                return b, '(List.map %s %s)' % (f_term, t), ty
            if len(e.generators) != 1 or e.generators[0].is_async or not isinstance(e.generators[0].target, ast.Name) \
                    or not (isinstance(e.elt, ast.Name) and e.elt.id == e.generators[0].target.id):
                raise Unsupported('list comprehension of this shape')
            g = e.generators[0]
            b, t, ty = self.expr(g.iter, env)
            if not ty.startswith('List '):
                raise Unsupported('comprehension over a %s' % ty)
            env2 = dict(env, **{g.target.id: ty[5:]})
            test = g.ifs[0] if len(g.ifs) == 1 else ast.BoolOp(op=ast.And(), values=list(g.ifs)) if g.ifs \
                else ast.Constant(value=True)
            if isinstance(test, ast.Constant):
                return b, t, ty
            n = self.fresh()
            return b + [(n, '(filterOpt %s fun %s => %s)' % (t, lean_name(g.target.id), self.opt_term(test, env2)))], n, ty
        if isinstance(e, ast.Attribute):
            b, t, ty = self.expr(e.value, env)
            if ty in self.records:
                f = self.field_of(ty, e.attr)
                if f is None:
                    raise Unsupported('%s has no field %s' % (ty, e.attr))
                return b, '%s.%s' % (t, lean_name(f)), self.ftype(ty, f)
            raise Unsupported('attribute %s of a %s' % (e.attr, ty))
        if isinstance(e, ast.Subscript):
            b, t, ty = self.expr(e.value, env)
            if ty.startswith('List ') and isinstance(e.slice, ast.Constant) and isinstance(e.slice.value, int) \
                    and not isinstance(e.slice.value, bool) and e.slice.value >= 0:
                n = self.fresh()                          # IndexError = none
                return b + [(n, '%s[%d]?' % (t, e.slice.value))], n, ty[5:]
            if ty != 'V':
                raise Unsupported('subscript of a %s' % ty)
            s = e.slice
            if isinstance(s, ast.UnaryOp) and isinstance(s.op, ast.USub) and isinstance(s.operand, ast.Constant) \
                    and s.operand.value == 1:
                n = self.fresh()
                return b + [(n, '(V.indexLast %s)' % t)], n, 'V'
            if isinstance(s, ast.Slice) and s.lower is None and s.step is None and isinstance(s.upper, ast.UnaryOp) \
                    and isinstance(s.upper.op, ast.USub) and isinstance(s.upper.operand, ast.Constant) \
                    and s.upper.operand.value == 1:
                n = self.fresh()
                return b + [(n, '(V.sliceDropLast %s)' % t)], n, 'V'
            raise Unsupported('subscript %s' % ast.unparse(s))
        if isinstance(e, ast.Compare):
            if len(e.ops) == 2 and all(isinstance(o_, (ast.Lt, ast.LtE, ast.Gt, ast.GtE)) for o_ in e.ops):
                # a < b < c: b is evaluated once, c only if the first comparison holds
                b1, a, ta = self.expr(e.left, env)
                b2, m, tm = self.expr(e.comparators[0], env)
                b3, c, tc = self.expr(e.comparators[1], env)
                if (ta, tm, tc) != ('V', 'V', 'V') or b3:
                    raise Unsupported('chained comparison of non-values')
                nm = {ast.Lt: 'lt', ast.LtE: 'le', ast.Gt: 'gt', ast.GtE: 'ge'}
                n1, n2 = self.fresh(), self.fresh()
                return b1 + b2 + [(n1, '(V.%s %s %s)' % (nm[type(e.ops[0])], a, m)),
                                  (n2, '(if %s then (V.%s %s %s) else some false)' % (n1, nm[type(e.ops[1])], m, c))], n2, 'Bool'
            if len(e.ops) != 1:
                raise Unsupported('chained comparison')
            op = e.ops[0]
            b1, a, ta = self.expr(e.left, env)
            right = e.comparators[0]
            if isinstance(op, (ast.Is, ast.IsNot)):
                if not (isinstance(right, ast.Constant) and right.value is None) or ta != 'V':
                    raise Unsupported('`is` other than with None')
                t = '(V.isNone %s)' % a
                return b1, t if isinstance(op, ast.Is) else '(! %s)' % t, 'Bool'
            if isinstance(op, (ast.In, ast.NotIn)) and isinstance(e.left, ast.Constant) and isinstance(e.left.value, str):
                b2, c, tc = self.expr(right, env)         # "lit" in x, for a str x (TypeError / other containers = none)
                if tc != 'V':
                    raise Unsupported('`in` on a %s' % tc)
                n = self.fresh()
                return b2 + [(n, '(V.contains %s %s)' % (lean_chars(e.left.value), c))], \
                    n if isinstance(op, ast.In) else '(! %s)' % n, 'Bool'
            b2, c, tc = self.expr(right, env)
            if ta != 'V' or tc != 'V':
                raise Unsupported('comparison of non-values')
            if isinstance(op, ast.Eq):
                return b1 + b2, '(V.pyeq %s %s)' % (a, c), 'Bool'
            if isinstance(op, ast.NotEq):
                return b1 + b2, '(! (V.pyeq %s %s))' % (a, c), 'Bool'
            order = {ast.Lt: 'lt', ast.LtE: 'le', ast.Gt: 'gt', ast.GtE: 'ge'}.get(type(op))
            if order:
                n = self.fresh()                          # TypeError on anything but numbers = none
                return b1 + b2 + [(n, '(V.%s %s %s)' % (order, a, c))], n, 'Bool'
            raise Unsupported('comparison %s' % type(op).__name__)
        if isinstance(e, ast.UnaryOp) and isinstance(e.op, ast.USub) and isinstance(e.operand, ast.Constant) \
                and isinstance(e.operand.value, int) and not isinstance(e.operand.value, bool):
            return [], '(V.int (-%d))' % e.operand.value, 'V'
        if isinstance(e, ast.UnaryOp) and isinstance(e.op, ast.Not):
            b, t = self.cond(e.operand, env)
            return b, '(! %s)' % t, 'Bool'
        if isinstance(e, ast.BoolOp):
            parts = []
            raising = False
            for v in e.values:
                b, t = self.cond(v, env)
                if b:
                    raising = True
                parts.append(t)
            if raising:
                # short-circuit evaluation in Option: a later operand is evaluated (and may raise) only
                # if the earlier ones did not decide
                is_and = isinstance(e.op, ast.And)
                term = self.opt_term(e.values[-1], env)
                for v in reversed(e.values[:-1]):
                    n = self.fresh()
                    ot = self.opt_term(v, env)
                    if ot.startswith('some '):
                        ot = '(%s)' % ot
                    term = '(%s.bind fun %s => if %s then %s else %s)' % (
                        ot, n, n,
                        term if is_and else 'some true', 'some false' if is_and else term)
                n = self.fresh()
                return [(n, term)], n, 'Bool'
            return [], '(' + (' && ' if isinstance(e.op, ast.And) else ' || ').join(parts) + ')', 'Bool'
        if isinstance(e, ast.Call):
            return self.call(e, env)
        raise Unsupported('expression %s' % type(e).__name__)

    def cond(self, e, env):
        b, t, ty = self.expr(e, env)
        if ty == 'Bool':
            return b, t
        if ty == 'V':
            return b, '(V.truthy %s)' % t
        if ty.startswith('List '):
            return b, '(! %s.isEmpty)' % t
        if ty.startswith('OptList '):
            return b, '(optListTruthy %s)' % t
        raise Unsupported('truth value of a %s' % ty)

    def args(self, call, env):
        if call.keywords:
            raise Unsupported('keyword arguments')
        binds, terms, types = [], [], []
        for a in call.args:
            b, t, ty = self.expr(a, env)
            binds += b
            terms.append(t)
            types.append(ty)
        return binds, terms, types

    def call(self, e, env):
        f = e.func
        if isinstance(f, ast.Attribute) and f.attr == 'get' and isinstance(f.value, ast.Name) \
                and env.get(f.value.id) == 'Dict':
            if not e.args or not (isinstance(e.args[0], ast.Constant) and isinstance(e.args[0].value, str)) or e.keywords:
                raise Unsupported('dict.get with a non-constant key')
            d, k = lean_name(f.value.id), json.dumps(e.args[0].value)
            if len(e.args) == 1:
                return [], '(Dict.get %s %s)' % (d, k), 'V'
            if len(e.args) == 2:
                b, t, ty = self.expr(e.args[1], env)
                if ty != 'V':
                    raise Unsupported('dict.get default of type %s' % ty)
                return b, '(Dict.getOr %s %s %s)' % (d, k, t), 'V'
            raise Unsupported('dict.get arity')
        if isinstance(f, ast.Attribute):
            # super(C, self).m(args) / super().m(args): the base class's method on the base part of self
            v = f.value
            if isinstance(v, ast.Call) and isinstance(v.func, ast.Name) and v.func.id == 'super':
                if self.cls is None or self.cls not in self.bases or env.get('self') != self.cls:
                    raise Unsupported('super() outside a method of a declared subclass')
                if v.args and not (len(v.args) == 2 and isinstance(v.args[0], ast.Name) and v.args[0].id == self.cls
                                   and isinstance(v.args[1], ast.Name) and v.args[1].id == 'self'):
                    raise Unsupported('super(%s)' % ast.unparse(v))
                base = self.bases[self.cls]
                up = '{ ' + ', '.join('%s := self.%s' % (lean_name(x), lean_name(x)) for x in self.records[base]) + \
                    ' : %s }' % cls_name(base)
                return self.method_call(up, base, f.attr, e, env, [])
            # x.startswith("lit") on a str value
            if f.attr == 'startswith' and len(e.args) == 1 and not e.keywords and isinstance(e.args[0], ast.Constant) \
                    and isinstance(e.args[0].value, str):
                b, t, ty = self.expr(v, env)
                if ty != 'V':
                    raise Unsupported('startswith of a %s' % ty)
                n = self.fresh()
                return b + [(n, '(V.startswith %s %s)' % (lean_chars(e.args[0].value), t))], n, 'Bool'
            # x.split("c") on a str value
            if f.attr == 'split' and len(e.args) == 1 and not e.keywords and isinstance(e.args[0], ast.Constant) \
                    and isinstance(e.args[0].value, str) and len(e.args[0].value) == 1:
                b, t, ty = self.expr(v, env)
                if ty != 'V':
                    raise Unsupported('split of a %s' % ty)
                n = self.fresh()
                c = e.args[0].value
                return b + [(n, "(V.split '%s' %s)" % ("\\'" if c == "'" else '\\\\' if c == '\\' else c, t))], n, 'List V'
            # method of a declared record / union / of self
            b, t, ty = self.expr(v, env)
            if (ty, f.attr) in self.methods:
                return self.method_call(t, ty, f.attr, e, env, b)
            # staticmethod reached through self: self.m(args)
            if ty in self.records and ('static:' + ty, f.attr) in self.methods:
                cands = self.methods[('static:' + ty, f.attr)]
                b2, terms, types = self.args(e, env)
                for c in cands:
                    if [x for (_n, x) in c['params']] == types:
                        n = self.fresh()
                        return b + b2 + [(n, '(%s %s)' % (c['lean'], ' '.join(terms)))], n, c['ret']
                raise Unsupported('%s.%s called with %s' % (ty, f.attr, types))
            raise Unsupported('call of %s' % ast.unparse(f))
        if not isinstance(f, ast.Name):
            raise Unsupported('call of %s' % ast.unparse(f))
        name = f.id
        if name == 'len' and len(e.args) == 1 and not e.keywords:
            b, t, ty = self.expr(e.args[0], env)
            if not ty.startswith('List '):
                raise Unsupported('len of a %s' % ty)
            return b, '(pylen %s)' % t, 'V'
        if name == 'isinstance' and len(e.args) == 2 and isinstance(e.args[1], ast.Name):
            b, t, ty = self.expr(e.args[0], env)
            pred = {'int': 'V.isInt', 'str': 'V.isStr', 'dict': 'V.isDict'}.get(e.args[1].id)
            if pred is None or ty != 'V':
                raise Unsupported('isinstance(_, %s)' % e.args[1].id)
            return b, '(%s %s)' % (pred, t), 'Bool'
        total = {'bool': 'V.pybool'}
        partial = {'str': 'V.pystr', 'int': 'V.pyint', 'float': 'V.pyfloat'}
        if name in total or name in partial:
            if len(e.args) != 1 or e.keywords:
                raise Unsupported('%s arity' % name)
            b, t, ty = self.expr(e.args[0], env)
            if ty != 'V':
                raise Unsupported('%s of a %s' % (name, ty))
            if name in total:
                return b, '(%s %s)' % (total[name], t), 'V'
            n = self.fresh()
            return b + [(n, '(%s %s)' % (partial[name], t))], n, 'V'
        if name in self.funcs:
            sig = self.funcs[name]
            b, terms, types = self.args(e, env)
            if types != [t for (_p, t) in sig['params']]:
                raise Unsupported('call of %s with %s' % (name, types))
            n = self.fresh()
            return b + [(n, '(%s %s)' % (lean_name(name), ' '.join(terms)))], n, sig['ret']
        if name in self.records and name in self.ctors:
            ctor = self.ctors[name]                     # [(parameter, field)] in the order of __init__'s parameters
            b, terms, types = self.args(e, env)
            if len(terms) != len(ctor) or any(t != self.ftype(name, f_) for t, (_p, f_) in zip(types, ctor)):
                raise Unsupported('constructor %s called with %d arguments for %d parameters' % (name, len(terms), len(ctor)))
            given = dict((f_, t) for (_p, f_), t in zip(ctor, terms))
            lit = '{ ' + ', '.join('%s := %s' % (lean_name(f_), given[f_]) for f_ in self.records[name]) + ' : %s }' % cls_name(name)
            return b, lit, name
        raise Unsupported('call of %s' % name)

    # ------------------------------------------------------------ statements
    @staticmethod
    def wrap_inline(binds, body):
        out = ''
        for (n, t) in binds:
            out += '%s.bind fun %s => ' % (t, n)
        return '(' + out + body + ')'

    @staticmethod
    def wrap(binds, body, pad):
        out = ''
        for (n, t) in binds:
            out += pad + '%s.bind fun %s =>\n' % (t, n)
        return out + body

    # ------------------------------------------------------------ trace units
    def reads_ignored(self, node):
        if self.inputs:
            # a sub-expression that is a declared input is not read any further
            def walk(n_):
                if isinstance(n_, ast.expr) and ast.unparse(n_) in self.inputs:
                    return
                yield n_
                for c_ in ast.iter_child_nodes(n_):
                    for x_ in walk(c_):
                        yield x_
            nodes = list(walk(node))
            return any(isinstance(n_, ast.Name) and n_.id in self.tr['ignore_locals'] for n_ in nodes) or \
                any(isinstance(n_, ast.Attribute) and isinstance(n_.value, ast.Name) and n_.value.id == 'self'
                    and n_.attr in self.tr['ignore_fields'] for n_ in nodes)
        return any(isinstance(n_, ast.Name) and n_.id in self.tr['ignore_locals'] for n_ in ast.walk(node)) or \
            any(isinstance(n_, ast.Attribute) and isinstance(n_.value, ast.Name) and n_.value.id == 'self'
                and n_.attr in self.tr['ignore_fields'] for n_ in ast.walk(node))

    def droppable(self, s):
        """a statement that only concerns ignored (UI-only) names / calls / fields"""
        if isinstance(s, (ast.Assign, ast.AugAssign)):
            tgs = s.targets if isinstance(s, ast.Assign) else [s.target]
            return all((isinstance(t, ast.Name) and t.id in self.tr['ignore_locals']) or
                       (isinstance(t, ast.Subscript) and isinstance(t.value, ast.Name) and t.value.id in self.tr['ignore_locals']
                        and ast.unparse(t) not in self.tr.get('subscript_events', {})
                        and t.value.id not in self.tr.get('keyed_store_events', {})) or
                       (isinstance(t, ast.Attribute) and isinstance(t.value, ast.Name) and t.value.id == 'self'
                        and t.attr in self.tr['ignore_fields']) for t in tgs)
        if isinstance(s, ast.Expr) and isinstance(s.value, ast.Call):
            return ast.unparse(s.value.func) in self.tr['ignore_calls']
        if isinstance(s, ast.If):
            return all(self.droppable(x) for x in list(s.body) + list(s.orelse))
        if isinstance(s, ast.FunctionDef):
            return s.name in self.tr['ignore_locals']
        return False

    def value_expr(self, e, env):
        """an expression in value position: `a or b` on values is the first truthy operand (else the last)"""
        if isinstance(e, ast.BoolOp) and isinstance(e.op, ast.Or) and ast.unparse(e) not in self.inputs:
            parts = [self.expr(v_, env) for v_ in e.values]
            if all(ty_ == 'V' and not b_ for (b_, _t, ty_) in parts):
                term = parts[-1][1]
                for (_b, t_, _ty) in reversed(parts[:-1]):
                    term = '(if V.truthy %s then %s else %s)' % (t_, t_, term)
                return [], term, 'V'
            raise Unsupported('`or` of non-values in value position')
        return self.expr(e, env)

    def is_assigned_input(self, s):
        return isinstance(s, ast.Assign) and len(s.targets) == 1 and isinstance(s.targets[0], (ast.Tuple, ast.Name)) \
            and isinstance(s.value, ast.Call) and ast.unparse(s.value.func) in self.tr.get('assigned_inputs', {})

    def trace_stmt(self, s, rest, env, ret, self_ty, indent):
        pad = '  ' * indent
        if self.droppable(s) and not self.is_assigned_input(s):
            return self.block(rest, env, ret, self_ty, indent)
        if self.is_assigned_input(s):
            # (a, b, _) = declared_call(...) / a = declared_call(...): the targets are inputs of the translation
            decl = self.tr['assigned_inputs'][ast.unparse(s.value.func)]
            tgs_ = s.targets[0].elts if isinstance(s.targets[0], ast.Tuple) else [s.targets[0]]
            names = [t.id if isinstance(t, ast.Name) else None for t in tgs_]
            if names != list(decl):
                raise Unsupported('targets of %s are %s, spec says %s' % (ast.unparse(s.value.func), names, list(decl)))
            env2 = dict(env)
            for n_, ty_ in decl.items():
                if ty_ != 'Opaque':
                    env2[n_] = ty_
            ev_ = self.tr.get('assigned_input_events', {}).get(ast.unparse(s.value.func))
            go_ = (pad + 'let trace := trace ++ [Event.%s]\n' % ev_ if ev_ else '') + self.block(rest, env2, ret, self_ty, indent)
            ri_ = self.tr.get('raising_inputs', {}).get(ast.unparse(s.value.func))
            if ri_:
                # the declared call may raise (an input): the exception leaves the function as the last event
                if self.in_loop:
                    raise Unsupported('a raising input inside a loop')
                return pad + 'if %s then\n%s  some (trace ++ [Event.%s])\n%selse\n%s' % (
                    lean_name(ri_['param']), pad, ri_['event'], pad,
                    '\n'.join('  ' + l_ for l_ in go_.split('\n')))
            return go_
        if isinstance(s, ast.Assign) and len(s.targets) == 1 and isinstance(s.targets[0], ast.Attribute) \
                and ast.unparse(s.targets[0]) in self.tr.get('attr_events', {}):
            ev = self.tr['attr_events'][ast.unparse(s.targets[0])]
            if isinstance(s.value, ast.Constant) and isinstance(s.value.value, bool):
                b_, t_, ty_ = [], 'true' if s.value.value else 'false', 'Bool'
            else:
                b_, t_, ty_ = self.expr(s.value, env)
            if ty_ != ev['type']:
                raise Unsupported('%s is assigned a %s' % (ast.unparse(s.targets[0]), ty_))
            body = pad + 'let trace := trace ++ [Event.%s %s]\n' % (ev['name'], t_) + self.block(rest, env, ret, self_ty, indent)
            return self.wrap(b_, body, pad)
        if isinstance(s, ast.Return) and s.value is not None and ast.unparse(s.value) in self.tr.get('return_events', {}):
            if self.in_loop:
                raise Unsupported('return inside a loop')
            return pad + 'let trace := trace ++ [Event.%s]\n' % self.tr['return_events'][ast.unparse(s.value)] + \
                pad + 'some trace'
        if isinstance(s, ast.Raise) and isinstance(s.exc, ast.Call) and isinstance(s.exc.func, ast.Name) \
                and s.exc.func.id in self.tr.get('raise_events', {}):
            # raise X(...): the last event of the trace
            if self.in_loop:
                raise Unsupported('raise inside a loop')
            return pad + 'let trace := trace ++ [Event.%s]\n' % self.tr['raise_events'][s.exc.func.id] + pad + 'some trace'
        if isinstance(s, ast.Assign) and len(s.targets) == 1 and isinstance(s.targets[0], ast.Subscript) \
                and ast.unparse(s.targets[0]) in self.tr.get('subscript_events', {}):
            # x[key] = ... on a declared entry: an event (the value is not looked at)
            return pad + 'let trace := trace ++ [Event.%s]\n' % self.tr['subscript_events'][ast.unparse(s.targets[0])] + \
                self.block(rest, env, ret, self_ty, indent)
        if isinstance(s, ast.Assign) and len(s.targets) == 1 and isinstance(s.targets[0], ast.Subscript) \
                and isinstance(s.targets[0].value, ast.Name) and s.targets[0].value.id in self.tr.get('keyed_store_events', {}) \
                and isinstance(s.targets[0].slice, ast.Constant) and isinstance(s.targets[0].slice.value, str):
            # d["key"] = e on a declared dict: an event with the key and the value
            b_, t_, ty_ = self.value_expr(s.value, env)
            if ty_ != 'V':
                raise Unsupported('%s stores a %s' % (ast.unparse(s.targets[0]), ty_))
            body = pad + 'let trace := trace ++ [Event.%s %s %s]\n' % (
                self.tr['keyed_store_events'][s.targets[0].value.id], lean_str(s.targets[0].slice.value), t_) + \
                self.block(rest, env, ret, self_ty, indent)
            return self.wrap(b_, body, pad)
        if isinstance(s, ast.Raise) and isinstance(s.exc, ast.Name) and s.exc.id in self.tr.get('raise_events', {}):
            if self.in_loop:                                  # raise <declared local>
                raise Unsupported('raise inside a loop')
            return pad + 'let trace := trace ++ [Event.%s]\n' % self.tr['raise_events'][s.exc.id] + pad + 'some trace'
        if isinstance(s, ast.Expr) and isinstance(s.value, ast.Call) and isinstance(s.value.func, ast.Attribute) \
                and s.value.func.attr == 'extend' and isinstance(s.value.func.value, ast.Name) \
                and env.get(s.value.func.value.id, '').startswith('List ') and len(s.value.args) == 1 and not s.value.keywords:
            # xs.extend(ys) on a local list
            x_ = s.value.func.value.id
            b_, t_, ty_ = self.expr(s.value.args[0], env)
            if ty_ != env[x_]:
                raise Unsupported('%s.extend with a %s' % (x_, ty_))
            if self.in_loop:
                raise Unsupported('extend inside a loop')
            return self.wrap(b_, pad + 'let %s := %s ++ %s\n' % (lean_name(x_), lean_name(x_), t_) +
                             self.block(rest, env, ret, self_ty, indent), pad)
        if isinstance(s, ast.With):
            # with <declared lock>: held to the end of the function (nothing may follow the statement)
            if len(s.items) != 1 or s.items[0].optional_vars is not None \
                    or ast.unparse(s.items[0].context_expr) not in self.tr.get('lock_events', {}):
                raise Unsupported('with %s' % ', '.join(ast.unparse(i_) for i_ in s.items))
            rel_ = self.tr.get('lock_release_events', {}).get(ast.unparse(s.items[0].context_expr))
            if rel_ and not self.in_loop:
                # a region inside the function: no statement of it may leave the function; released at its end
                if any(isinstance(n_, (ast.Return, ast.Raise, ast.Break, ast.Continue)) for x_ in s.body for n_ in ast.walk(x_)):
                    raise Unsupported('a return / raise inside the region of %s' % ast.unparse(s.items[0].context_expr))
                marker = ast.Expr(value=ast.Call(func=ast.Name(id='__release__' + rel_, ctx=ast.Load()), args=[], keywords=[]))
                return pad + 'let trace := trace ++ [Event.%s]\n' % self.tr['lock_events'][ast.unparse(s.items[0].context_expr)] + \
                    self.block(list(s.body) + [marker] + rest, env, ret, self_ty, indent)
            if rest or self.in_loop:
                raise Unsupported('statements after the region of %s' % ast.unparse(s.items[0].context_expr))
            return pad + 'let trace := trace ++ [Event.%s]\n' % self.tr['lock_events'][ast.unparse(s.items[0].context_expr)] + \
                self.block(list(s.body), env, ret, self_ty, indent)
        if isinstance(s, ast.If) and self.reads_ignored(s.test):
            raise Unsupported('an `if` that tests an ignored name contains a kept statement')
        if isinstance(s, (ast.Continue, ast.Break)):
            raise Unsupported('%s in a trace unit' % type(s).__name__.lower())
        if isinstance(s, ast.Pass):
            return self.block(rest, env, ret, self_ty, indent)
        if isinstance(s, ast.Expr) and isinstance(s.value, ast.Call) and isinstance(s.value.func, ast.Name) \
                and s.value.func.id.startswith('__release__'):
            return pad + 'let trace := trace ++ [Event.%s]\n' % s.value.func.id[len('__release__'):] + \
                self.block(rest, env, ret, self_ty, indent)
        if isinstance(s, ast.For) and ast.unparse(s.iter) in self.tr.get('loop_events', {}):
            # a declared loop as one event: its body is not looked at, and may not leave the loop or the function
            if s.orelse or any(isinstance(n_, (ast.Return, ast.Raise, ast.Break)) for x_ in s.body for n_ in ast.walk(x_)):
                raise Unsupported('the declared loop over %s leaves the loop' % ast.unparse(s.iter))
            return pad + 'let trace := trace ++ [Event.%s]\n' % self.tr['loop_events'][ast.unparse(s.iter)] + \
                self.block(rest, env, ret, self_ty, indent)
        if isinstance(s, ast.Try):
            if self.tr.get('refuse_try'):
                raise Unsupported('a try statement in a unit declared to have none')
            tf = self.tr.get('try_finally')
            if tf and s.finalbody and not s.handlers and not s.orelse:
                # try: <one assigned input> finally: <f>: whether the body raises is an input; <f> runs in both
                # cases, then the exception propagates (a final event) or the function goes on
                if len(s.body) != 1 or not self.is_assigned_input(s.body[0]) or self.in_loop:
                    raise Unsupported('try ... finally whose body is not one declared call')
                go_on = self.block(list(s.body) + list(s.finalbody) + rest, env, ret, self_ty, indent + 1)
                saved_fall = self.fall
                self.fall = 'some (trace ++ [Event.%s])' % tf['event']
                # the assigned input is the first event; its targets stay unbound
                ev_ = self.tr.get('assigned_input_events', {}).get(ast.unparse(s.body[0].value.func))
                prop = ('  ' * (indent + 1) + 'let trace := trace ++ [Event.%s]\n' % ev_ if ev_ else '') + \
                    self.block(list(s.finalbody), env, ret, self_ty, indent + 1)
                self.fall = saved_fall
                return pad + 'if %s then\n%s\n%selse\n%s' % (lean_name(tf['param']), prop, pad, go_on)
            if s.finalbody or s.orelse:
                raise Unsupported('try with else / finally')
            th = self.tr.get('try_handlers', {})
            if th:
                is_event = lambda x_: isinstance(x_, ast.Expr) and isinstance(x_.value, ast.Call) \
                    and ast.unparse(x_.value.func) in self.tr['events']
                kept_ = [x_ for x_ in s.body if self.is_assigned_input(x_) or is_event(x_) or not self.droppable(x_)]
                if len(kept_) > 1 or any(not (self.is_assigned_input(x_) or is_event(x_)) for x_ in kept_):
                    raise Unsupported('a try with a declared handler has a body of more than ignored calls and one declared call')
                # an event call that raises has happened; the targets of an assigned input stay unbound
                before = [x_ for x_ in kept_ if is_event(x_)]
                # declared handlers: whether the body raises that exception is an input; the handler must end the function
                if len(s.handlers) != 1 or not isinstance(s.handlers[0].type, ast.Name) or s.handlers[0].type.id not in th:
                    raise Unsupported('try with handlers other than the declared %s' % sorted(th))
                h = s.handlers[0]
                if h.name:
                    self.tr['ignore_locals'].add(h.name)
                # a handler that does not end the function goes on with the statements after the try
                tail = [] if isinstance(h.body[-1], (ast.Raise, ast.Return)) else rest
                if tail and self.in_loop:
                    raise Unsupported('a handler inside a loop that does not end the function')
                return pad + 'if %s then\n%s\n%selse\n%s' % (
                    lean_name(th[h.type.id]), self.block(before + list(h.body) + tail, env, ret, self_ty, indent + 1), pad,
                    self.block(list(s.body) + rest, env, ret, self_ty, indent + 1))
            # only the try body: an exception is `none` in any case
            return self.block(list(s.body) + rest, env, ret, self_ty, indent)
        if isinstance(s, ast.AugAssign) and isinstance(s.target, ast.Name) and isinstance(s.op, (ast.Sub, ast.Add, ast.Mult)):
            new = ast.Assign(targets=[s.target], value=ast.BinOp(left=ast.Name(id=s.target.id, ctx=ast.Load()),
                                                                   op=s.op, right=s.value))
            return self.block([new] + rest, env, ret, self_ty, indent)
        if isinstance(s, ast.Expr) and isinstance(s.value, ast.Call):
            fn = ast.unparse(s.value.func)
            ev = self.tr['events'].get(fn)
            if ev is not None:
                given = ([s.value.func.value] if ev.get('receiver') else []) + list(s.value.args)
                if ev.get('keep') is not None:
                    if s.value.keywords or max(ev['keep'] + [-1]) >= len(given):
                        raise Unsupported('event %s: arguments' % fn)
                    given = [given[k_] for k_ in ev['keep']]
                if s.value.keywords or len(given) != len(ev['args']):
                    raise Unsupported('event %s: arguments' % fn)
                binds, terms = [], []
                for a, want in zip(given, ev['args']):
                    if want == 'Bool' and isinstance(a, ast.Constant) and isinstance(a.value, bool):
                        b_, t_, ty_ = [], 'true' if a.value else 'false', 'Bool'
                    else:
                        b_, t_, ty_ = self.expr(a, env)
                    if ty_ != want:
                        raise Unsupported('event %s: argument of type %s, declared %s' % (fn, ty_, want))
                    binds += b_
                    terms.append(t_)
                body = pad + 'let trace := trace ++ [Event.%s %s]\n' % (ev['name'], ' '.join(terms)) + \
                    self.block(rest, env, ret, self_ty, indent)
                return self.wrap(binds, body, pad)
            sub = self.tr['units'].get(fn)
            if sub is not None:                               # another trace unit, spliced in
                if s.value.keywords or len(s.value.args) != len(sub['all_types']):
                    raise Unsupported('%s: arguments' % fn)
                b_, terms, types = [], [], []
                for a_, want_ in zip(s.value.args, sub['all_types']):
                    if want_ == 'Opaque':
                        continue                              # not looked at by the callee's translation
                    x_, t_, ty_ = self.expr(a_, env)
                    b_ += x_
                    terms.append(t_)
                    types.append(ty_)
                if types != sub['types']:
                    raise Unsupported('%s called with %s' % (fn, types))
                if self.tr.get('raise_events') and (rest or self.in_loop):
                    raise Unsupported('%s may end in a raise event and is not the last statement' % fn)
                n = self.fresh()
                body = pad + 'let trace := trace ++ %s\n' % n + self.block(rest, env, ret, self_ty, indent)
                return self.wrap(b_ + [(n, '(%s %s)' % (sub['lean'], ' '.join(sub['extra'] + terms)))], body, pad)
            raise Unsupported('call %s in a trace unit is neither an event nor ignored' % fn)
        if isinstance(s, ast.For):
            if s.orelse or not isinstance(s.target, ast.Name):
                raise Unsupported('for ... else / tuple target')
            b, t, ty = self.expr(s.iter, env)
            if not ty.startswith('List '):
                raise Unsupported('for over a %s' % ty)
            x = s.target.id
            assigned = []
            for st in s.body:
                for n_ in ast.walk(st):
                    if isinstance(n_, (ast.Assign, ast.AugAssign)):
                        for tg in (n_.targets if isinstance(n_, ast.Assign) else [n_.target]):
                            if isinstance(tg, ast.Name) and tg.id not in self.tr['ignore_locals'] and tg.id not in assigned:
                                assigned.append(tg.id)
            for a in assigned:
                if a not in env or a == x:
                    raise Unsupported('loop-carried local %s is not defined before the loop' % a)
            state = [lean_name(a) for a in assigned] + ['trace']
            tup = '(' + ', '.join(state) + ')' if len(state) > 1 else state[0]
            saved = (self.fall, self.in_loop)
            self.fall, self.in_loop = 'some %s' % tup, True
            inner = self.block(list(s.body), dict(env, **{x: ty[5:]}), ret, self_ty, indent + 2)
            self.fall, self.in_loop = saved
            after = self.block(rest, env, ret, self_ty, indent)
            term = pad + '(forEachM %s %s (fun st %s =>\n%s  let %s := st\n%s)).bind fun st =>\n%slet %s := st\n%s' % (
                t, tup, lean_name(x), pad + '  ', tup, inner, pad, tup, after)
            return self.wrap(b, term, pad)
        return None

    def block(self, stmts, env, ret, self_ty, indent):
        """statement list -> one Lean term of type `Option ret`"""
        pad = '  ' * indent
        if not stmts:
            if self.fall is not None:
                return pad + self.fall
            if self_ty is not None:
                return pad + 'some self'
            if ret == 'V':
                return pad + 'some V.none'       # falling off the end returns None
            raise Unsupported('a %s-returning function can fall off its end' % ret)
        s, rest = stmts[0], stmts[1:]
        if isinstance(s, ast.Expr) and isinstance(s.value, ast.Constant) and isinstance(s.value.value, str):
            return self.block(rest, env, ret, self_ty, indent)
        if isinstance(s, ast.Pass):
            return self.block(rest, env, ret, self_ty, indent)
        if self.tr:
            r_ = self.trace_stmt(s, rest, env, ret, self_ty, indent)
            if r_ is not None:
                return r_
        if isinstance(s, ast.Return):
            if self.tr and (self.in_loop or s.value is not None):
                raise Unsupported('return inside a loop / with a value in a trace unit')
            if s.value is None:
                return self.block([], env, ret, self_ty, indent)
            if ret == 'Bool' and isinstance(s.value, ast.Constant) and isinstance(s.value.value, bool):
                b, t, ty = [], 'true' if s.value.value else 'false', 'Bool'
            else:
                b, t, ty = self.expr(s.value, env)
            if ty != ret:
                raise Unsupported('returns a %s, spec says %s' % (ty, ret))
            return self.wrap(b, pad + 'some %s' % t, pad)
        if isinstance(s, ast.Raise):
            return pad + 'none'                          # an exception: the rest is not executed
        if isinstance(s, ast.Expr) and isinstance(s.value, ast.Call) and isinstance(s.value.func, ast.Attribute) \
                and s.value.func.attr == 'append' and self_ty is not None:
            # self.<list field>.append(e)
            tgt = s.value.func.value
            if not (isinstance(tgt, ast.Attribute) and isinstance(tgt.value, ast.Name) and tgt.value.id == 'self') \
                    or len(s.value.args) != 1 or s.value.keywords:
                raise Unsupported('append on %s' % ast.unparse(tgt))
            f = self.field_of(self_ty, tgt.attr)
            fty = self.ftype(self_ty, f) if f else None
            if not f or not fty.startswith('List '):
                raise Unsupported('append on self.%s' % tgt.attr)
            b, t, ty = self.expr(s.value.args[0], env)
            elem = fty[5:]
            if ty == elem:
                item = t
            elif elem in self.unions and ty in self.unions[elem]:
                item = '(%s.%s %s)' % (cls_name(elem), cls_name(ty), t)
            else:
                raise Unsupported('append of a %s to a list of %s' % (ty, elem))
            body = pad + 'let self := { self with %s := self.%s ++ [%s] }\n' % (lean_name(f), lean_name(f), item) + \
                self.block(rest, env, ret, self_ty, indent)
            return self.wrap(b, body, pad)
        if isinstance(s, ast.For):
            if s.orelse or not isinstance(s.target, ast.Name):
                raise Unsupported('for ... else / tuple target')
            b, t, ty = self.expr(s.iter, env)
            if ty.startswith('OptList '):
                n = self.fresh()
                b, t, ty = b + [(n, t)], n, 'List ' + ty[8:]     # iterating None raises
            if not ty.startswith('List '):
                raise Unsupported('for over a %s' % ty)
            x = s.target.id
            env2 = dict(env, **{x: ty[5:]})
            body = s.body
            # shape 1: `for x in xs: if c: return e` -- the first match decides, otherwise go on
            if len(body) == 1 and isinstance(body[0], ast.If) and not body[0].orelse and len(body[0].body) == 1 \
                    and isinstance(body[0].body[0], ast.Return):
                c = self.opt_term(body[0].test, env2)
                found = self.block(body[0].body, env2, ret, self_ty, indent + 2)
                after = self.block(rest, env, ret, self_ty, indent + 2)
                term = pad + 'forFirst %s (fun %s => %s)\n%s  (fun %s =>\n%s)\n%s  (\n%s)' % (
                    t, lean_name(x), c, pad, lean_name(x), found, pad, after)
                return self.wrap(b, term, pad)
            # shape 2: a body without `return`, in a method that mutates self
            if self_ty is not None and not any(isinstance(n_, ast.Return) for st in body for n_ in ast.walk(st)):
                inner = self.block(list(body), env2, ret, self_ty, indent + 2)
                after = self.block(rest, env, ret, self_ty, indent + 1)
                term = pad + '(forEachM %s self (fun self %s =>\n%s)).bind fun self =>\n%s' % (
                    t, lean_name(x), inner, after)
                return self.wrap(b, term, pad)
            raise Unsupported('for loop of this shape')
        if isinstance(s, ast.AugAssign) and isinstance(s.target, ast.Name) and isinstance(s.op, (ast.Sub, ast.Add, ast.Mult)):
            new = ast.Assign(targets=[s.target], value=ast.BinOp(left=ast.Name(id=s.target.id, ctx=ast.Load()),
                                                                   op=s.op, right=s.value))
            return self.block([new] + rest, env, ret, self_ty, indent)
        if isinstance(s, ast.Expr) and isinstance(s.value, ast.Call) and isinstance(s.value.func, ast.Attribute) \
                and s.value.func.attr == 'append' and isinstance(s.value.func.value, ast.Name) \
                and env.get(s.value.func.value.id, '').startswith('List ') and len(s.value.args) == 1 \
                and not s.value.keywords and not self.in_loop and not self.tr:
            # xs.append(e) on a local list
            x_ = s.value.func.value.id
            b_, t_, ty_ = self.expr(s.value.args[0], env)
            if 'List ' + ty_ != env[x_]:
                raise Unsupported('%s.append of a %s' % (x_, ty_))
            return self.wrap(b_, pad + 'let %s := %s ++ [%s]\n' % (lean_name(x_), lean_name(x_), t_) +
                             self.block(rest, env, ret, self_ty, indent), pad)
        if isinstance(s, ast.Assert):
            b, t = self.cond(s.test, env)
            body = pad + 'if %s then\n%s\n%selse\n%s  none' % (t, self.block(rest, env, ret, self_ty, indent + 1), pad, pad)
            return self.wrap(b, body, pad)
        if isinstance(s, ast.Assign):
            if len(s.targets) != 1:
                raise Unsupported('multiple assignment')
            tg = s.targets[0]
            b, t, ty = self.expr(s.value, env)
            if isinstance(tg, ast.Name):
                body = pad + 'let %s := %s\n' % (lean_name(tg.id), t) + \
                    self.block(rest, dict(env, **{tg.id: ty}), ret, self_ty, indent)
                return self.wrap(b, body, pad)
            if isinstance(tg, ast.Attribute) and isinstance(tg.value, ast.Name) and tg.value.id == 'self' \
                    and self_ty is not None:
                f_ = self.field_of(self_ty, tg.attr)
                if f_ is not None and self.ftype(self_ty, f_) == 'Bool' and isinstance(s.value, ast.Constant) \
                        and isinstance(s.value.value, bool):
                    b, t, ty = [], 'true' if s.value.value else 'false', 'Bool'
                if f_ is None or not (ty == self.ftype(self_ty, f_) or (ty == 'List ?' and self.ftype(self_ty, f_).startswith('List '))):
                    raise Unsupported('assignment to self.%s' % tg.attr)
                body = pad + 'let self := { self with %s := %s }\n' % (lean_name(f_), t) + \
                    self.block(rest, env, ret, self_ty, indent)
                return self.wrap(b, body, pad)
            raise Unsupported('assignment target %s' % ast.unparse(tg))
        if isinstance(s, ast.If):
            b, t = self.cond(s.test, env)
            a = self.block(list(s.body) + rest, env, ret, self_ty, indent + 1)
            c = self.block(list(s.orelse) + rest, env, ret, self_ty, indent + 1)
            return self.wrap(b, pad + 'if %s then\n%s\n%selse\n%s' % (t, a, pad, c), pad)
        raise Unsupported('statement %s' % type(s).__name__)


def find_def(tree, cls, name):
    body = tree.body
    if cls:
        for n in tree.body:
            if isinstance(n, ast.ClassDef) and n.name == cls:
                body = n.body
                break
        else:
            raise Unsupported('class %s not found' % cls)
    for n in body:
        if isinstance(n, ast.FunctionDef) and n.name == name:
            return n
    raise Unsupported('%s%s not found' % (cls + '.' if cls else '', name))


def class_def(tree, cls):
    for n in tree.body:
        if isinstance(n, ast.ClassDef) and n.name == cls:
            return n
    raise Unsupported('class %s not found' % cls)


def base_of(tree, cls):
    bases = [b.id for b in class_def(tree, cls).bases if isinstance(b, ast.Name) and b.id != 'object']
    if len(bases) > 1 or len(bases) != len([b for b in class_def(tree, cls).bases
                                            if not (isinstance(b, ast.Name) and b.id == 'object')]):
        raise Unsupported('bases of %s' % cls)
    return bases[0] if bases else None


def record_fields(tree, cls):
    """(fields, ctor): the fields in the order they are stored and, for each parameter of __init__ in source
    order, the field it ends up in.  __init__ may only store a parameter `p` in `self.p` or `self._p`, and
    hand parameters on to the base class's __init__ (`super(C, self).__init__(a, b)`)."""
    init = find_def(tree, cls, '__init__')
    params = [a.arg for a in init.args.args[1:]]
    fields, where = [], {}
    for s in init.body:
        if isinstance(s, ast.Expr) and isinstance(s.value, ast.Constant):
            continue
        if isinstance(s, ast.Assign) and len(s.targets) == 1 and isinstance(s.targets[0], ast.Attribute) \
                and isinstance(s.targets[0].value, ast.Name) and s.targets[0].value.id == 'self' \
                and isinstance(s.value, ast.Name):
            attr, p = s.targets[0].attr, s.value.id
            if p not in params or attr not in (p, '_' + p) or p in where or attr in fields:
                raise Unsupported('%s.__init__ does not store parameter %s in self.%s or self._%s' % (cls, p, p, p))
            fields.append(attr)
            where[p] = attr
            continue
        if isinstance(s, ast.Expr) and isinstance(s.value, ast.Call) and isinstance(s.value.func, ast.Attribute) \
                and s.value.func.attr == '__init__' and isinstance(s.value.func.value, ast.Call) \
                and isinstance(s.value.func.value.func, ast.Name) and s.value.func.value.func.id == 'super' \
                and not s.value.keywords and all(isinstance(a, ast.Name) for a in s.value.args):
            base = base_of(tree, cls)
            if base is None or fields:
                raise Unsupported('%s.__init__: super().__init__ must come first and needs a base class' % cls)
            bfields, bctor = record_fields(tree, base)
            given = [a.id for a in s.value.args]
            if len(given) != len(bctor) or any(g not in params or g in where for g in given):
                raise Unsupported('%s.__init__: arguments of super().__init__' % cls)
            for g, (_bp, bf) in zip(given, bctor):
                where[g] = bf
            fields += bfields
            continue
        raise Unsupported('%s.__init__ does more than store its parameters: %s' % (cls, ast.unparse(s)[:60]))
    for p in params:
        if p not in where:
            raise Unsupported('%s.__init__ does not store parameter %s in self.%s' % (cls, p, p))
    if len(set(lean_name(f) for f in fields)) != len(fields):
        raise Unsupported('%s: field names collide' % cls)
    return fields, [(p, where[p]) for p in params]


def method_def(tree, cls, name, declared):
    """the method `name` of `cls`, its own or inherited from a declared base; returns (class that defines it, def)"""
    c = cls
    while c is not None:
        for n in class_def(tree, c).body:
            if isinstance(n, ast.FunctionDef) and n.name == name:
                return c, n
        c = base_of(tree, c)
        if c is not None and c not in declared:
            raise Unsupported('%s.%s is inherited from the undeclared class %s' % (cls, name, c))
    raise Unsupported('%s.%s not found' % (cls, name))


def translate(spec, repo):
    trees = {}

    def tree(src):
        if src not in trees:
            trees[src] = ast.parse(open(os.path.join(repo, src)).read())
        return trees[src]
    records, ftypes, ctors, bases, rec_src = {}, {}, {}, {}, {}
    decl_order = []
    for v in spec.get('views', []):                     # objects of which only these attributes are read
        records[v['name']] = list(v['fields'])
        ftypes[v['name']] = dict(v['fields'])
        decl_order.append(v['name'])
    for r in spec.get('records', []):
        cls = r['class']
        rec_src[cls] = r['source']
        if 'fields' in r:                               # typed fields; __init__ is a unit of kind `init`
            records[cls] = list(r['fields'])
            ftypes[cls] = dict(r['fields'])
        else:
            records[cls], ctors[cls] = record_fields(tree(r['source']), cls)
        b = base_of(tree(r['source']), cls)
        if b is not None:
            bases[cls] = b
        decl_order.append(cls)
    for c, b in bases.items():
        if b not in records:
            raise Unsupported('base class %s of %s is not declared' % (b, c))
    unions = dict((u['name'], list(u['classes'])) for u in spec.get('unions', []))
    funcs = {}
    methods = {}
    for u in spec['units']:
        kind = u.get('kind', 'function')
        if kind == 'function':
            funcs[u['name']] = {'ret': u['returns'], 'params': list(u['params'].items())}
        elif kind == 'query':
            methods.setdefault((u['class'], u['name']), []).append(
                {'params': list(u['params'].items()), 'ret': u['returns'],
                 'lean': '%s_%s' % (cls_name(u['class']), u['name'].lstrip('_'))})
        elif kind == 'staticmethod':
            for inst in u['instances']:
                methods.setdefault(('static:' + u['class'], u['name']), []).append(
                    {'params': list(inst['params'].items()), 'ret': u['returns'],
                     'lean': '%s_%s_%s' % (cls_name(u['class']), u['name'].lstrip('_'), inst['suffix'])})
    for un in spec.get('unions', []):
        for d in un.get('dispatch', []):
            methods.setdefault((un['name'], d['method']), []).append(
                {'params': list(d['params'].items()), 'ret': d['returns'],
                 'lean': '%s_%s' % (cls_name(un['name']), d['method'].lstrip('_'))})
    ctx = {'ftypes': ftypes, 'ctors': ctors, 'unions': unions, 'methods': methods, 'bases': bases}
    out = ['/- GENERATED by tools/py2lean_fn.py — do not edit.  Sources: %s -/' %
           ', '.join(sorted({u['source'] for u in spec['units']})),
           'import RB.Util.PyVal', 'namespace %s' % spec['namespace'], 'open RB.Py', '']

    def emit_record(name):
        out.append('structure %s where' % cls_name(name))
        for f in records[name]:
            out.append('  %s : %s' % (lean_name(f), lean_ty(ftypes.get(name, {}).get(f, 'V'))))
        out.append('deriving Repr, DecidableEq')
        out.append('')

    def emit_union(un):
        out.append('/-- an object of one of the classes %s -/' % ', '.join(un['classes']))
        out.append('inductive %s where' % cls_name(un['name']))
        for c in un['classes']:
            out.append('  | %s (o : %s)' % (cls_name(c), cls_name(c)))
        out.append('deriving Repr, DecidableEq')
        out.append('')

    emitted = set()
    union_by_name = dict((u['name'], u) for u in spec.get('unions', []))

    def needs(name):
        return [t.split(' ')[-1] for t in ftypes.get(name, {}).values()]

    def emit(name):
        if name in emitted or name == 'V':
            return
        emitted.add(name)
        if name in union_by_name:
            for c in union_by_name[name]['classes']:
                emit(c)
            emit_union(union_by_name[name])
        elif name in records:
            for d in needs(name):
                emit(d)
            emit_record(name)
    for name in decl_order:
        emit(name)
    for un in spec.get('unions', []):
        emit(un['name'])
    events = {}
    if spec.get('events'):
        out.append('/-- the calls that are kept as events, in the order they happen -/')
        out.append('inductive Event where')
        for ev in spec['events']:
            if 'call' not in ev:                          # attribute / return events: only the constructor
                out.append('  | %s %s' % (ev['name'], ' '.join('(a%d : %s)' % (k, lean_ty_atom(t)) for k, t in enumerate(ev.get('args', [])))))
                continue
            events[ev['call']] = {'name': ev['name'], 'args': list(ev['args']), 'receiver': ev.get('receiver', False),
                                  'keep': ev.get('keep')}
            out.append('  | %s %s' % (ev['name'], ' '.join('(a%d : %s)' % (k, lean_ty_atom(t)) for k, t in enumerate(ev['args']))))
        out.append('deriving Repr, DecidableEq')
        out.append('')

    def unit_inputs(u):
        """declared readings of the environment: source text -> (term, type); those with a `param` become parameters"""
        table, params = {}, []
        for text, d in u.get('inputs', {}).items():
            if 'const' in d:
                # a module-level integer constant of another source file, read from the current source
                val = None
                for n_ in tree(d['const']['source']).body:
                    if isinstance(n_, ast.Assign) and len(n_.targets) == 1 and isinstance(n_.targets[0], ast.Name) \
                            and n_.targets[0].id == d['const']['name']:
                        v_ = n_.value
                        if isinstance(v_, ast.UnaryOp) and isinstance(v_.op, ast.USub) and isinstance(v_.operand, ast.Constant):
                            val = -v_.operand.value
                        elif isinstance(v_, ast.Constant):
                            val = v_.value
                if not isinstance(val, int) or isinstance(val, bool):
                    raise Unsupported('constant %s not found as an integer in %s' % (d['const']['name'], d['const']['source']))
                table[text] = ('(V.int %d)' % val if val >= 0 else '(V.int (-%d))' % -val, 'V')
            elif 'param' in d:
                table[text] = (lean_name(d['param']), d['type'])
                if (d['param'], d['type']) not in params:
                    params.append((d['param'], d['type']))
            else:
                table[text] = (d['term'], d['type'])
        return table, params
    trace_units = {}
    for u in spec['units']:
        if u.get('kind') == 'trace':
            _tbl, ip = unit_inputs(u)
            ip = list(ip)
            for decl in u.get('assigned_inputs', {}).values():
                ip += [(n_, ty_) for n_, ty_ in decl.items() if ty_ != 'Opaque' and n_ is not None]
            ip += [(p_, 'Bool') for p_ in u.get('try_handlers', {}).values()]
            if u.get('try_finally'):
                ip.append((u['try_finally']['param'], 'Bool'))
            trace_units[('self.' if u.get('class') else '') + u['name']] = {
                'lean': ('%s_%s' % (cls_name(u['class']), u['name'].lstrip('_'))) if u.get('class') else lean_name(u['name'].lstrip('_')),
                'types': [t for (_n, t) in u['params'].items() if t != 'Opaque'],
                'all_types': [t for (_n, t) in u['params'].items()],
                'extra': [lean_name(n_) for (n_, _t) in ip], 'extra_typed': ip}

    def signature(first, params):
        return ' '.join(first + ['(%s : %s)' % (lean_name(p_), lean_ty(t)) for p_, t in params.items()])

    for u in spec['units']:
        kind = u.get('kind', 'function')
        if kind == 'dispatch':
            # obj.m(args) on an object of a union: the class's own (or inherited) method
            un = union_by_name[u['union']]
            d = [x for x in un['dispatch'] if x['method'] == u['name']][0]
            lname = '%s_%s' % (cls_name(un['name']), u['name'].lstrip('_'))
            arms = []
            for c in un['classes']:
                owner, _fn = method_def(tree(rec_src[c]), c, u['name'], records)
                cand = [m for m in methods.get((owner, u['name']), []) if [t for (_n, t) in m['params']] == list(d['params'].values())]
                if not cand:
                    raise Unsupported('%s.%s is not translated at %s' % (owner, u['name'], list(d['params'].values())))
                recv = 'o'
                if owner != c:                           # inherited: the base part of the object
                    recv = '{ ' + ', '.join('%s := o.%s' % (lean_name(x), lean_name(x)) for x in records[owner]) + \
                        ' : %s }' % cls_name(owner)
                arms.append('  | .%s o => %s %s %s' % (cls_name(c), cand[0]['lean'], recv,
                                                      ' '.join(lean_name(p_) for p_ in d['params'])))
            out.append('def %s (obj : %s) %s : Option %s :=\n  match obj with\n%s\n' % (
                lname, cls_name(un['name']), signature([], d['params']), d['returns'], '\n'.join(arms)))
            continue
        fn = find_def(tree(u['source']), u.get('class'), u['name'])
        tr = Fn(spec, records, funcs, dict(ctx, cls=u.get('class')))
        got = [a.arg for a in fn.args.args]
        if kind == 'function':
            want = list(u['params'])
            if got != want:
                raise Unsupported('signature of %s is %s, spec says %s' % (u['name'], got, want))
            env = dict(u['params'])
            sig = ' '.join('(%s : %s)' % (lean_name(p), t) for p, t in u['params'].items())
            body = tr.block(fn.body, env, u['returns'], None, 1)
            out.append('def %s %s : Option %s :=\n%s\n' % (lean_name(u['name']), sig, u['returns'], body))
        elif kind == 'classmethod':
            want = ['cls'] + list(u['params'])
            if got != want:
                raise Unsupported('signature of %s.%s is %s, spec says %s' % (u['class'], u['name'], got, want))
            env = dict(u['params'])
            sig = ' '.join('(%s : %s)' % (lean_name(p), t) for p, t in u['params'].items())
            body = tr.block(fn.body, env, u['class'], None, 1)
            out.append('def %s_%s %s : Option %s :=\n%s\n' % (u['class'], u['name'].lstrip('_'), sig, u['class'], body))
        elif kind == 'method':
            want = ['self'] + list(u.get('params', {}))
            if got != want:
                raise Unsupported('signature of %s.%s is %s, spec says %s' % (u['class'], u['name'], got, want))
            env = dict(u.get('params', {}), self=u['class'])
            sig = ' '.join(['(self : %s)' % u['class']] + ['(%s : %s)' % (lean_name(p), t) for p, t in u.get('params', {}).items()])
            body = tr.block(fn.body, env, u['class'], u['class'], 1)
            out.append('def %s_%s %s : Option %s :=\n%s\n' % (u['class'], u['name'].lstrip('_'), sig, u['class'], body))
        elif kind == 'query':
            # a method that only reads self
            if any(isinstance(d_, ast.Name) and d_.id in ('staticmethod', 'classmethod') for d_ in fn.decorator_list):
                raise Unsupported('%s.%s is not an instance method' % (u['class'], u['name']))
            want = ['self'] + list(u['params'])
            if got != want:
                raise Unsupported('signature of %s.%s is %s, spec says %s' % (u['class'], u['name'], got, want))
            env = dict(u['params'], self=u['class'])
            body = tr.block(fn.body, env, u['returns'], None, 1)
            out.append('def %s_%s %s : Option %s :=\n%s\n' % (
                cls_name(u['class']), u['name'].lstrip('_'),
                signature(['(self : %s)' % cls_name(u['class'])], u['params']), u['returns'], body))
        elif kind == 'staticmethod':
            if not any(isinstance(d_, ast.Name) and d_.id == 'staticmethod' for d_ in fn.decorator_list):
                raise Unsupported('%s.%s is not a staticmethod' % (u['class'], u['name']))
            for inst in u['instances']:
                if got != list(inst['params']):
                    raise Unsupported('signature of %s.%s is %s, spec says %s' % (u['class'], u['name'], got, list(inst['params'])))
                tr = Fn(spec, records, funcs, dict(ctx, cls=u.get('class')))
                body = tr.block(fn.body, dict(inst['params']), u['returns'], None, 1)
                out.append('def %s_%s_%s %s : Option %s :=\n%s\n' % (
                    cls_name(u['class']), u['name'].lstrip('_'), inst['suffix'], signature([], inst['params']),
                    u['returns'], body))
        elif kind == 'init':
            # __init__ of a record with typed fields: the leading `self.f = e` assignments (every field exactly
            # once, nothing else before) build the object, the rest mutates it
            want = ['self'] + list(u['params'])
            if got != want:
                raise Unsupported('signature of %s.__init__ is %s, spec says %s' % (u['class'], got, want))
            cls = u['class']
            env = dict(u['params'])
            stmts = [s_ for s_ in fn.body if not (isinstance(s_, ast.Expr) and isinstance(s_.value, ast.Constant))]
            first, binds = {}, []
            k = 0
            while k < len(stmts) and len(first) < len(records[cls]):
                s_ = stmts[k]
                if not (isinstance(s_, ast.Assign) and len(s_.targets) == 1 and isinstance(s_.targets[0], ast.Attribute)
                        and isinstance(s_.targets[0].value, ast.Name) and s_.targets[0].value.id == 'self'):
                    raise Unsupported('%s.__init__ must first assign every field' % cls)
                f_ = tr.field_of(cls, s_.targets[0].attr)
                if f_ is None or f_ in first:
                    raise Unsupported('%s.__init__: field %s' % (cls, s_.targets[0].attr))
                b_, t_, ty_ = tr.expr(s_.value, env)
                want_ty = tr.ftype(cls, f_)
                if want_ty == 'Bool' and isinstance(s_.value, ast.Constant) and isinstance(s_.value.value, bool):
                    b_, t_, ty_ = [], 'true' if s_.value.value else 'false', 'Bool'
                if not (ty_ == want_ty or (ty_ == 'List ?' and want_ty.startswith('List '))):
                    raise Unsupported('%s.__init__: self.%s gets a %s' % (cls, f_, ty_))
                binds += b_
                first[f_] = t_
                k += 1
            if len(first) != len(records[cls]):
                raise Unsupported('%s.__init__ does not assign every field first' % cls)
            lit = '{ ' + ', '.join('%s := %s' % (lean_name(f_), first[f_]) for f_ in records[cls]) + ' : %s }' % cls_name(cls)
            body = tr.block(stmts[k:], dict(env, self=cls), cls, cls, 1)
            body = Fn.wrap(binds, '  let self : %s := %s\n%s' % (cls_name(cls), lit, body), '  ')
            out.append('def %s_init %s : Option %s :=\n%s\n' % (
                cls_name(cls), signature([], u['params']), cls_name(cls), body))
        elif kind == 'trace':
            want = (['self'] if u.get('class') else []) + list(u['params'])
            if got != want:
                raise Unsupported('signature of %s.%s is %s, spec says %s' % (u.get('class'), u['name'], got, want))
            own_key = ('self.' if u.get('class') else '') + u['name']
            table, iparams = unit_inputs(u)
            tr = Fn(spec, records, funcs, dict(ctx, cls=u.get('class'), inputs=table, trace={
                'events': events, 'ignore_locals': set(u.get('ignore_locals', [])),
                'ignore_calls': set(u.get('ignore_calls', [])), 'ignore_fields': set(u.get('ignore_fields', [])),
                'assigned_inputs': u.get('assigned_inputs', {}), 'attr_events': u.get('attr_events', {}),
                'return_events': u.get('return_events', {}), 'raise_events': u.get('raise_events', {}),
                'lock_events': u.get('lock_events', {}), 'try_handlers': u.get('try_handlers', {}),
                'assigned_input_events': u.get('assigned_input_events', {}),
                'try_finally': u.get('try_finally'), 'refuse_try': u.get('refuse_try', False),
                'subscript_events': u.get('subscript_events', {}), 'loop_events': u.get('loop_events', {}),
                'raising_inputs': u.get('raising_inputs', {}), 'keyed_store_events': u.get('keyed_store_events', {}),
                'lock_release_events': u.get('lock_release_events', {}),
                'units': dict((k_, v_) for k_, v_ in trace_units.items() if k_ != own_key)}))
            env = dict((p_, t) for p_, t in u['params'].items() if t != 'Opaque')
            for decl in u.get('assigned_inputs', {}).values():
                for n_, ty_ in decl.items():
                    if ty_ != 'Opaque' and n_ is not None:
                        iparams.append((n_, ty_))
                    elif n_ is not None:
                        tr.tr['ignore_locals'].add(n_)
            for p_ in u.get('try_handlers', {}).values():
                iparams.append((p_, 'Bool'))
            if u.get('try_finally'):
                iparams.append((u['try_finally']['param'], 'Bool'))
            for d_ in u.get('raising_inputs', {}).values():
                iparams.append((d_['param'], 'Bool'))
            for n_ in ast.walk(fn):                      # the inputs of the trace units it calls are its inputs too
                if isinstance(n_, ast.Call) and ast.unparse(n_.func) in trace_units and ast.unparse(n_.func) != own_key \
                        and ast.unparse(n_.func) not in u.get('assigned_inputs', {}) \
                        and ast.unparse(n_) not in u.get('return_events', {}):
                    for pt in trace_units[ast.unparse(n_.func)]['extra_typed']:
                        if pt not in iparams:
                            iparams.append(pt)
            tr.fall = 'some trace'
            body = tr.block(fn.body, env, 'List Event', None, 1)
            sig = ' '.join(['(%s : %s)' % (lean_name(n_), lean_ty(t)) for (n_, t) in iparams] +
                           ['(%s : %s)' % (lean_name(p_), lean_ty(t)) for p_, t in u['params'].items() if t != 'Opaque'])
            out.append('/-- the events of `%s%s` (%s) -/' % (
                (u['class'] + '.') if u.get('class') else '', u['name'], 'whether the body of its `try` raises %s is an input' % ' / '.join(u['try_handlers'])
                if u.get('try_handlers') else 'whether the body of its `try ... finally` raises is an input'
                if u.get('try_finally') else 'of a `try` statement only the body is translated'))
            out.append('def %s %s : Option (List Event) :=\n  let trace : List Event := []\n%s\n' % (
                ('%s_%s' % (cls_name(u['class']), u['name'].lstrip('_'))) if u.get('class') else lean_name(u['name'].lstrip('_')),
                sig, body))
        elif kind == 'call_arg':
            # the n-th argument of the one call of `call` inside the function, as a function of the inputs
            table, iparams = unit_inputs(u)
            hits = [n_ for n_ in ast.walk(fn) if isinstance(n_, ast.Call) and ast.unparse(n_.func) == u['call']]
            if len(hits) != 1 or hits[0].keywords or len(hits[0].args) <= u['arg']:
                raise Unsupported('%s: expected exactly one call of %s with argument %d' % (u['name'], u['call'], u['arg']))
            tr = Fn(spec, records, funcs, dict(ctx, cls=u.get('class'), inputs=table))
            b_, t_, ty_ = tr.expr(hits[0].args[u['arg']], {})
            if ty_ != u['returns']:
                raise Unsupported('%s: the argument is a %s, spec says %s' % (u['lean_name'], ty_, u['returns']))
            sig = ' '.join('(%s : %s)' % (lean_name(n_), lean_ty(t)) for (n_, t) in iparams)
            out.append('/-- argument %d of `%s(...)` in `%s%s` -/' % (
                u['arg'], u['call'], (u['class'] + '.') if u.get('class') else '', u['name']))
            out.append('def %s %s : Option %s :=\n%s\n' % (u['lean_name'], sig, lean_ty_atom(u['returns']),
                                                           Fn.wrap(b_, '  some %s' % t_, '  ')))
        elif kind == 'value':
            # a function or method that computes a value from declared inputs (readings of self, of other objects and
            # of calls, by their source text) and its non-opaque parameters
            want = (['self'] if u.get('class') else []) + list(u['params'])
            if got != want:
                raise Unsupported('signature of %s is %s, spec says %s' % (u['name'], got, want))
            table, iparams = unit_inputs(u)
            tr = Fn(spec, records, funcs, dict(ctx, cls=None, inputs=table))
            env = dict((p_, t) for p_, t in u['params'].items() if t != 'Opaque')
            body = tr.block(fn.body, env, u['returns'], None, 1)
            sig = ' '.join(['(%s : %s)' % (lean_name(n_), lean_ty(t)) for (n_, t) in iparams] +
                           ['(%s : %s)' % (lean_name(p_), lean_ty(t)) for p_, t in u['params'].items() if t != 'Opaque'])
            out.append('def %s %s : Option %s :=\n%s\n' % (
                ('%s_%s' % (cls_name(u['class']), u['name'].lstrip('_'))) if u.get('class') else lean_name(u['name'].lstrip('_')),
                sig, lean_ty_atom(u['returns']), body))
        elif kind == 'retry_loop':
            # `<state> = <int>`...; `while True: try: <one call>; return ... except A: ... except (B, C) as e: ...`:
            # a function of what the successive calls do (`outcome k`: which handler's class is raised, "" = returns,
            # and the declared readings of the exception).  A handler either returns or falls off its end, which
            # starts the next iteration with the current state.  `fuel` bounds the number of iterations (`none`).
            want = (['self'] if u.get('class') else []) + list(u['params'])
            if got != want:
                raise Unsupported('signature of %s is %s, spec says %s' % (u['name'], got, want))
            stmts = [s_ for s_ in fn.body if not (isinstance(s_, ast.Expr) and isinstance(s_.value, ast.Constant))]
            state = []
            while stmts and isinstance(stmts[0], ast.Assign) and len(stmts[0].targets) == 1 \
                    and isinstance(stmts[0].targets[0], ast.Name) and isinstance(stmts[0].value, ast.Constant) \
                    and isinstance(stmts[0].value.value, int) and not isinstance(stmts[0].value.value, bool):
                state.append((stmts[0].targets[0].id, stmts[0].value.value))
                stmts = stmts[1:]
            if len(stmts) != 1 or not isinstance(stmts[0], ast.While) or stmts[0].orelse \
                    or not (isinstance(stmts[0].test, ast.Constant) and stmts[0].test.value is True) \
                    or len(stmts[0].body) != 1 or not isinstance(stmts[0].body[0], ast.Try):
                raise Unsupported('%s is not `while True: try: ...`' % u['name'])
            t_ = stmts[0].body[0]
            if t_.orelse or t_.finalbody or not t_.body or not (isinstance(t_.body[0], ast.Assign)
                                                                and ast.unparse(t_.body[0].value.func) == u['attempt']):
                raise Unsupported('%s: the try does not start with %s' % (u['name'], u['attempt']))
            fields = [(d_['field'], d_['type']) for d_ in u.get('attempt_inputs', {}).values()]
            table = dict((text, ('(outcome k).%s' % d_['field'], d_['type'])) for text, d_ in u.get('attempt_inputs', {}).items())
            lname = ('%s_%s' % (cls_name(u['class']), u['name'].lstrip('_'))) if u.get('class') else lean_name(u['name'].lstrip('_'))
            tr = Fn(spec, records, funcs, dict(ctx, cls=None, inputs=table, trace={
                'events': events, 'ignore_locals': set(u.get('ignore_locals', [])) | {t_.body[0].targets[0].id},
                'ignore_calls': set(u.get('ignore_calls', [])), 'ignore_fields': set(),
                'return_events': u.get('return_events', {}), 'units': {}}))
            env = dict((n_, 'V') for n_, _v in state)
            names = ' '.join(lean_name(n_) for n_, _v in state)
            tr.fall = '%s_loop outcome fuel (k + 1) %s trace' % (lname, names)
            arms = [('', tr.block(list(t_.body[1:]), env, 'List Event', None, 3))]
            for h in t_.handlers:
                cls_ = [h.type.id] if isinstance(h.type, ast.Name) else \
                    [x_.id for x_ in h.type.elts] if isinstance(h.type, ast.Tuple) and all(isinstance(x_, ast.Name) for x_ in h.type.elts) \
                    else None
                if not cls_:
                    raise Unsupported('%s: handler %s' % (u['name'], ast.unparse(h.type) if h.type else 'of everything'))
                if h.name:
                    tr.tr['ignore_locals'].add(h.name)
                arms.append(('|'.join(cls_), tr.block(list(h.body), env, 'List Event', None, 3)))
            out.append('/-- what one call of `%s` does: the handler clause that catches what it raises ("" = it returns), and\n'
                       'what that handler reads of the exception -/' % u['attempt'])
            out.append('structure Attempt where\n  raised : String\n%sderiving Repr, DecidableEq\n' % ''.join(
                '  %s : %s\n' % (f_, lean_ty(ty_)) for f_, ty_ in fields))
            chain = '      none'
            for key_, body_ in reversed(arms):
                chain = '    if (outcome k).raised = %s then\n%s\n    else\n%s' % (json.dumps(key_), body_, chain)
            out.append('/-- the loop of `%s`: iteration `k`, the state, the events so far; a handler that neither returns nor raises\n'
                       'starts the next iteration; an exception no handler names propagates (`none`), as does running out of `fuel` -/' % u['name'])
            out.append('def %s_loop (outcome : Nat → Attempt) : Nat → Nat → %s → List Event → Option (List Event)\n'
                       '  | 0, _, %s, _ => none\n  | fuel + 1, k, %s, trace =>\n    let trace := trace ++ [Event.%s]\n%s\n' % (
                           lname, ' → '.join('V' for _s in state), ', '.join('_' for _s in state), ', '.join(lean_name(n_) for n_, _v in state),
                           u['attempt_event'], chain))
            out.append('def %s (outcome : Nat → Attempt) (fuel : Nat) : Option (List Event) :=\n  %s_loop outcome fuel 0 %s []\n' % (
                lname, lname, ' '.join('(V.int %d)' % v_ for _n, v_ in state)))
        elif kind == 'exit_map':
            # a function whose body is one `try`: what it returns when the body ends normally (as a function of the
            # declared inputs) and when the body raises an exception of a class a handler names.  A handler is
            # `<statements without return / raise>; return <constant>`; handlers are tried in order, an exception no
            # handler names propagates (`none`).  Classes are compared by name (no subclass relation).
            stmts = [s_ for s_ in fn.body if not (isinstance(s_, ast.Expr) and isinstance(s_.value, ast.Constant))]
            if got or len(stmts) != 1 or not isinstance(stmts[0], ast.Try) or stmts[0].orelse or stmts[0].finalbody:
                raise Unsupported('%s is not a parameterless function of one try statement' % u['name'])
            consts = {}
            for n_ in tree(u['source']).body:
                if isinstance(n_, ast.Assign) and len(n_.targets) == 1 and isinstance(n_.targets[0], ast.Name) \
                        and isinstance(n_.value, ast.Constant) and isinstance(n_.value.value, int) \
                        and not isinstance(n_.value.value, bool):
                    consts[n_.targets[0].id] = n_.value.value
            table, iparams = unit_inputs(u)
            tr = Fn(spec, records, funcs, dict(ctx, cls=None, inputs=table, consts=consts))
            dropped = set(u.get('ignore_statements', []))
            body = tr.block([s_ for s_ in stmts[0].body if ast.unparse(s_) not in dropped], {}, 'V', None, 2)
            arms = []
            for h in stmts[0].handlers:
                if not isinstance(h.type, ast.Name):
                    raise Unsupported('handler for %s' % (ast.unparse(h.type) if h.type else 'everything'))
                last = h.body[-1]
                if not isinstance(last, ast.Return) or last.value is None or \
                        any(isinstance(n_, (ast.Return, ast.Raise)) for s_ in h.body[:-1] for n_ in ast.walk(s_)):
                    raise Unsupported('handler of %s is not `...; return <constant>`' % h.type.id)
                b_, t_, ty_ = tr.expr(last.value, {})
                if b_ or ty_ != 'V':
                    raise Unsupported('handler of %s returns %s' % (h.type.id, ast.unparse(last.value)))
                arms.append((h.type.id, t_))
            sig = ' '.join('(%s : %s)' % (lean_name(n_), lean_ty(t)) for (n_, t) in iparams)
            chain = '      none'
            for (exc, t_) in reversed(arms):
                chain = '      if exc = %s then some %s else\n%s' % (json.dumps(exc), t_, chain)
            out.append('/-- `%s`: the value returned when the body of its `try` ends normally (`raised = none`) or raises an\n'
                       'exception of the class named (`none`: the exception propagates) -/' % u['name'])
            out.append('def %s %s (raised : Option String) : Option V :=\n  match raised with\n  | Option.none =>\n%s\n'
                       '  | some exc =>\n%s\n' % (lean_name(u['name']), sig, body, chain))
            out.append('/-- the exception classes `%s` handles, in order -/' % u['name'])
            out.append('def %s_handled : List String := [%s]\n' % (lean_name(u['name']), ', '.join(json.dumps(a) for a, _t in arms)))
        else:
            raise Unsupported('unit kind %s' % kind)
    out.append('end %s' % spec['namespace'])
    return '\n'.join(out) + '\n'


def main():
    spec = json.load(open(sys.argv[1]))
    try:
        text = translate(spec, sys.argv[2])
    except Unsupported as e:
        print('UNSUPPORTED: %s' % e)
        sys.exit(3)
    with open(sys.argv[3], 'w') as f:
        f.write(text)


if __name__ == '__main__':
    main()
