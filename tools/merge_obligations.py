#!/usr/bin/env python3
"""tools/merge_obligations.py <lean/obligations/Cxx.json>: resolve a merge conflict in an obligations file:
theorems = theirs' list + ours-only entries minus base entries theirs removed; gen entries unioned by module;
extra_imports unioned; partial = theirs' (minus removed)"""
import json, subprocess, sys
f = sys.argv[1]
def stage(n):
    try:
        return json.loads(subprocess.run(['git', 'show', ':%d:%s' % (n, f)], stdout=subprocess.PIPE, check=True).stdout)
    except Exception:
        return {}
base, ours, theirs = stage(1), stage(2), stage(3)
def aslist(g):
    return [] if g is None else (g if isinstance(g, list) else [g])
def merge_list(key):
    b, o, t = base.get(key, []), ours.get(key, []), theirs.get(key, [])
    out = [x for x in t if not (x in b and x not in o)]          # drop what ours removed
    out += [x for x in o if x not in out and not (x in b and x not in t)]   # add ours-only, drop what theirs removed
    return out
out = dict(ours)
out.update({k: v for k, v in theirs.items() if k not in ('theorems', 'partial', 'gen', 'extra_imports')})
out['theorems'] = merge_list('theorems')
out['partial'] = merge_list('partial')
ei = merge_list('extra_imports')
if ei:
    out['extra_imports'] = ei
gens = {}
for g in aslist(ours.get('gen')) + aslist(theirs.get('gen')):
    gens.setdefault(g['module'], g)
if gens:
    out['gen'] = list(gens.values())
json.dump(out, open(f, 'w'), indent=1)
print('merged', f, len(out['theorems']), 'theorems', len(out.get('gen', [])), 'gen entries')
