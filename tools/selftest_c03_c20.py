#!/venv/bin/python
"""Mutation self-test for C03 / C20 (BUILDING.md "Self-test before you report", step 3).

usage: REBENCH_REPO=<repo worktree> tools/selftest_c03_c20.py [C03|C20] [mutation-id …]
Applies each hand-made mutation to the repo worktree, runs the quick check (proof step skipped:
the Lean side does not depend on the repo), reports exit code and first VIOLATION line, and
restores the file.  Never run against /repo itself.
"""
import os
import subprocess
import sys

REPO = os.environ.get('REBENCH_REPO')
VERIF = os.path.dirname(os.path.dirname(os.path.abspath(__file__)))
assert REPO and os.path.realpath(REPO) != '/repo', 'set REBENCH_REPO to a scratch worktree'

M = [
 # ---------------------------------------------------------------- C03
 ('C03', 'm01-input-from-variable', 'rebench/model/run_id.py',
  "'input': self.input_size_as_str,", "'input': self.var_value_as_str,"),
 ('C03', 'm02-invocation-off-by-one', 'rebench/model/run_id.py',
  "self.completed_invocations + 1).strip()", "self.completed_invocations).strip()"),
 ('C03', 'm03-location-no-fallback', 'rebench/model/benchmark_suite.py',
  'location = suite.get("location", executor.path)', 'location = suite.get("location")'),
 ('C03', 'm04-no-tilde-expansion-of-command', 'rebench/model/run_id.py',
  "        cmdline = expand_user(cmdline, True)\n        return cmdline", "        return cmdline"),
 ('C03', 'm05-env-inherited', 'rebench/subprocess_with_timeout.py',
  "stdin=stdin, stdout=self._stdout, stderr=self._stderr, env=self._env)",
  "stdin=stdin, stdout=self._stdout, stderr=self._stderr,\n                         env=dict(__import__('os').environ, **self._env))"),
 ('C03', 'm06-plan-continues-to-execute', 'rebench/executor.py',
  "            print(cmdline)\n            return True", "            print(cmdline)"),
 ('C03', 'm07-env-tilde-not-expanded', 'rebench/model/run_id.py',
  "            self._expandend_env[key] = expand_user(value, False)", "            pass"),
 ('C03', 'm08-warmup-from-iterations', 'rebench/model/run_id.py',
  "'warmup': self.benchmark.run_details.warmup}", "'warmup': self.benchmark.run_details.iterations}"),
 ('C03', 'm09-cwd-tilde-not-expanded', 'rebench/executor.py',
  "                location = os.path.expanduser(location)", "                pass"),
 ('C03', 'm10-colon-list-not-expanded', 'rebench/model/run_id.py',
  'if "~" in expanded and ":" in expanded:', 'if False:'),
 ('C03', 'm11-extra-args-before-command', 'rebench/model/run_id.py',
  '        cmdline += " " + self.benchmark.suite.command\n\n        if self.benchmark.extra_args:\n            cmdline += " " + str(self.benchmark.extra_args)',
  '        if self.benchmark.extra_args:\n            cmdline += " " + str(self.benchmark.extra_args)\n\n        cmdline += " " + self.benchmark.suite.command'),
 ('C03', 'm12-two-phase-again', 'rebench/model/run_id.py',
  "        cmdline = self._expand_vars(self._cmdline_template(),\n                                    self.completed_invocations + 1).strip()",
  '        cmdline = self.cmdline() % {"invocation": self.completed_invocations + 1}'),
 ('C03', 'm13-plan-prints-identity-string', 'rebench/executor.py',
  "            print(cmdline)\n            return True", "            print(run_id.cmdline())\n            return True"),
 ('C03', 'm14-tilde-anywhere', 'rebench/model/run_id.py',
  "        expanded = os.path.expanduser(part)\n", "        expanded = part.replace('~', os.path.expanduser('~'))\n"),
 ('C03', 'm15-plan-executes-too', 'rebench/executor.py',
  "            print(cmdline)\n            return True", "            print(cmdline)\n            self._print_execution_plan = False"),
 ('C03', 'a01-time-p-dropped', 'rebench/interop/time_adapter.py',
  'return "/usr/bin/time -p %s" % command', 'return "/usr/bin/time %s" % command'),
 ('C03', 'a02-gtime-probed-on-any-failure', 'rebench/interop/time_adapter.py',
  "        if formatted_output == 1:\n            try:", "        if formatted_output != 0:\n            try:"),
 ('C03', 'a03-perf-record-uses-report-args', 'rebench/interop/perf_adapter.py',
  'return (profiler.command + " " + profiler.record_args + " " +', 'return (profiler.command + " " + profiler.report_args + " " +'),
 ('C03', 'a04-report-step-cwd-unexpanded', 'rebench/model/profiler.py',
  "            location = os.path.expanduser(location)", "            pass"),
 ('C03', 'a05-gtime-never-selected', 'rebench/interop/time_adapter.py',
  '                    time_bin = "/opt/local/bin/gtime"', '                    pass'),
 ('C03', 'a06-time-manual-wraps', 'rebench/interop/time_adapter.py',
  "    def acquire_command(self, run_id):\n        return run_id.cmdline_for_next_invocation()", "    pass"),
 ('C03', 'a07-report-step-without-env', 'rebench/model/profiler.py',
  "run(cmdline, run_id.env, cwd=location,", "run(cmdline, {}, cwd=location,"),
 ('C03', 's01-extra-args-stringified-in-data-file', 'rebench/model/benchmark.py',
  'result["extra_args"] = self.extra_args', 'result["extra_args"] = str(self.extra_args)'),
 ('C03', 's02-empty-env-does-not-clear', 'rebench/model/exp_run_details.py',
  "env = none_or_dict(config.get('env', defaults.env))", "env = none_or_dict(config.get('env') or defaults.env)"),
 ('C03', 's03-suite-location-setdefault', 'rebench/model/benchmark_suite.py',
  'location = suite.get("location", executor.path)', 'location = suite.setdefault("location", executor.path)'),
 ('C03', 's04-expanded-env-shared-and-published-early', 'rebench/model/run_id.py',
  "        self._expandend_env = {\n            key: expand_user(value, False)\n            for key, value in self.benchmark.run_details.env.items()}",
  "        details = self.benchmark.run_details\n        if getattr(details, 'expanded_env', None) is None:\n            details.expanded_env = dict(details.env)\n            for key, value in details.env.items():\n                if '~' in value:\n                    details.expanded_env[key] = expand_user(value, False)\n        self._expandend_env = details.expanded_env"),
 ('C03', 's05-input-size-digit-string-to-int', 'rebench/persistence.py',
  '        if input_size == "":\n            input_size = None', '        if isinstance(input_size, str) and input_size.isdigit():\n            input_size = int(input_size)\n        if input_size == "":\n            input_size = None'),
 # ---------------------------------------------------------------- C20
 ('C20', 'n01-no-finally', 'rebench/rebench.py',
  "            finally:\n                restore_noise(denoise_result, show_denoise_warnings, self.ui)",
  "            except UIError:\n                restore_noise(denoise_result, show_denoise_warnings, self.ui)\n                raise"),
 ('C20', 'n02-restore-twice', 'rebench/rebench.py',
  "                restore_noise(denoise_result, show_denoise_warnings, self.ui)",
  "                restore_noise(denoise_result, show_denoise_warnings, self.ui)\n                restore_noise(denoise_result, False, self.ui)"),
 ('C20', 'n03-D-ignored', 'rebench/rebench.py',
  "        if not self._config.options.use_denoise:", "        if False:"),
 ('C20', 'n04-without-nice-inverted', 'rebench/executor.py',
  "            if not self._use_nice:\n                cmdline += \"--without-nice \"", "            if self._use_nice:\n                cmdline += \"--without-nice \""),
 ('C20', 'n05-preserve-env-first-key-only', 'rebench/executor.py',
  '",".join(env.keys())', '",".join(list(env.keys())[:1])'),
 ('C20', 'n06-shield-lower-log2', 'rebench/denoise.py',
  "return int(floor(log(num_cores)))", "return int(floor(log(num_cores, 2)))"),
 ('C20', 'n07-shield-upper-off-by-one', 'rebench/denoise.py',
  "    return num_cores - 1", "    return num_cores"),
 ('C20', 'n08-restore-skipped-if-any-failed', 'rebench/denoise_client.py',
  'if len(values) == 1 and "failed" in values:', 'if "failed" in values:'),
 ('C20', 'n09-wrap-only-if-both', 'rebench/executor.py',
  "self.use_denoise = self.use_denoise and (use_nice or use_shielding)",
  "self.use_denoise = self.use_denoise and (use_nice and use_shielding)"),
 ('C20', 'n10-restore-flags-swapped', 'rebench/denoise_client.py',
  '            if not denoise_result.use_nice:\n                cmd += ["--without-nice"]',
  '            if not denoise_result.use_shielding:\n                cmd += ["--without-nice"]'),
 ('C20', 'n11-for-profiling-dropped-in-wrap', 'rebench/executor.py',
  "            if run_id.is_profiling():\n                cmdline += \"--for-profiling \"", "            if False:\n                cmdline += \"--for-profiling \""),
 ('C20', 'n12-restore-only-on-success', 'rebench/denoise_client.py',
  "    if not denoise_result:\n        # likely has failed completely", "    if not denoise_result or not denoise_result.succeeded:\n        # likely has failed completely"),
 ('C20', 'n13-shielding-default-true', 'rebench/denoise_client.py',
  'use_shielding = result.get("shielding", False)', 'use_shielding = result.get("shielding", True)'),
 ('C20', 'p01-parallel-interrupt-not-handled', 'rebench/executor.py',
  "        except KeyboardInterrupt:\n            # Only the main thread sees the interrupt.", "        except ZeroDivisionError:\n            # Only the main thread sees the interrupt."),
 ('C20', 'p02-parallel-interrupt-no-kill', 'rebench/executor.py',
  "            self._executor.running_processes.kill_all_and_refuse_more()", "            pass"),
 ('C20', 'p03-parallel-interrupt-no-join', 'rebench/executor.py',
  "            self._executor.running_processes.kill_all_and_refuse_more()\n            for thread in self._worker_threads:\n                thread.join()\n            raise", "            raise"),
 ('C20', 'd01-restore-leaves-no-turbo', 'rebench/denoise.py',
  "    no_turbo = _set_no_turbo(False)", "    no_turbo = _set_no_turbo(True)"),
 ('C20', 'd02-restore-paranoid-2', 'rebench/denoise.py',
  'perf_file.write("3\\n")', 'perf_file.write("2\\n")'),
 ('C20', 'd03-restore-governor-performance', 'rebench/denoise.py',
  "    governor = _set_scaling_governor(SCALING_GOVERNOR_POWERSAVE, num_cores)", "    governor = _set_scaling_governor(SCALING_GOVERNOR_PERFORMANCE, num_cores)"),
 ('C20', 'd04-restore-never-resets-shield', 'rebench/denoise.py',
  "    shielding = _reset_shielding() if use_shielding else False", "    shielding = False"),
 ('C20', 'd05-minimize-always-lowers-paranoid', 'rebench/denoise.py',
  "        if for_profiling:\n            with open(\n                \"/proc/sys/kernel/perf_event_paranoid\"", "        if True:\n            with open(\n                \"/proc/sys/kernel/perf_event_paranoid\""),
 ('C20', 'd06-restore-skips-sample-rate', 'rebench/denoise.py',
  '            sample_file.write("50000\\n")', '            pass'),
 ('C20', 'n15-preserve-env-of-first-run-cached', 'rebench/executor.py',
  '",".join(env.keys())', '",".join(self.__dict__.setdefault("_first_keys", list(env.keys())))'),
 ('C20', 'n16-kill-via-sudo-if-command-starts-with-sudo', 'rebench/subprocess_with_timeout.py',
  '    executable_name = args.split(" ", 1)[0]\n', '    executable_name = args.split(" ", 1)[0]\n    uses_sudo = uses_sudo or executable_name == "sudo"\n'),
 ('C20', 'p04-parallel-fail-fast-on-worker-exception', 'rebench/executor.py',
  "                if thread.exception is not None:\n                    exceptions.append(thread.exception)\n        except KeyboardInterrupt:",
  "                if thread.exception is not None:\n                    exceptions.append(thread.exception)\n                    break\n        except KeyboardInterrupt:"),
 ('C20', 'e01-exec-nice-only-without-shield', 'rebench/denoise.py',
  '    if use_nice:\n        cmdline += ["nice", "-n-20"]', '    elif use_nice:\n        cmdline += ["nice", "-n-20"]'),
 ('C20', 'e02-exec-core-set-always', 'rebench/denoise.py',
  '    if use_shielding and paths.has_cset():\n        min_cores', '    if True:\n        min_cores'),
 ('C20', 'i01-sigterm-handler-not-installed-early', 'rebench/rebench.py',
  "            setup_signal_handling()\n", "            pass\n"),
 ('C20', 'i02-sigterm-handler-reset-after-each-process', 'rebench/subprocess_with_timeout.py',
  "    finally:\n        was_stopped = running.discard(thread)\n", "    finally:\n        was_stopped = running.discard(thread)\n        if current_thread() is main_thread():\n            signal.signal(signal.SIGTERM, signal.SIG_DFL)\n"),
 ('C20', 'o01-startup-warning-failure-not-handled', 'rebench/denoise_client.py',
  "            restore_noise(denoise_result, False, ui)\n            raise", "            raise"),
 ('C20', 'o02-empty-path-left-behind', 'rebench/environment.py',
  '                os.environ.pop("PATH", None)', '                pass'),
 ('C20', 'o03-final-warning-before-restore', 'rebench/denoise_client.py',
  "    num_cores = get_number_of_cores()\n\n    env = os.environ\n    values = set(denoise_result.details.values())",
  "    if not denoise_result.succeeded and show_warning:\n        ui.error(denoise_result.warn_msg)\n    num_cores = get_number_of_cores()\n\n    env = os.environ\n    values = set(denoise_result.details.values())"),
 ('C20', 'q01-startup-warning-handler-only-exception', 'rebench/denoise_client.py',
  "            ui.warning(msg)\n        except BaseException:", "            ui.warning(msg)\n        except Exception:"),
 ('C20', 'q02-report-parsed-only-on-exit-0', 'rebench/denoise_client.py',
  "    except subprocess.CalledProcessError as e:\n        output = output_as_str(e.output)\n    except FileNotFoundError as e:\n        print(\"FileNotFoundError\")",
  "    except subprocess.CalledProcessError as e:\n        output = 'exit status ' + str(e.returncode)\n    except FileNotFoundError as e:\n        print(\"FileNotFoundError\")"),
 ('C20', 'n14-num-cores-minus-one', 'rebench/executor.py',
  'cmdline += "--num-cores " + str(num_cores) + " "', 'cmdline += "--num-cores " + str(num_cores - 1) + " "'),
]


def main():
    args = sys.argv[1:]
    results = []
    for prop, mid, path, old, new in M:
        if args and prop not in args and mid not in args:
            continue
        f = os.path.join(REPO, path)
        src = open(f).read()
        if src.count(old) != 1:
            results.append((prop, mid, 'NOT-APPLICABLE (pattern found %d times)' % src.count(old)))
            continue
        try:
            open(f, 'w').write(src.replace(old, new))
            r = subprocess.run([os.path.join(VERIF, 'check'), prop, '--tier', 'quick', '--skip-proof'],
                               stdout=subprocess.PIPE, stderr=subprocess.STDOUT, text=True,
                               env=dict(os.environ, REBENCH_REPO=REPO, VERIF_SEED=os.environ.get('VERIF_SEED', '0')))
            viol = [l for l in r.stdout.split('\n') if l.startswith('VIOLATION') or l.startswith('INFRA')]
            results.append((prop, mid, 'exit=%d %s' % (r.returncode, viol[0] if viol else '')))
            if viol and viol[0].startswith('VIOLATION') and 'replay=' in viol[0]:
                rp = viol[0].split('replay=')[1].split()[0]
                dst = os.path.join(VERIF, 'replays', 'selftest-%s-%s.json' % (prop, mid))
                os.replace(os.path.join(VERIF, rp), dst)
        finally:
            open(f, 'w').write(src)
        print(results[-1], flush=True)
    caught = sum(1 for r in results if r[2].startswith('exit=1'))
    print('caught %d of %d' % (caught, len(results)))


if __name__ == '__main__':
    main()
