#!/usr/bin/env python3
"""py2lean — translate a small, explicitly delimited subset of Python methods
into Lean 4 definitions (the *translation tie*, DESIGN.md section 9).

    tools/py2lean.py <spec.json> <repo root> <output .lean>

The spec names a source file, a class, the methods to translate, the fields
of `self` that form the state (with their Lean types), fields to ignore
(statements assigning them are dropped: they cannot influence the translated
fields — the translator checks that an ignored field is never *read* by a
translated statement), and attribute chains that are inputs from elsewhere
(`self._run_id.retries_after_failure` → a parameter).

Supported statements: assignment / augmented assignment to `self.<field>` and
to locals, `if`/`elif`/`else`, `return <expr>`, expression statements that are
calls on `self.ui` (dropped: user output).  Supported expressions: int / float
constants (floats become exact rationals), names, `self.<field>`, + - * /,
unary minus, comparisons, `and` / `or` / `not`, `float(x)` / `int(x)` / `str(x)` of
numbers inside ignored positions, `min(a, b)`, `max(a, b)`.
Anything else raises Unsupported — the caller treats that as "translation tie
not available for the current source" (never as a finding by itself).

Numbers are `Rat` throughout (every Python int and every double is a rational);
`/` is exact division.  Booleans are `Bool`.
"""
import ast
import json
import os
import sys
from fractions import Fraction


class Unsupported(Exception):
    pass


def lean_name(n):
    return n.lstrip('_')


class Tr(object):
    def __init__(self, spec):
        self.spec = spec
        self.state = spec['state']                     # python field -> lean type
        self.ignore = set(spec.get('ignore_fields', []))
        self.externals = spec.get('externals', {})     # dotted python expr -> param name
        self.ext_types = spec.get('external_types', {})
        self.drop_calls = spec.get('drop_calls', ['self.ui.'])
        self.sqrt_fields = spec.get('sqrt_fields', {})   # python field assigned sqrt(e) -> state field tracking e
        self.ignore_locals = set(spec.get('ignore_locals', []))   # e.g. message strings only handed to the UI

    # ---------------------------------------------------------------- expressions
    def dotted(self, node):
        if isinstance(node, ast.Attribute):
            b = self.dotted(node.value)
            return None if b is None else b + '.' + node.attr
        if isinstance(node, ast.Name):
            return node.id
        return None

    def is_bool(self, e, locals_):
        if isinstance(e, (ast.Compare, ast.BoolOp)):
            return True
        if isinstance(e, ast.UnaryOp) and isinstance(e.op, ast.Not):
            return True
        if isinstance(e, ast.Constant):
            return isinstance(e.value, bool)
        d = self.dotted(e)
        if d is not None and d.startswith('self.') and d.count('.') == 1:
            return self.state.get(d[5:]) == 'Bool'
        if isinstance(e, ast.Call):
            fn = self.dotted(e.func) or ''
            if fn.startswith('self.') and fn[5:] in self.spec['methods']:
                return self.spec['methods'][fn[5:]].get('returns') == 'Bool'
        return False

    def cond(self, e, locals_):
        """an expression in a boolean position: Python truthiness of a number is `!= 0`"""
        t = self.expr(e, locals_)
        return t if self.is_bool(e, locals_) else '(decide (%s ≠ 0))' % t

    def num(self, v):
        if isinstance(v, bool):
            return 'true' if v else 'false'
        if isinstance(v, int):
            return '(%d : Rat)' % v if v >= 0 else '(-%d : Rat)' % -v
        if isinstance(v, float):
            f = Fraction(v)
            return '((%d : Rat) / %d)' % (f.numerator, f.denominator)
        raise Unsupported('constant %r' % (v,))

    def expr(self, e, locals_):
        try:
            src = ast.unparse(e)
        except Exception:  # noqa
            src = None
        if src is not None and src in self.externals:
            return self.externals[src]
        if isinstance(e, ast.Constant):
            return self.num(e.value)
        d = self.dotted(e)
        if d is not None:
            if d in self.externals:
                return self.externals[d]
            if d.startswith('self.') and d.count('.') == 1:
                f = d[5:]
                if f in self.sqrt_fields:
                    raise Unsupported('square-root field %s is read' % f)
                if f in self.ignore:
                    raise Unsupported('ignored field %s is read' % f)
                if f not in self.state:
                    raise Unsupported('unknown field self.%s' % f)
                return 'self.' + lean_name(f)
            if isinstance(e, ast.Name):
                if e.id in self.ignore_locals:
                    raise Unsupported('ignored local %s is read' % e.id)
                if e.id in locals_:
                    return lean_name(e.id)
                if e.id in ('True', 'False'):
                    return e.id.lower()
                raise Unsupported('unknown name %s' % e.id)
            raise Unsupported('attribute chain %s' % d)
        if isinstance(e, ast.BinOp):
            op = {ast.Add: '+', ast.Sub: '-', ast.Mult: '*', ast.Div: '/'}.get(type(e.op))
            if op is None:
                raise Unsupported('operator %s' % type(e.op).__name__)
            return '(%s %s %s)' % (self.expr(e.left, locals_), op, self.expr(e.right, locals_))
        if isinstance(e, ast.UnaryOp):
            if isinstance(e.op, ast.USub):
                return '(- %s)' % self.expr(e.operand, locals_)
            if isinstance(e.op, ast.Not):
                return '(! %s)' % self.cond(e.operand, locals_)
            raise Unsupported('unary %s' % type(e.op).__name__)
        if isinstance(e, ast.BoolOp):
            op = ' && ' if isinstance(e.op, ast.And) else ' || '
            return '(' + op.join(self.cond(v, locals_) for v in e.values) + ')'
        if isinstance(e, ast.Compare):
            if len(e.ops) != 1:
                raise Unsupported('chained comparison')
            a, b = self.expr(e.left, locals_), self.expr(e.comparators[0], locals_)
            t = type(e.ops[0])
            if t is ast.Eq:
                return '(decide (%s = %s))' % (a, b)
            if t is ast.NotEq:
                return '(decide (%s ≠ %s))' % (a, b)
            if t is ast.Lt:
                return '(decide (%s < %s))' % (a, b)
            if t is ast.LtE:
                return '(decide (%s ≤ %s))' % (a, b)
            if t is ast.Gt:
                return '(decide (%s < %s))' % (b, a)
            if t is ast.GtE:
                return '(decide (%s ≤ %s))' % (b, a)
            raise Unsupported('comparison %s' % t.__name__)
        if isinstance(e, ast.Call):
            fn = self.dotted(e.func)
            if fn in ('float', 'int') and len(e.args) == 1:
                return self.expr(e.args[0], locals_)   # numbers are rationals already
            if fn in ('floor', 'math.floor') and len(e.args) == 1:
                return '(((Rat.floor %s : Int)) : Rat)' % self.expr(e.args[0], locals_)
            if fn in ('min', 'max') and len(e.args) == 2:
                return '(py%s %s %s)' % (fn, self.expr(e.args[0], locals_), self.expr(e.args[1], locals_))
            if fn is not None and fn.startswith('self.') and fn[5:] in self.spec['methods']:
                m = fn[5:]
                args = ' '.join(self.expr(a, locals_) for a in e.args)
                exts = ' '.join(self.method_externals(m))
                return '(%s self %s %s)' % (lean_name(m), exts, args)
            raise Unsupported('call %s' % fn)
        raise Unsupported('expression %s' % type(e).__name__)

    # ---------------------------------------------------------------- statements
    def block(self, stmts, locals_, returns_value, indent):
        """translate a statement list into one Lean expression"""
        pad = '  ' * indent
        if not stmts:
            if returns_value:
                raise Unsupported('a value-returning method can fall off its end')
            return pad + 'self'
        s, rest = stmts[0], stmts[1:]
        if isinstance(s, ast.Expr):
            if isinstance(s.value, ast.Constant) and isinstance(s.value.value, str):
                return self.block(rest, locals_, returns_value, indent)   # docstring
            if isinstance(s.value, ast.Call):
                fn = self.dotted(s.value.func) or ''
                if any(fn.startswith(p) for p in self.drop_calls):
                    return self.block(rest, locals_, returns_value, indent)
            raise Unsupported('expression statement')
        if isinstance(s, ast.Pass):
            return self.block(rest, locals_, returns_value, indent)
        if isinstance(s, ast.Return):
            if s.value is None:
                if returns_value:
                    raise Unsupported('bare return in a value-returning method')
                return pad + 'self'
            return pad + self.expr(s.value, locals_)
        if isinstance(s, (ast.Assign, ast.AugAssign)):
            if isinstance(s, ast.Assign):
                if len(s.targets) != 1:
                    raise Unsupported('multiple assignment')
                target, value = s.targets[0], s.value
                aug = None
            else:
                target, value, aug = s.target, s.value, s.op
            d = self.dotted(target)
            if d is None:
                raise Unsupported('assignment target')
            if d.startswith('self.') and d.count('.') == 1 and d[5:] in self.sqrt_fields:
                # `self.f = math.sqrt(e)`: the state tracks e (= f squared), exactly
                f = d[5:]
                if aug is not None or not (isinstance(value, ast.Call) and self.dotted(value.func) in ('sqrt', 'math.sqrt')
                                           and len(value.args) == 1):
                    raise Unsupported('self.%s is not assigned a square root' % f)
                v = self.expr(value.args[0], locals_)
                return (pad + 'let self := { self with %s := %s }\n' % (lean_name(self.sqrt_fields[f]), v)
                        + self.block(rest, locals_, returns_value, indent))
            if d.startswith('self.') and d.count('.') == 1:
                f = d[5:]
                if f in self.ignore:
                    return self.block(rest, locals_, returns_value, indent)
                if f not in self.state:
                    raise Unsupported('assignment to unknown field self.%s' % f)
                v = self.expr(value, locals_)
                if aug is not None:
                    op = {ast.Add: '+', ast.Sub: '-', ast.Mult: '*'}.get(type(aug))
                    if op is None:
                        raise Unsupported('augmented %s' % type(aug).__name__)
                    v = '(self.%s %s %s)' % (lean_name(f), op, v)
                return (pad + 'let self := { self with %s := %s }\n' % (lean_name(f), v)
                        + self.block(rest, locals_, returns_value, indent))
            if isinstance(target, ast.Name) and target.id in self.ignore_locals:
                return self.block(rest, locals_, returns_value, indent)
            if isinstance(target, ast.Name):
                v = self.expr(value, locals_)
                if aug is not None:
                    op = {ast.Add: '+', ast.Sub: '-', ast.Mult: '*'}.get(type(aug))
                    if op is None or target.id not in locals_:
                        raise Unsupported('augmented local')
                    v = '(%s %s %s)' % (lean_name(target.id), op, v)
                return (pad + 'let %s := %s\n' % (lean_name(target.id), v)
                        + self.block(rest, locals_ | {target.id}, returns_value, indent))
            raise Unsupported('assignment to %s' % d)
        if isinstance(s, ast.If):
            c = self.cond(s.test, locals_)
            a = self.block(list(s.body) + rest, locals_, returns_value, indent + 1)
            b = self.block(list(s.orelse) + rest, locals_, returns_value, indent + 1)
            return pad + 'if %s then\n%s\n%selse\n%s' % (c, a, pad, b)
        raise Unsupported('statement %s' % type(s).__name__)

    def method_externals(self, m):
        return list(self.spec['methods'][m].get('externals', []))

    def method(self, fn):
        m = self.spec['methods'][fn.name]
        params = m.get('params', {})
        got = [a.arg for a in fn.args.args[1:]]
        if got != list(params):
            raise Unsupported('signature of %s is %s, spec says %s' % (fn.name, got, list(params)))
        ret = m.get('returns', 'S')
        sig = ' '.join(['(self : S)'] + ['(%s : %s)' % (e, self.ext_types.get(e, 'Rat')) for e in m.get('externals', [])]
                       + ['(%s : %s)' % (lean_name(p), t) for p, t in params.items()])
        body = self.block(fn.body, set(params), ret != 'S', 1)
        return 'def %s %s : %s :=\n%s\n' % (lean_name(fn.name), sig, ret, body)

    def init(self, fn):
        """__init__: constant initial values of the state fields"""
        vals = {}
        for s in fn.body:
            if isinstance(s, ast.Assign) and len(s.targets) == 1:
                d = self.dotted(s.targets[0])
                if d and d.startswith('self.') and d.count('.') == 1:
                    f = d[5:]
                    if f in self.sqrt_fields:
                        if isinstance(s.value, ast.Constant) and isinstance(s.value.value, (int, float)):
                            vals[self.sqrt_fields[f]] = self.num(s.value.value * s.value.value)
                        else:
                            raise Unsupported('non-constant initial value of %s' % f)
                        continue
                    if f in self.state:
                        if isinstance(s.value, ast.Constant):
                            vals[f] = self.num(s.value.value)
                        else:
                            raise Unsupported('non-constant initial value of %s' % f)
                    continue
            if isinstance(s, ast.Expr) and isinstance(s.value, ast.Constant):
                continue
            if isinstance(s, ast.Expr) and isinstance(s.value, ast.Call):
                continue  # super().__init__()
            if isinstance(s, ast.Assign):
                continue
            raise Unsupported('__init__ statement %s' % type(s).__name__)
        missing = [f for f in self.state if f not in vals]
        if missing:
            raise Unsupported('fields without constant initial value: %s' % missing)
        return 'def init : S :=\n  { ' + ', '.join('%s := %s' % (lean_name(f), vals[f]) for f in self.state) + ' }\n'


def translate(spec, repo):
    path = os.path.join(repo, spec['source'])
    tree = ast.parse(open(path).read())
    cls = None
    for n in ast.walk(tree):
        if isinstance(n, ast.ClassDef) and n.name == spec['class']:
            cls = n
    if cls is None:
        raise Unsupported('class %s not found in %s' % (spec['class'], spec['source']))
    tr = Tr(spec)
    out = ['/- GENERATED by tools/py2lean.py from %s (class %s) — do not edit. -/' % (spec['source'], spec['class']),
           'namespace %s' % spec['namespace'], '',
           'def pymin (a b : Rat) : Rat := if b < a then b else a',
           'def pymax (a b : Rat) : Rat := if a < b then b else a', '',
           'structure S where']
    for f, t in spec['state'].items():
        out.append('  %s : %s' % (lean_name(f), t))
    out.append('deriving Repr, DecidableEq')
    out.append('')
    fns = {n.name: n for n in cls.body if isinstance(n, ast.FunctionDef)}
    for m in spec['methods']:
        if m not in fns:
            raise Unsupported('method %s not found' % m)
        if m == '__init__':
            out.append(tr.init(fns[m]))
        else:
            out.append(tr.method(fns[m]))
    out.append('end %s' % spec['namespace'])
    return '\n'.join(out) + '\n'


def main():
    spec = json.load(open(sys.argv[1]))
    try:
        text = translate(spec, sys.argv[2])
    except Unsupported as e:
        print('UNSUPPORTED: %s' % e)
        sys.exit(3)
    with open(sys.argv[3], 'w') as f:
        f.write(text)


if __name__ == '__main__':
    main()
