#!/usr/bin/env python3
"""py2lean_fields -- third translator of the translation tie (DESIGN.md section 9.2): the *field lists* of the
identity classes, as data.

    tools/py2lean_fields.py <spec.json> <repo root> <output .lean>

For every class of the spec it reads, from the current source,
  eq       the attributes `__eq__` compares          (`self.a == other.a and ...`, optionally after
           `self is other or`, `isinstance(other, self.__class__) and`, or an `isinstance` guard statement)
  hash     the attributes `__hash__` hashes and in which form: `self.a` (plain), `tuple(self.a)` (tuple),
           `tuple(sorted(self.a.items())) if self.a else None` (sorted_items) -- directly or via the cache
           `if self._hash is None: self._hash = hash((...))`
  init     which constructor parameter is stored in which attribute (`self.a = p`, other statements are skipped)
  as_dict  which key gets which attribute and when: `"k": self.a` / `result["k"] = self.a` (always, or under
           `if self.a is not None` / `if <local> is not None` / `if not <parameter>`), `self.a.as_dict()` (nested),
           a local bound to `self.a` / `self.a.b`, `str(<local>)`, `self.m()`
  from_dict  which constructor parameter (by position in `__init__`) is filled from which key: `data["k"]`,
           `data.get("k", ...)`, `X.from_dict(<one of these>, ...)`, a local bound to one of these, `None`
and writes them as Lean lists of strings.  Any other shape raises Unsupported (exit 3): the tie is then not
available for the current source (never a finding by itself).
"""
import ast
import json
import os
import sys


class Unsupported(Exception):
    pass


def find_class(tree, name):
    for n in tree.body:
        if isinstance(n, ast.ClassDef) and n.name == name:
            return n
    raise Unsupported('class %s not found' % name)


def find_method(cls, name):
    for n in cls.body:
        if isinstance(n, ast.FunctionDef) and n.name == name:
            return n
    return None


def body_of(fn):
    return [s for s in fn.body if not (isinstance(s, ast.Expr) and isinstance(s.value, ast.Constant))]


def self_attr(e):
    if isinstance(e, ast.Attribute) and isinstance(e.value, ast.Name) and e.value.id == 'self':
        return e.attr
    return None


def eq_fields(cls):
    fn = find_method(cls, '__eq__')
    if fn is None:
        raise Unsupported('%s has no __eq__' % cls.name)
    stmts = body_of(fn)
    if len(stmts) == 2 and isinstance(stmts[0], ast.If) and ast.unparse(stmts[0].test) == 'not isinstance(other, self.__class__)' \
            and ast.unparse(stmts[0].body[0]) == 'return False' and not stmts[0].orelse:
        stmts = stmts[1:]
    if len(stmts) != 1 or not isinstance(stmts[0], ast.Return):
        raise Unsupported('%s.__eq__: shape' % cls.name)
    e = stmts[0].value
    if isinstance(e, ast.BoolOp) and isinstance(e.op, ast.Or) and len(e.values) == 2 and ast.unparse(e.values[0]) == 'self is other':
        e = e.values[1]
    if not (isinstance(e, ast.BoolOp) and isinstance(e.op, ast.And)):
        raise Unsupported('%s.__eq__: not a conjunction' % cls.name)
    out = []
    for v in e.values:
        if ast.unparse(v) == 'isinstance(other, self.__class__)':
            continue
        if isinstance(v, ast.Compare) and len(v.ops) == 1 and isinstance(v.ops[0], ast.Eq):
            a, b = v.left, v.comparators[0]
            if self_attr(a) and isinstance(b, ast.Attribute) and isinstance(b.value, ast.Name) and b.value.id == 'other' \
                    and b.attr == a.attr:
                out.append(a.attr)
                continue
        raise Unsupported('%s.__eq__: conjunct %s' % (cls.name, ast.unparse(v)))
    return out


def hash_fields(cls):
    fn = find_method(cls, '__hash__')
    if fn is None:
        raise Unsupported('%s has no __hash__' % cls.name)
    stmts = body_of(fn)
    call = None
    if len(stmts) == 1 and isinstance(stmts[0], ast.Return):
        call = stmts[0].value
    elif len(stmts) == 2 and isinstance(stmts[0], ast.If) and ast.unparse(stmts[0].test) == 'self._hash is None' \
            and len(stmts[0].body) == 1 and isinstance(stmts[0].body[0], ast.Assign) \
            and ast.unparse(stmts[0].body[0].targets[0]) == 'self._hash' and ast.unparse(stmts[1]) == 'return self._hash':
        call = stmts[0].body[0].value
    if not (isinstance(call, ast.Call) and isinstance(call.func, ast.Name) and call.func.id == 'hash' and len(call.args) == 1
            and isinstance(call.args[0], ast.Tuple)):
        raise Unsupported('%s.__hash__: shape' % cls.name)
    out = []
    for el in call.args[0].elts:
        a = self_attr(el)
        if a:
            out.append((a, 'plain'))
            continue
        if isinstance(el, ast.Call) and isinstance(el.func, ast.Name) and el.func.id == 'tuple' and len(el.args) == 1 \
                and self_attr(el.args[0]):
            out.append((self_attr(el.args[0]), 'tuple'))
            continue
        if isinstance(el, ast.IfExp) and self_attr(el.test) and isinstance(el.orelse, ast.Constant) and el.orelse.value is None \
                and ast.unparse(el.body) == 'tuple(sorted(self.%s.items()))' % self_attr(el.test):
            out.append((self_attr(el.test), 'sorted_items'))
            continue
        raise Unsupported('%s.__hash__: element %s' % (cls.name, ast.unparse(el)))
    return out


def init_stores(cls):
    fn = find_method(cls, '__init__')
    if fn is None:
        raise Unsupported('%s has no __init__' % cls.name)
    params = [a.arg for a in fn.args.args[1:]]
    out = []
    for s in ast.walk(fn):
        if isinstance(s, ast.Assign) and len(s.targets) == 1 and self_attr(s.targets[0]) and isinstance(s.value, ast.Name) \
                and s.value.id in params:
            out.append((s.value.id, self_attr(s.targets[0])))
    return params, out


def attr_path(e, local):
    """the attribute (path) of self an expression stands for, and whether it is nested (`.as_dict()`)"""
    if isinstance(e, ast.Call) and isinstance(e.func, ast.Attribute) and e.func.attr == 'as_dict' and not e.args:
        p, _n = attr_path(e.func.value, local)
        return p, True
    if isinstance(e, ast.Call) and isinstance(e.func, ast.Name) and e.func.id == 'str' and len(e.args) == 1:
        return attr_path(e.args[0], local)
    if isinstance(e, ast.Call) and isinstance(e.func, ast.Attribute) and self_attr(e.func) and not e.args:
        return self_attr(e.func) + '()', False
    if isinstance(e, ast.Name) and e.id in local:
        return local[e.id], False
    if self_attr(e):
        return e.attr, False
    if isinstance(e, ast.Attribute) and self_attr(e.value):
        return self_attr(e.value) + '.' + e.attr, False
    raise Unsupported('as_dict: value %s' % ast.unparse(e))


def as_dict_map(cls):
    fn = find_method(cls, 'as_dict')
    if fn is None:
        raise Unsupported('%s has no as_dict' % cls.name)
    params = [a.arg for a in fn.args.args[1:]]
    local, out, res = {}, [], None

    def literal(d, mode):
        for k, v in zip(d.keys, d.values):
            if not (isinstance(k, ast.Constant) and isinstance(k.value, str)):
                raise Unsupported('as_dict: key %s' % ast.unparse(k))
            p, nested = attr_path(v, local)
            out.append((k.value, p, mode, nested))

    def store(s, mode):
        if isinstance(s, ast.Assign) and len(s.targets) == 1 and isinstance(s.targets[0], ast.Subscript) \
                and isinstance(s.targets[0].value, ast.Name) and s.targets[0].value.id == res \
                and isinstance(s.targets[0].slice, ast.Constant) and isinstance(s.targets[0].slice.value, str):
            p, nested = attr_path(s.value, local)
            out.append((s.targets[0].slice.value, p, mode, nested))
            return True
        return False
    for s in body_of(fn):
        if isinstance(s, ast.Return):
            if isinstance(s.value, ast.Dict):
                literal(s.value, 'always')
            elif not (isinstance(s.value, ast.Name) and s.value.id == res) and not self_attr(s.value):
                raise Unsupported('%s.as_dict: returns %s' % (cls.name, ast.unparse(s.value)))
            elif self_attr(s.value):
                out.append(('', self_attr(s.value), 'whole', False))      # the object is serialised as one attribute
            continue
        if isinstance(s, ast.Assign) and len(s.targets) == 1 and isinstance(s.targets[0], ast.Name):
            if isinstance(s.value, ast.Dict):
                res = s.targets[0].id
                literal(s.value, 'always')
            else:
                local[s.targets[0].id] = attr_path(s.value, local)[0]
            continue
        if store(s, 'always'):
            continue
        if isinstance(s, ast.If) and not s.orelse and len(s.body) == 1:
            t = ast.unparse(s.test)
            if isinstance(s.test, ast.Compare) and isinstance(s.test.ops[0], ast.IsNot) and t.endswith(' is not None'):
                if store(s.body[0], 'if_not_none'):
                    if attr_path(s.test.left, local)[0] != out[-1][1]:
                        raise Unsupported('%s.as_dict: %s guards a different value' % (cls.name, t))
                    continue
            if isinstance(s.test, ast.UnaryOp) and isinstance(s.test.op, ast.Not) and isinstance(s.test.operand, ast.Name):
                if s.test.operand.id in params and store(s.body[0], 'unless ' + s.test.operand.id):
                    continue
                if s.test.operand.id == res and ast.unparse(s.body[0]) == 'return None':
                    continue                      # `if not result: return None`
        raise Unsupported('%s.as_dict: statement %s' % (cls.name, ast.unparse(s)[:60]))
    return out


def key_of(e, local):
    """the one key of the serialised mapping an argument expression reads ('' for the constant None)"""
    if isinstance(e, ast.Constant) and e.value is None:
        return ''
    if isinstance(e, ast.Name) and e.id in local:
        return local[e.id]
    if isinstance(e, ast.Call) and isinstance(e.func, ast.Attribute) and e.func.attr == 'from_dict' and e.args:
        return key_of(e.args[0], local)           # nested object: the key its serialised form is stored under
    keys = set()
    for n in ast.walk(e):
        if isinstance(n, ast.Subscript) and isinstance(n.slice, ast.Constant) and isinstance(n.slice.value, str):
            keys.add(n.slice.value)
        if isinstance(n, ast.Call) and isinstance(n.func, ast.Attribute) and n.func.attr == 'get' and n.args \
                and isinstance(n.args[0], ast.Constant) and isinstance(n.args[0].value, str):
            keys.add(n.args[0].value)
        if isinstance(n, ast.Name) and n.id in local:
            keys.add(local[n.id])
    if len(keys) == 1:
        return keys.pop()
    raise Unsupported('from_dict: argument %s reads %s' % (ast.unparse(e), sorted(keys)))


def from_dict_map(cls, params):
    fn = find_method(cls, 'from_dict')
    if fn is None:
        raise Unsupported('%s has no from_dict' % cls.name)
    local, ctor, post = {}, None, []

    def scan(stmts):
        for s in stmts:
            if isinstance(s, ast.If):
                scan(s.body)
                scan(s.orelse)
            if isinstance(s, ast.Assign) and len(s.targets) == 1 and isinstance(s.targets[0], ast.Name) \
                    and not (isinstance(s.value, ast.Call) and isinstance(s.value.func, ast.Name) and s.value.func.id == cls.name):
                try:
                    local[s.targets[0].id] = key_of(s.value, local)
                except Unsupported:
                    pass                          # a local that reads no key (or several): not usable as an argument
            if isinstance(s, ast.Assign) and len(s.targets) == 1 and isinstance(s.targets[0], ast.Attribute) \
                    and isinstance(s.targets[0].value, ast.Name):
                post.append(('.' + s.targets[0].attr, key_of(s.value, local)))   # attribute set after construction
    scan(fn.body)
    for s in ast.walk(fn):
        if isinstance(s, ast.Call) and isinstance(s.func, ast.Name) and s.func.id == cls.name:
            if ctor is not None:
                raise Unsupported('%s.from_dict: two constructor calls' % cls.name)
            ctor = s
    if ctor is None or ctor.keywords or len(ctor.args) != len(params):
        raise Unsupported('%s.from_dict: constructor call' % cls.name)
    return [(p, key_of(a, local)) for p, a in zip(params, ctor.args)] + post


def argparse_table(tree, func):
    """the options an argument parser is given: (flag, action, default, dest) per `<parser>.add_argument(...)` call of
    the function, in order; positional arguments have the flag as dest"""
    fn = None
    for n in tree.body:
        if isinstance(n, ast.FunctionDef) and n.name == func:
            fn = n
    if fn is None:
        raise Unsupported('function %s not found' % func)
    rows = []
    for s in body_of(fn):
        calls = [c for c in ast.walk(s) if isinstance(c, ast.Call) and isinstance(c.func, ast.Attribute)
                 and c.func.attr == 'add_argument']
        if not calls:
            if any(isinstance(c, ast.Call) and isinstance(c.func, ast.Attribute) and c.func.attr.startswith('add_')
                   for c in ast.walk(s)):
                raise Unsupported('%s: %s' % (func, ast.unparse(s)[:60]))
            continue
        for c in calls:
            if len(c.args) != 1 or not (isinstance(c.args[0], ast.Constant) and isinstance(c.args[0].value, str)):
                raise Unsupported('%s: add_argument with %d names' % (func, len(c.args)))
            flag = c.args[0].value
            kw = {}
            for k in c.keywords:
                if k.arg in ('action', 'default', 'dest'):
                    if not isinstance(k.value, ast.Constant):
                        raise Unsupported('%s: %s=%s' % (func, k.arg, ast.unparse(k.value)))
                    kw[k.arg] = k.value.value
                elif k.arg not in ('help',):
                    raise Unsupported('%s: add_argument(%s=...)' % (func, k.arg))
            dest = kw.get('dest', flag.lstrip('-').replace('-', '_'))
            rows.append((flag, kw.get('action', 'store'), repr(kw.get('default', None)), dest))
    return rows


def find_function(tree, cls, func):
    body = find_class(tree, cls).body if cls else tree.body
    for n in body:
        if isinstance(n, ast.FunctionDef) and n.name == func:
            return n
    raise Unsupported('function %s not found' % func)


def dict_table(fn):
    """the one dict literal with constant string keys of a function: (key, source text of the value), in order"""
    ds = [d for d in ast.walk(fn) if isinstance(d, ast.Dict) and d.keys
          and all(isinstance(k, ast.Constant) and isinstance(k.value, str) for k in d.keys)]
    if len(ds) != 1:
        raise Unsupported('%s: %d dict literals with constant keys' % (fn.name, len(ds)))
    return [(k.value, ast.unparse(v)) for k, v in zip(ds[0].keys, ds[0].values)]


def default_table(fn):
    """the parameters of a function that have a constant default: (name, repr of the default)"""
    args = fn.args.args
    out = []
    for a, d in zip(args[len(args) - len(fn.args.defaults):], fn.args.defaults):
        if not isinstance(d, ast.Constant):
            raise Unsupported('%s: default of %s' % (fn.name, a.arg))
        out.append((a.arg, d.value if isinstance(d.value, str) else repr(d.value)))
    return out


def doc_list(text, after):
    """the bullet list that follows the line `after` in a markdown file: the first word of every item (a link
    `[word](...)` counts as the word)"""
    lines = text.split('\n')
    if after not in lines:
        raise Unsupported('line %r not found' % after)
    i = lines.index(after) + 1
    while i < len(lines) and not lines[i].strip():
        i += 1
    out = []
    while i < len(lines) and lines[i].lstrip().startswith('- '):
        item = lines[i].lstrip()[2:].strip()
        word = item[1:item.index(']')] if item.startswith('[') and ']' in item else item.split(' ')[0]
        out.append(word)
        i += 1
    if not out:
        raise Unsupported('no list after %r' % after)
    return out


def lean_list(xs):
    return '[' + ', '.join(xs) + ']'


def q(s):
    return json.dumps(s)


def translate(spec, repo):
    out = ['/- GENERATED by tools/py2lean_fields.py — do not edit.  Sources: %s -/' %
           ', '.join(sorted({c['source'] for c in spec['classes'] + spec.get('argparse', []) + spec.get('dict_tables', [])
                             + spec.get('doc_lists', []) + spec.get('list_attrs', [])})),
           'namespace %s' % spec['namespace'], '',
           '/-- the field lists of one class, as read from the source -/',
           'structure ClassInfo where',
           '  name : String',
           '  eqFields : List String',
           '  hashFields : List (String × String)              -- attribute, form (plain | tuple | sorted_items)',
           '  initParams : List String                         -- the parameters of __init__, in order',
           '  initStores : List (String × String)              -- parameter, attribute it is stored in',
           '  asDict : List (String × String × String × Bool)  -- key, attribute (path), when, nested as_dict()',
           '  fromDict : List (String × String)                -- constructor parameter, key ("" = None)',
           'deriving Repr, DecidableEq', '']
    names = []
    for c in spec['classes']:
        tree = ast.parse(open(os.path.join(repo, c['source'])).read())
        cls = find_class(tree, c['class'])
        eq = eq_fields(cls)
        hs = hash_fields(cls)
        params, stores = init_stores(cls)
        ad = as_dict_map(cls) if c.get('dict', True) else []
        fd = from_dict_map(cls, params) if c.get('dict', True) else []
        names.append(c['class'])
        out.append('def %s : ClassInfo :=' % c['class'])
        out.append('  { name := %s,' % q(c['class']))
        out.append('    eqFields := %s,' % lean_list(q(x) for x in eq))
        out.append('    hashFields := %s,' % lean_list('(%s, %s)' % (q(a), q(f)) for a, f in hs))
        out.append('    initParams := %s,' % lean_list(q(x) for x in params))
        out.append('    initStores := %s,' % lean_list('(%s, %s)' % (q(a), q(b)) for a, b in stores))
        out.append('    asDict := %s,' % lean_list('(%s, %s, %s, %s)' % (q(k), q(a), q(m), 'true' if n else 'false') for k, a, m, n in ad))
        out.append('    fromDict := %s }' % lean_list('(%s, %s)' % (q(a), q(b)) for a, b in fd))
        out.append('')
    if spec['classes']:
        out.append('def all : List ClassInfo := %s' % lean_list(names))
        out.append('')
    for a in spec.get('argparse', []):
        rows = argparse_table(ast.parse(open(os.path.join(repo, a['source'])).read()), a['function'])
        out.append('/-- the options of `%s` (%s): flag, action, default, dest -/' % (a['function'], a['source']))
        out.append('def %s : List (String × String × String × String) := %s' % (
            a['name'], lean_list('(%s, %s, %s, %s)' % tuple(q(x) for x in r) for r in rows)))
        out.append('')
    for a in spec.get('dict_tables', []):
        fn = find_function(ast.parse(open(os.path.join(repo, a['source'])).read()), a.get('class'), a['function'])
        out.append('/-- the dict literal of `%s` (%s): key, source text of the value -/' % (a['function'], a['source']))
        out.append('def %s : List (String × String) := %s' % (
            a['name'], lean_list('(%s, %s)' % (q(k), q(v)) for k, v in dict_table(fn))))
        out.append('')
        if a.get('defaults'):
            out.append('/-- the parameters of `%s` with a constant default -/' % a['function'])
            out.append('def %s : List (String × String) := %s' % (
                a['defaults'], lean_list('(%s, %s)' % (q(k), q(v)) for k, v in default_table(fn))))
            out.append('')
    for a in spec.get('list_attrs', []):
        fn = find_function(ast.parse(open(os.path.join(repo, a['source'])).read()), a.get('class'), a['function'])
        hits = [n for n in ast.walk(fn) if isinstance(n, ast.Assign) and len(n.targets) == 1
                and self_attr(n.targets[0]) == a['attr']]
        if len(hits) != 1 or not isinstance(hits[0].value, ast.List) \
                or not all(isinstance(e, ast.Constant) and isinstance(e.value, str) for e in hits[0].value.elts):
            raise Unsupported('%s: self.%s is not assigned one list of strings' % (a['function'], a['attr']))
        out.append('/-- `self.%s` as assigned in `%s` (%s) -/' % (a['attr'], a['function'], a['source']))
        out.append('def %s : List String := %s' % (a['name'], lean_list(q(e.value) for e in hits[0].value.elts)))
        out.append('')
    for a in spec.get('doc_lists', []):
        items = doc_list(open(os.path.join(repo, a['source'])).read(), a['after'])
        out.append('/-- the list after %s in %s -/' % (json.dumps(a['after']), a['source']))
        out.append('def %s : List String := %s' % (a['name'], lean_list(q(x) for x in items)))
        out.append('')
    out.append('end %s' % spec['namespace'])
    return '\n'.join(out) + '\n'


def main():
    spec = json.load(open(sys.argv[1]))
    try:
        text = translate(spec, sys.argv[2])
    except Unsupported as e:
        print('UNSUPPORTED: %s' % e)
        sys.exit(3)
    with open(sys.argv[3], 'w') as f:
        f.write(text)


if __name__ == '__main__':
    main()
