#!/bin/sh
# tools/merge_branch.sh <branch>: merge a builder branch; RB.lean = union of import lines,
# MANIFEST.json / evidence of main's properties = ours (regenerated afterwards)
b="$1"
cd /verif || exit 2
git checkout -q -- evidence 2>/dev/null; git merge --no-edit "$b" >/dev/null 2>&1
for f in $(git diff --name-only --diff-filter=U); do
  case "$f" in
    lean/RB.lean)
      python3 - <<'PY'
import re
p='/verif/lean/RB.lean'
lines=[l for l in open(p).read().split('\n') if not re.match(r'^(<<<<<<<|=======|>>>>>>>)', l)]
seen=set(); out=[]
for l in lines:
    if l.startswith('import ') and l in seen: continue
    seen.add(l); out.append(l)
open(p,'w').write('\n'.join(out).rstrip('\n')+'\n')
PY
      git add "$f";;
    MANIFEST.json|evidence/*.json|.gitignore)
      git checkout --ours "$f" && git add "$f";;
    *) echo "UNRESOLVED $f";;
  esac
done
if [ -z "$(git diff --name-only --diff-filter=U)" ]; then git commit -q --no-edit && echo "merged $b"; else echo "conflicts remain"; fi
