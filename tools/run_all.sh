#!/bin/sh
# tools/run_all.sh [tier] [seed]: run every claimed check (sequentially: they share the lake build lock and scratch),
# print one summary line per property.  Exit 0 iff all exit 0.
tier="${1:-quick}"; seed="${2:-0}"
cd "$(dirname "$0")/.." || exit 2
rc_all=0
for pid in $(python3 -c "import json; print(' '.join(c['property_id'] for c in json.load(open('MANIFEST.json'))['checks']))"); do
  out=$(VERIF_SEED=$seed ./check "$pid" --tier "$tier" 2>&1); rc=$?
  echo "$pid rc=$rc :: $(echo "$out" | grep -E 'VIOLATION|KNOWN-FINDING|INFRA|NOTE' | tr '\n' ';' | cut -c1-300) $(echo "$out" | tail -1 | cut -c1-200)"
  [ $rc -ne 0 ] && rc_all=1
done
exit $rc_all
