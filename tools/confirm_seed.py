#!/usr/bin/env python3
"""Confirm a seeded change: tools/confirm_seed.py <dir with patch.diff, demo.py|demo_test.py, meta.json>

In a scratch worktree of /repo (removed afterwards):
 1. the demonstration passes on the unchanged tree,
 2. the patch applies, the demonstration fails with it,
 3. the repository's own test suite gives the same result with the patch as without.
Prints one JSON line with the verdict.
"""
import json, os, subprocess, sys, tempfile, shutil, re

seed = os.path.abspath(sys.argv[1])
base = sys.argv[2] if len(sys.argv) > 2 else 'HEAD'
wt = tempfile.mkdtemp(prefix='seedchk-', dir='/tmp')
os.rmdir(wt)
res = {'seed': seed}


def sh(cmd, cwd=None, timeout=1500):
    p = subprocess.run(cmd, cwd=cwd, timeout=timeout, stdout=subprocess.PIPE, stderr=subprocess.STDOUT, text=True)
    return p.returncode, p.stdout


def demo():
    if os.path.exists(os.path.join(seed, 'demo.py')):
        return sh(['/venv/bin/python', '-B', os.path.join(seed, 'demo.py'), wt], cwd=wt, timeout=600)
    return sh(['/venv/bin/python', '-B', '-m', 'pytest', '-q', '-p', 'no:cacheprovider', os.path.join(seed, 'demo_test.py')],
              cwd=wt, timeout=600)


def suite():
    rc, out = sh(['/venv/bin/python', '-m', 'pytest', '-q', '-p', 'no:cacheprovider', '--timeout=900'], cwd=wt)
    m = re.search(r'(\d+) passed', out)
    f = re.search(r'(\d+) failed', out)
    return rc, (int(m.group(1)) if m else 0), (int(f.group(1)) if f else 0), out[-300:]


try:
    rc, out = sh(['git', '-C', '/repo', 'worktree', 'add', '-q', '--detach', wt, base])
    assert rc == 0, out
    rc, out = demo()
    res['demo_clean_rc'] = rc
    if rc != 0:
        res['demo_clean_out'] = out[-500:]
    rc, out = sh(['git', 'apply', os.path.join(seed, 'patch.diff')], cwd=wt)
    res['patch_applies'] = rc == 0
    if rc != 0:
        res['patch_out'] = out[-300:]
    else:
        rc, out = demo()
        res['demo_patched_rc'] = rc
        res['demo_patched_out'] = out[-400:]
        rc, passed, failed, tail = suite()
        res['suite_patched'] = {'rc': rc, 'passed': passed, 'failed': failed}
        if rc != 0:
            res['suite_tail'] = tail
    res['confirmed'] = bool(res.get('demo_clean_rc') == 0 and res.get('patch_applies') and
                            res.get('demo_patched_rc', 0) != 0 and res.get('suite_patched', {}).get('rc') == 0)
finally:
    sh(['git', '-C', '/repo', 'worktree', 'remove', '--force', wt])
    shutil.rmtree(wt, ignore_errors=True)
print(json.dumps(res))
