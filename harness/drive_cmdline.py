"""Helpers for C03 (and C20): generated configurations over the shell-safe
alphabet, in-process compilation of runs, the `/bin/sh` fake harness that
records argv / cwd / complete environment, and the executable oracle of the
property (an independent reading of docs/config.md, *not* the Lean model).
"""
import contextlib
import copy
import os
import pwd
import re
import stat

import lib

lib.use_repo()

# ------------------------------------------------------------------ alphabet
ASCII_LIT = list('abcxyzABZ0189') + list('_-./=:,@+')
SPECIAL = ['{', '}', '~', 'é', 'ß', 'λ', '日']
PLACEHOLDERS = ['benchmark', 'cores', 'executor', 'input', 'iterations', 'invocation',
                'suite', 'variable', 'tag', 'warmup']
# characters that are neither a flag, a width, a length modifier nor a conversion of
# CPython's %-operator: `%c` / `%(name)c` with one of them is a ValueError in Python
# and a format error in the model
BAD_CONV = ['z', 'y', '~', '{', '}', '_', '/', ',', '@', '=', ':', 'é']
USER_POOL = ['root', 'nosuchuserq', 'daemon']


def users_table():
    out = []
    for u in USER_POOL:
        try:
            out.append([u, pwd.getpwnam(u).pw_dir])
        except KeyError:
            pass
    return out


def pw_home():
    try:
        return pwd.getpwuid(os.getuid()).pw_dir
    except KeyError:
        return None


def gen_plain(rng, lo=1, hi=6, braces=True):
    pool = ASCII_LIT + ([c for c in SPECIAL if c != '~'] if braces else ['é', 'λ'])
    return ''.join(rng.choice(pool) for _ in range(rng.randint(lo, hi)))


TILDE_WORDS = ['~', '~/x', '~/a/b', '~root', '~root/q', '~nosuchuserq/z', '~nosuchuserq', 'a:~/b',
               '~/a:~/b:c', 'x~y', 'k=~/v', '~:b', '~x:y/z', '~root:y/z', '/opt/~', 'a:~', '~/', '~//d',
               '-cp=~/a:~/b']
PCT_WORDS = ['100%%', '%%', 'a%%b', '%%(invocation)s', '%%s', '%%d', '%%%%', '%% %%', '50%%/x', '%%(cores)s']


def gen_word(rng, braces=True, allow_malformed=False, placeholders=True):
    """one word of template text; returns (text, kind)"""
    x = rng.random()
    if placeholders and x < 0.30:
        n = rng.choice(PLACEHOLDERS)
        ph = '%(' + n + ')s'
        form = rng.randint(0, 3)
        if form == 0:
            return ph, 'ph'
        if form == 1:
            return '--' + n[:3] + '=' + ph, 'ph'
        if form == 2:
            return 'p' + ph + 'q', 'ph'
        return ph + '%(' + rng.choice(PLACEHOLDERS) + ')s', 'ph'
    if x < 0.42:
        return rng.choice(TILDE_WORDS), 'tilde'
    if x < 0.52:
        return rng.choice(PCT_WORDS), 'pct'
    if allow_malformed and x < 0.56:
        return rng.choice(['%' + rng.choice(BAD_CONV), '%(nosuch)s', '%(benchmark)' + rng.choice(BAD_CONV),
                           'a%(Benchmark)s', '%(benchmark']), 'malformed'
    w = gen_plain(rng, braces=braces)
    return w, 'plain'


def gen_text(rng, max_words=4, braces=True, allow_malformed=False, placeholders=True, min_words=1):
    words, kinds = [], set()
    for _ in range(rng.randint(min_words, max_words)):
        w, k = gen_word(rng, braces, allow_malformed, placeholders)
        words.append(w)
        kinds.add(k)
    sep = '  ' if rng.random() < 0.08 else ' '
    text = sep.join(words)
    return text, kinds


VALUE_STRS = ['v1', 'large', '100%', '%', '%%', '%s', '%(invocation)s', '%(benchmark)s', '~/v', 'a b',
              'é', '{x}', 'x:~/y', '', '~', 'q=1', '50%d', '%z', '007', '00', '04', '7', '0010']


def gen_value(rng, allow_empty=True):
    x = rng.random()
    if x < 0.35:
        return rng.choice([1, 2, 4, 16, 0, 7, 1000, -3])
    if x < 0.75:
        v = rng.choice(VALUE_STRS)
        if v == '' and not allow_empty:
            v = 'v2'
        return v
    return gen_plain(rng, 1, 4)


def norm_dim(key, v):
    """the documented normalisation of a configured value (persistence.py:88-96): cores that are
    digit strings are numbers; an empty input size / variable value means none.  Nothing else: in
    particular an input size "007" stays "007"."""
    if key == 'cores' and isinstance(v, str) and v.isdigit():
        return int(v)
    if key in ('input_sizes', 'variable_values') and v == '':
        return None
    return v


def configured_rendering(info, key, attr):
    """how the run's value of this dimension is spelled in the configuration (after the documented
    normalisation); falls back to the run's own attribute when the dimension is not configured"""
    def s(v):
        return '' if v is None else str(v)
    conf = (info.get('dims') or {}).get(key)
    if not conf:
        return s(attr)
    for c in conf:
        n = norm_dim(key, c)
        if n == attr and type(n) is type(attr):
            return s(n)
    for c in conf:      # the run carries a value that is not configured: which one was meant?
        if s(c).lstrip('0') == s(attr).lstrip('0'):
            return s(norm_dim(key, c))
    return s(attr)


PATHS = [None, '.', 'bin', './bin', '/opt/x', '~/vm', '~', 'a/../b', 'bin/', '/', '//x', '///y', '..', '../up',
         '', 'a//b/./c', '~nosuchuserq/vm', '~root/vm', 'p%%q', 'd-%(cores)s', 'é/x', '/a/../../b']


def gen_config(rng, for_sessions=False, allow_malformed=True, braces=None, env_tilde=True, parens=True,
               scalars=True, multi_exec=None):
    """one raw configuration (a dict as `load_config` would produce it) plus the
    generator's own knowledge about it (for the oracle)."""
    if braces is None:
        braces = True
    kinds = set()

    def text(maxw=4, minw=1):
        t, k = gen_text(rng, maxw, braces=braces, allow_malformed=allow_malformed and not for_sessions,
                        min_words=minw)
        kinds.update(k)
        if not parens:
            t = re.sub(r'%%\((\w+)\)s', r'%%\1', t)
        return t

    def fix(v):
        """`(` and `)` are shell metacharacters: literal parentheses (from `%%(x)s` or from a value)
        are only generated where no real shell sees the text"""
        if isinstance(v, str):
            if not parens:
                v = re.sub(r'%%\((\w+)\)s', r'%%\1', v).replace('%(invocation)s', 'iNv').replace('%(benchmark)s', 'bEn')
            if not braces:
                v = v.replace('{', 'b').replace('}', 'd')
        return v

    n_bench = rng.randint(1, 3)
    benchmarks, bench_info, bench_dicts = [], {}, {}
    marker_in_command = [False]
    for j in range(n_bench):
        name = 'B%d%s' % (j, rng.choice(['', '.x', '-y', 'é']))
        d = {}
        if rng.random() < 0.4:
            d['command'] = rng.choice(['cmd%d' % j, 'c%%d', '~/c', 'c %d' % j, '50%', '%(invocation)s', 'x{}y'])
            d['command'] = fix(d['command'])
        if for_sessions:
            # a literal marker that identifies the run in what the scripted Popen records
            if scalars and rng.random() < 0.35:
                # a YAML number as extra_args (identity-relevant, must survive the data file);
                # the marker then travels in the benchmark's command
                d['command'] = 'm%dm' % j
                d['extra_args'] = rng.choice([7, 42, 2.5, 1000, -3])
                marker_in_command[0] = True
            else:
                d['extra_args'] = 'm%dm %s' % (j, text(2)) if rng.random() < 0.5 else 'm%dm' % j
        elif rng.random() < 0.5:
            d['extra_args'] = text(3) if rng.random() < 0.85 else rng.choice([7, 42, 2.5])
        if allow_malformed and not for_sessions and rng.random() < 0.02:
            # a lone `%` at the very end of the whole command line: "incomplete format"
            # (anywhere else Python would read the following characters as a format specification)
            d['extra_args'] = str(d.get('extra_args') or 'x') + ' 50%'
            kinds.add('malformed')
        bench_info[name] = {'command': d.get('command', name),
                            'extra_args': None if d.get('extra_args') is None else str(d['extra_args'])}
        bench_dicts[name] = d
        benchmarks.append({name: d} if d else name)
    suite = {'gauge_adapter': 'RebenchLog', 'command': text(5), 'benchmarks': benchmarks}
    if marker_in_command[0] and '%(benchmark)s' not in suite['command'].replace('%%', ''):
        suite['command'] += ' %(benchmark)s'
    if rng.random() < 0.6:
        suite['location'] = rng.choice([p for p in PATHS if p is not None])
    dims = {}
    multi = rng.random() < 0.2 and not for_sessions
    for key in ('cores', 'input_sizes', 'variable_values', 'tags'):
        if rng.random() < 0.6:
            n = rng.randint(1, 2) if multi else 1
            vals = []
            while len(vals) < n:
                v = gen_value(rng)
                if key == 'cores' and v == '':
                    continue
                if key == 'tags' and not isinstance(v, str):
                    v = 't%d' % v
                v = fix(v)
                # cores given as digit strings are numbers to ReBench (persistence.py: create_run_id):
                # "04" and 4 are the same run
                if key == 'cores' and any(norm_dim('cores', v) == norm_dim('cores', w) for w in vals):
                    continue
                if v not in vals:
                    vals.append(v)
            dims[key] = vals
    suite.update(dims)
    executor = {'executable': rng.choice(['exe', 'vm-%(cores)s', 'run.sh', 'éxe', 'x%%y', 'e~x'])}
    path = rng.choice(PATHS)
    if path is not None:
        executor['path'] = path
    if rng.random() < 0.5:
        executor['args'] = text(3)
    runs_cfg = {}
    invocations = rng.randint(1, 4)
    runs_cfg['invocations'] = invocations
    if for_sessions:
        # a low mean would print a warning with run details; ui.py passes the command through
        # str.format unescaped, so `{`/`}` in it crash the session (not C03's clause; reported)
        runs_cfg['min_iteration_time'] = 0
    iterations = None
    if rng.random() < 0.5:
        iterations = rng.choice([1, 3, 10, 250])
        runs_cfg['iterations'] = iterations
    warmup = None
    if rng.random() < 0.6:
        warmup = rng.choice([0, 1, 5, 330])
        rng.choice([runs_cfg, suite])['warmup'] = warmup
    def gen_env():
        if rng.random() < 0.3:
            return {}            # explicitly empty: clears what a more general level configured
        env = {}
        for _ in range(rng.randint(1, 3)):
            k = rng.choice(['A', 'PATH', 'LD_LIBRARY_PATH', 'JAVA_HOME', 'X_1', 'HOME', 'LANG'])
            env[k] = rng.choice(['1', '/usr/bin:/bin', '~/bin:/bin', '~', '~/a:~/b', 'a b', 'x ~/y', 'é',
                                 '{x}', '100%', '%(cores)s', '~nosuchuserq/q', '~root/lib:~/lib', '', 'a=b',
                                 'k:~'])
            if not env_tilde and '~' in env[k]:
                # C07's defect (in-place `~` expansion of the shared env map breaks resume):
                # kept out of multi-session scenarios
                env[k] = env[k].replace('~', 'T')
        return env

    # a second executor that runs the same suite, with another path (or none): a suite without a
    # location of its own runs in the path of the executor it is executed with
    if multi_exec is None:
        multi_exec = rng.random() < 0.35
    executor2 = None
    if multi_exec:
        executor2 = {'executable': rng.choice(['exe2', 'vm-%(cores)s', 'run.sh'])}
        p2 = rng.choice([p_ for p_ in PATHS if p_ != executor.get('path')])
        if p2 is not None:
            executor2['path'] = p2
        if for_sessions:
            # the scripted Popen must be able to tell the executors apart
            executor['args'] = 'Q0Q' + (' ' + executor['args'] if executor.get('args') else '')
            executor2['args'] = 'Q1Q' + (' ' + text(2) if rng.random() < 0.4 else '')
        elif rng.random() < 0.5:
            executor2['args'] = text(3)

    # `env` on several levels (runs < experiment < executor < suite < benchmark): the effective map
    # of a run is the one of the most specific level that has the key, replaced as a whole (C02)
    experiment = {}
    p_level = rng.choice([0.0, 0.3, 0.3, 0.6])
    for lvl in [runs_cfg, experiment, executor, suite] + ([executor2] if executor2 is not None else []):
        if rng.random() < p_level:
            lvl['env'] = gen_env()

    def chain(ex):
        eff = {}
        for lvl in (runs_cfg, experiment, ex, suite):
            if 'env' in lvl:
                eff = lvl['env']
        return eff
    for name, d in bench_dicts.items():
        if rng.random() < 0.25:
            d['env'] = gen_env()
            for i, b in enumerate(benchmarks):
                if b == name:
                    benchmarks[i] = {name: d}
    env = chain(executor)
    ex_name = rng.choice(['E', 'E-1', 'Exé', 'E%%', 'E.2'])
    su_name = rng.choice(['S', 'S_2', 'Sé', 'S%', 'Suite'])
    executors = {ex_name: executor}
    experiments = {'T': dict(experiment, suites=[su_name], executions=[ex_name])}
    default_experiment = 'T'
    if executor2 is not None:
        ex2_name = ex_name + rng.choice(['b', '-2', 'ß'])
        executors[ex2_name] = executor2
        if rng.random() < 0.5:
            experiments['T']['executions'] = [ex_name, ex2_name] if rng.random() < 0.7 else [ex2_name, ex_name]
        else:
            # several experiments of one configuration share the suite
            experiments['T2'] = dict(experiment, suites=[su_name], executions=[ex2_name])
            default_experiment = 'all'
    cfg = {'default_experiment': default_experiment, 'default_data_file': 't.data', 'runs': runs_cfg,
           'benchmark_suites': {su_name: suite}, 'executors': executors, 'experiments': experiments}
    env_by, ex_info = {}, {}
    for nm, ex in executors.items():
        ex_info[nm] = {'path': ex.get('path'), 'executable': ex['executable'], 'args': ex.get('args')}
        env_by[nm] = dict((b, copy.deepcopy(bench_dicts[b]['env'] if 'env' in bench_dicts[b] else chain(ex)))
                          for b in bench_info)
    for b in bench_info:
        bench_info[b]['env'] = copy.deepcopy(env_by[ex_name][b])
    info = {'bench': bench_info, 'executor': ex_name, 'suite': su_name, 'iterations': iterations,
            'warmup': warmup, 'env': copy.deepcopy(env) or {}, 'invocations': invocations,
            'path': executor.get('path'), 'executable': executor['executable'], 'args': executor.get('args'),
            'command': suite['command'], 'has_location': 'location' in suite,
            'location': suite.get('location'), 'dims': copy.deepcopy(dims), 'kinds': sorted(kinds),
            'executors': ex_info, 'env_by': env_by}
    return cfg, info


# -------------------------------------------------------- compile in-process
def compile_runs(cfg, workdir):
    """the real Configurator on a raw configuration; returns the list of RunIds"""
    from rebench.configurator import Configurator
    from rebench.persistence import DataStore
    from rebench.ui import TestDummyUI
    ui = TestDummyUI()
    ds = DataStore(ui)
    raw = copy.deepcopy(cfg)
    raw['__dir__'] = workdir
    raw['__file__'] = os.path.join(workdir, 'test.conf')
    c = Configurator(raw, ds, ui, None, None, None, 't.data')
    return list(c.get_runs())


class _LoadedPoint(object):
    """the minimum of a DataPoint that `RunId.loaded_data_point` looks at"""
    def __init__(self, invocation):
        self.invocation = invocation

    def get_total_unit(self):
        return 'ms'

    def get_total_value(self):
        return 1.0


def set_completed(run, c):
    """make the run believe `c` invocations are recorded, through its public loader entry"""
    if c > 0:
        run.loaded_data_point(_LoadedPoint(c), True)


def val_json(v):
    if v is None:
        return None
    if isinstance(v, bool):
        raise lib.InfraError('boolean values are outside the generated domain')
    if isinstance(v, int):
        return {'i': v}
    return {'s': str(v)}


def run_key(run):
    return (run.benchmark.name, run.cores, run.input_size, run.var_value, run.tag)


def ex_of(info, run):
    """the generator's knowledge about the executor of a run"""
    name = run.benchmark.suite.executor.name
    ex = (info.get('executors') or {}).get(name)
    if ex is not None:
        return dict(ex, name=name)
    return {'name': info['executor'], 'path': info['path'], 'executable': info['executable'], 'args': info['args']}


def env_of(info, run):
    """the effective env map of a run according to the generator (most specific level wins)"""
    by = info.get('env_by')
    if by is not None:
        return by[run.benchmark.suite.executor.name][run.benchmark.name]
    b = info['bench'][run.benchmark.name]
    return b['env'] if 'env' in b else info['env']


def model_run(info, run):
    """the model's `Run` for one compiled RunId: configuration text from the generator,
    the position in the cross product from the run's identity"""
    b = info['bench'][run.benchmark.name]
    return {'bench': b['command'], 'cores': val_json(run.cores), 'input': val_json(run.input_size),
            'variable': val_json(run.var_value), 'tag': val_json(run.tag),
            'executor': ex_of(info, run)['name'], 'suite': info['suite'],
            'iterations': val_json(1 if info['iterations'] is None else info['iterations']),
            'warmup': val_json(info['warmup']),
            'path': ex_of(info, run)['path'], 'executable': ex_of(info, run)['executable'],
            'args': ex_of(info, run)['args'],
            'command': info['command'], 'extra_args': b['extra_args'],
            'has_location': info['has_location'], 'location': info['location'],
            'env': [[k, v] for k, v in env_of(info, run).items()], 'invocations': info['invocations']}


def world(cwd, parent_env):
    return {'cwd': cwd, 'parent': [[k, v] for k, v in sorted(parent_env.items())],
            'pw_home': pw_home(), 'users': users_table()}


@contextlib.contextmanager
def environ(home=None, extra=None, unset_home=False):
    """temporarily change ReBench's own environment (this process)"""
    saved = dict(os.environ)
    try:
        if unset_home:
            os.environ.pop('HOME', None)
        elif home is not None:
            os.environ['HOME'] = home
        for k, v in (extra or {}).items():
            os.environ[k] = v
        yield
    finally:
        os.environ.clear()
        os.environ.update(saved)


@contextlib.contextmanager
def chdir(d):
    old = os.getcwd()
    os.chdir(d)
    try:
        yield
    finally:
        os.chdir(old)


# ---------------------------------------------------------------- the oracle
_TOK = re.compile(r'%%|%\(([^)]*)\)s|%')


def spec_subst(template, values):
    """docs/config.md: `%(name)s` is replaced by the run's value, `%%` is a literal `%`.
    Returns None when the template is outside that language."""
    out, pos = [], 0
    for m in _TOK.finditer(template):
        out.append(template[pos:m.start()])
        pos = m.end()
        tok = m.group(0)
        if tok == '%%':
            out.append('%')
        elif tok == '%':
            return None
        else:
            if m.group(1) not in values:
                return None
            out.append(values[m.group(1)])
    out.append(template[pos:])
    return ''.join(out)


def _tilde_one(seg, home, users):
    if not seg.startswith('~'):
        return seg
    name, slash, rest = seg[1:].partition('/')
    base = home if name == '' else users.get(name)
    if base is None:
        return seg
    return (base.rstrip('/') + slash + rest) or '/'


def spec_tilde(word, home, users):
    """a leading `~` / `~user` of a word, and of every element of a `:`-separated list, is expanded"""
    return ':'.join(_tilde_one(s, home, users) for s in word.split(':'))


def spec_values(info, run, invocation, documented_defaults=True):
    def s(v):
        return '' if v is None else str(v)
    b = info['bench'][run.benchmark.name]
    warm = info['warmup']
    if warm is None and documented_defaults:
        warm = 0          # docs/config.md: "warmup … Default: `0`"
    iters = 1 if info['iterations'] is None else info['iterations']
    return {'benchmark': b['command'], 'cores': configured_rendering(info, 'cores', run.cores),
            'executor': ex_of(info, run)['name'],
            'input': configured_rendering(info, 'input_sizes', run.input_size), 'iterations': str(iters),
            'invocation': str(invocation), 'suite': info['suite'],
            'variable': configured_rendering(info, 'variable_values', run.var_value),
            'tag': configured_rendering(info, 'tags', run.tag), 'warmup': str(warm)}


def spec_path(cwd, p):
    """a configured path is taken relative to ReBench's working directory unless it starts with `~`"""
    if p is None or p == '':
        return p
    if p.startswith('~'):
        return p
    return os.path.normpath(os.path.join(cwd, p))


def spec_template(info, run, cwd):
    b = info['bench'][run.benchmark.name]
    parts = []
    ex = ex_of(info, run)
    path = spec_path(cwd, ex['path'])
    exe = (path + '/' if path else '') + ex['executable']
    parts.append(exe)
    if ex['args']:
        parts.append(ex['args'])
    parts.append(info['command'])
    if b['extra_args']:
        parts.append(b['extra_args'])
    return ' '.join(parts)


def spec_launch(info, run, invocation, cwd, home, users):
    """expected (argv, cwd, env) of the process that starts invocation number `invocation`;
    None if the template is outside the documented language"""
    values = spec_values(info, run, invocation)
    text = spec_subst(spec_template(info, run, cwd), values)
    if text is None:
        return None
    argv = [spec_tilde(w, home, users) for w in text.split(' ') if w]
    # the suite's location, else the path of the executor the run is executed with
    loc = info['location'] if info['has_location'] else ex_of(info, run)['path']
    wd = spec_path(cwd, loc)
    if wd:
        v1 = dict(values)
        v1['invocation'] = '%(invocation)s'
        wd = spec_subst(wd, v1)
        if wd is None:
            return None
        wd = _tilde_one(wd, home, users)
    env = {}
    for k, v in env_of(info, run).items():
        env[k] = ' '.join(spec_tilde(w, home, users) for w in v.split(' ')) if '~' in v else v
    return {'argv': argv, 'cwd': wd or None, 'env': env}


# ------------------------------------------------------------- fake harness
SH_ADDS = {'PWD', 'OLDPWD', 'SHLVL', '_'}


def write_fake_harness(directory, name, logdir):
    """a `/bin/sh` script that records argv, cwd and its complete initial environment
    (as the kernel handed it over: /proc/$$/environ) and prints one RebenchLog data point"""
    os.makedirs(logdir, exist_ok=True)
    p = os.path.join(directory, name)
    with open(p, 'w') as f:
        f.write('#!/bin/sh\n'
                'n=0\n'
                'while ! /bin/mkdir "%(log)s/$n" 2>/dev/null; do n=$((n+1)); done\n'
                'd="%(log)s/$n"\n'
                'for a in "$@"; do printf \'%%s\\0\' "$a"; done > "$d/argv"\n'
                '/bin/pwd -P > "$d/cwd"\n'
                '/bin/cat /proc/$$/environ > "$d/environ"\n'
                'echo "B: iterations=1 runtime: 10ms"\n' % {'log': logdir})
    os.chmod(p, os.stat(p).st_mode | stat.S_IXUSR | stat.S_IXGRP | stat.S_IXOTH)
    return p


def read_fake_log(logdir):
    out = []
    if not os.path.isdir(logdir):
        return out
    for n in sorted((d for d in os.listdir(logdir) if d.isdigit()), key=int):
        d = os.path.join(logdir, n)

        def rd(name):
            with open(os.path.join(d, name), 'rb') as f:
                return f.read()
        argv = [a.decode('utf-8', 'surrogateescape') for a in rd('argv').split(b'\0')[:-1]]
        env = {}
        for kv in rd('environ').split(b'\0'):
            if kv:
                k, _, v = kv.decode('utf-8', 'surrogateescape').partition('=')
                env[k] = v
        out.append({'argv': argv, 'cwd': rd('cwd').decode('utf-8', 'surrogateescape').rstrip('\n'), 'env': env})
    return out


# ------------------------------------------------------------ gauge adapters
TIME_FORMAT = '"max rss (kb): %M\nwall-time (secounds): %e\n"'
PERF_OUT = ' --output=profile.perf '
PERF_IN = ' --input=profile.perf '
PERF_RECORD_DEFAULT = 'record -g -F 9999 --call-graph lbr'      # rebench-schema.yml
PERF_REPORT_DEFAULT = 'report -g graph --no-children --stdio'

CUSTOM_ADAPTER = ('from rebench.interop.rebench_log_adapter import RebenchLogAdapter\n\n\n'
                  'class MyAdapter(RebenchLogAdapter):\n'
                  '    """inherits the default acquire_command"""\n')


def gen_adapter(rng):
    x = rng.random()
    if x < 0.40:
        return {'kind': 'plain', 'name': 'RebenchLog'}
    if x < 0.50:
        return {'kind': 'plain', 'name': 'TimeManual'}
    if x < 0.60:
        return {'kind': 'plain', 'name': 'custom'}
    if x < 0.85:
        return {'kind': 'time', 'rc1': rng.choice([0, 0, 1, 1, 2, 127, None]), 'rc2': rng.choice([0, 0, 1, 2, None])}
    return {'kind': 'perf', 'record_args': rng.choice([None, 'record -g', 'record -F 100 -e cycles']),
            'report_args': rng.choice([None, 'report --stdio'])}


def apply_adapter(cfg, info, adapter, wd):
    """configure the generated configuration for the chosen gauge adapter"""
    su = cfg['benchmark_suites'][info['suite']]
    if adapter['kind'] == 'time':
        su['gauge_adapter'] = 'Time'
    elif adapter['kind'] == 'perf':
        cfg['experiments']['T']['action'] = 'profile'
        p = {}
        if adapter['record_args'] is not None:
            p['record_args'] = adapter['record_args']
        if adapter['report_args'] is not None:
            p['report_args'] = adapter['report_args']
        for ex in cfg['executors'].values():
            ex['profiler'] = {'perf': dict(p)}
        for exp in cfg['experiments'].values():
            exp['action'] = 'profile'
    elif adapter['name'] == 'custom':
        with open(os.path.join(wd, 'my_adapter.py'), 'w') as f:
            f.write(CUSTOM_ADAPTER)
        su['gauge_adapter'] = {'MyAdapter': './my_adapter.py'}
    else:
        su['gauge_adapter'] = adapter['name']


def spec_adapter_prefix(adapter):
    """docs / interop: what the adapter puts in front of the configured command"""
    if adapter['kind'] == 'plain':
        return ''
    if adapter['kind'] == 'time':
        rc1, rc2 = adapter['rc1'], adapter['rc2']
        if rc1 == 0:
            return '/usr/bin/time -f ' + TIME_FORMAT + ' '
        if rc1 in (1, None) and rc2 == 0:
            return '/opt/local/bin/gtime -f ' + TIME_FORMAT + ' '
        return '/usr/bin/time -p '
    rec = PERF_RECORD_DEFAULT if adapter['record_args'] is None else adapter['record_args']
    return 'perf ' + rec + PERF_OUT + ' '


def spec_report_text(adapter):
    rep = PERF_REPORT_DEFAULT if adapter['report_args'] is None else adapter['report_args']
    return 'perf ' + rep + PERF_IN


def formatted_time(adapter):
    return adapter['kind'] == 'time' and (adapter['rc1'] == 0 or (adapter['rc1'] in (1, None) and adapter['rc2'] == 0))


def benchmark_output(adapter):
    if adapter['kind'] == 'time' or adapter.get('name') == 'TimeManual':
        if formatted_time(adapter):
            return 'max rss (kb): 1234\nwall-time (secounds): 0.01\n'
        return 'real 0.01\nuser 0.00\nsys 0.00\n'
    return 'B: iterations=1 runtime: 7ms\n'


def perf_report_output():
    p = os.path.join(lib.REPO, 'rebench', 'tests', 'perf', 'perf-small.report')
    if os.path.exists(p):
        return open(p).read()
    return '    50.00%  bin  lib.so  [.] method\n'


class _TimeProbe(object):
    """stands in for the `subprocess` module inside rebench.interop.time_adapter: the two
    availability probes of `/usr/bin/time -f` and `gtime -f` answer as scripted"""
    PIPE = -1

    def __init__(self, adapter, calls):
        self.adapter = adapter
        self.calls = calls

    def call(self, cmd, **kw):
        self.calls.append(list(cmd))
        rc = self.adapter['rc1'] if cmd[0] == '/usr/bin/time' else self.adapter['rc2']
        if rc is None:
            raise OSError(2, 'No such file or directory', cmd[0])
        return rc


@contextlib.contextmanager
def time_world(adapter, calls):
    from rebench.interop import time_adapter as ta
    saved = (ta.subprocess, ta.TimeAdapter._completed_time_availability_check,
             ta.TimeAdapter._use_formatted_time, ta.TimeAdapter._time_bin)
    ta.subprocess = _TimeProbe(adapter, calls) if adapter['kind'] == 'time' else ta.subprocess
    ta.TimeAdapter._completed_time_availability_check = False
    ta.TimeAdapter._use_formatted_time = False
    ta.TimeAdapter._time_bin = None
    try:
        yield
    finally:
        ta.subprocess = saved[0]
        (ta.TimeAdapter._completed_time_availability_check, ta.TimeAdapter._use_formatted_time,
         ta.TimeAdapter._time_bin) = saved[1:]
