"""Driving `ReBench.run` with denoise enabled, without ever touching the system (C20).

SAFETY.  We are root and the real `rebench/denoise.py` would change kernel
settings.  In-process sessions (quick tier) replace the name `subprocess` that
`rebench.denoise_client` imported by a scripted object, and the `Popen` of
`subprocess_with_timeout` by the scripted process layer: no `sudo`, no
`denoise.py`, no benchmark process is ever executed.  (There is no `sudo` on this
machine either; `assert_no_real_sudo` refuses to run otherwise.)
"""
import contextlib
import io
import sys
import json
import os
import shutil
import signal
import subprocess
import threading
import time
import types
import _thread

import lib
import drive

lib.use_repo()

from rebench import denoise_client as dcl  # noqa: E402
from rebench.denoise import paths as denoise_paths  # noqa: E402


def assert_no_real_sudo(path_env=None, allowed=None):
    found = shutil.which('sudo', path=path_env)
    if found is not None and (allowed is None or os.path.realpath(found) != os.path.realpath(allowed)):
        raise lib.InfraError('refusing to run C20: `sudo` resolves to %s' % found)


# ------------------------------------------------------------- event log
class EventLog(object):
    def __init__(self):
        self.events = []
        self.lock = threading.Lock()

    def add(self, *ev):
        with self.lock:
            self.events.append(ev)


# ------------------------------------------------------- scripted `sudo`
JSON_OTHERS = ['scaling_governor', 'no_turbo', 'perf_event_max_sample_rate']


def report_output(report):
    """bytes printed by `sudo -n denoise --json minimize` for a model-level report"""
    def jv(v, yes):
        return {'yes': yes, 'no': False, 'failed': 'failed'}[v]
    d = {}
    for k, v in zip(JSON_OTHERS, report['others']):
        d[k] = jv(v, 'performance' if k == 'scaling_governor' else True)
    if report['nice'] is not None:
        d['can_set_nice'] = jv(report['nice'], True)
    if report['shield'] is not None:
        d['shielding'] = jv(report['shield'], '0-3')
    return json.dumps(d).encode()


class ScriptedSubprocess(object):
    """stands in for the `subprocess` module inside rebench.denoise_client"""
    CalledProcessError = subprocess.CalledProcessError
    STDOUT = subprocess.STDOUT
    PIPE = subprocess.PIPE
    DEVNULL = subprocess.DEVNULL

    def __init__(self, report, log, restore_behaviour='ok'):
        self.report = report
        self.log = log
        self.restore_behaviour = restore_behaviour

    def check_output(self, cmd, stderr=None, env=None, **kw):
        cmd = list(cmd)
        verb = 'minimize' if 'minimize' in cmd else 'restore' if 'restore' in cmd else \
            'kill' if 'kill' in cmd else 'other'
        n = None
        if verb == 'kill' and LoggedLayer.current is not None:
            try:
                pr = LoggedLayer.current._procs.get(int(cmd[-1]))
                n = pr.rec['n'] if pr is not None else None
            except ValueError:
                pass
        # `sudo` is looked up like the real Popen would: on the PATH of the environment handed over
        # (os.defpath if that has no PATH); the stand-in "lives" in /usr/bin
        search = (env if env is not None else os.environ).get('PATH', os.defpath)
        found = '/usr/bin' in search.split(':')
        self.log.add('sudo', verb, cmd, None if env is None else ('os.environ' if env is os.environ else 'other'), n,
                     found)
        if not found:
            raise FileNotFoundError(2, 'No such file or directory', 'sudo')
        if cmd[:1] != ['sudo']:
            raise lib.InfraError('denoise_client ran something that is not sudo: %r' % (cmd,))
        r = self.report
        if verb == 'minimize':
            if r['kind'] == 'json':
                # rebench-denoise exits 1 *and* prints its JSON report whenever a setting "failed"
                # (denoise.py main_func: EXIT_CODE_CHANGING_SETTINGS_FAILED)
                if 'failed' in list(r['others']) + [r['nice'], r['shield']]:
                    raise subprocess.CalledProcessError(1, cmd, output=report_output(r))
                return report_output(r)
            if r['kind'] == 'nonjson':
                if r['msg'] == 'password':
                    raise subprocess.CalledProcessError(1, cmd, output=b'sudo: a password is required\n')
                if r['msg'] == 'not_found':
                    raise subprocess.CalledProcessError(1, cmd, output=b'sudo: denoise.py: command not found\n')
                if r['msg'] == 'sudo_missing':
                    raise FileNotFoundError(2, 'No such file or directory', 'sudo')
                return b'Traceback (most recent call last):\n  something {went} wrong\n'
            if r['kind'] == 'raised':
                if r['ending'] == 'interrupt':
                    raise KeyboardInterrupt()
                raise PermissionError(13, 'Permission denied')
        if verb == 'kill' and LoggedLayer.current is not None:
            try:
                LoggedLayer.current.kill(int(cmd[-1]))   # the fake process dies, as with a real signal
            except ValueError:
                pass
        if verb in ('restore', 'kill'):
            if r['kind'] == 'nonjson' and r['msg'] == 'sudo_missing':
                raise FileNotFoundError(2, 'No such file or directory', 'sudo')
            if self.restore_behaviour == 'fails':
                raise subprocess.CalledProcessError(1, cmd, output=b'no')
            return b'{}'
        return b''


# ------------------------------------------------- process layer with ends
_BaseLayer = drive.ProcessLayer


class LoggedLayer(_BaseLayer):
    """ProcessLayer that also logs when a scripted process has ended"""
    log = None
    short_wait = 0.15
    current = None

    def __init__(self, script):
        _BaseLayer.__init__(self, script)
        LoggedLayer.current = self

    def popen(self, args, **kw):
        proc = _BaseLayer.popen(self, args, **kw)
        if not isinstance(proc, drive._FakeProc):
            return proc
        layer = self
        rec = proc.rec

        def communicate(proc=proc):
            proc.rec['stdin'] = None
            o = proc.outcome
            if o.interrupt:
                # Ctrl-C arrives while ReBench waits for the process.  A real signal: unlike
                # `_thread.interrupt_main()` it also wakes the main thread out of `Thread.join`
                time.sleep(0.03)
                os.kill(os.getpid(), signal.SIGINT)
            if o.hang or o.interrupt:
                killed = proc.killed.wait(5.0 if o.hang else layer.short_wait)
                proc.returncode = -9
                with layer.lock:
                    if not rec.get('stop_logged'):
                        rec['stop_logged'] = True
                        layer.log.add('stop', rec['n'], 'killed' if killed else 'never-killed')
            else:
                if getattr(o, 'delay', 0):
                    if proc.killed.wait(o.delay):        # killed while running
                        proc.returncode = -9
                        with layer.lock:
                            if not rec.get('stop_logged'):
                                rec['stop_logged'] = True
                                layer.log.add('stop', rec['n'], 'killed')
                        out = o.out.encode('utf-8') if isinstance(o.out, str) else o.out
                        return out, (b'' if proc._stderr_pipe else None)
                proc.returncode = o.rc
                with layer.lock:
                    if not rec.get('stop_logged'):
                        rec['stop_logged'] = True
                        layer.log.add('stop', rec['n'], 'exit')
            out = o.out.encode('utf-8') if isinstance(o.out, str) else o.out
            return out, (b'' if proc._stderr_pipe else None)
        proc.communicate = communicate
        return proc

    def kill(self, pid, *_a):
        # a process that receives SIGKILL is gone at that moment
        p = self._procs.get(pid)
        if p is not None and p.returncode is None:
            with self.lock:
                if not p.rec.get('stop_logged'):
                    p.rec['stop_logged'] = True
                    self.log.add('stop', p.rec['n'], 'killed')
        _BaseLayer.kill(self, pid)


@contextlib.contextmanager
def denoise_world(report, log, cset, num_cores, restore_behaviour='ok'):
    """scripted sudo, chosen cset path and core count for one session"""
    assert_no_real_sudo()
    saved = (dcl.subprocess, getattr(dcl, 'get_cpu_info', None), getattr(dcl, '_num_cpu_cores', None),
             denoise_paths._cset_path, drive.ProcessLayer)
    dcl.subprocess = ScriptedSubprocess(report, log, restore_behaviour)
    dcl.get_cpu_info = lambda: {'count': num_cores}
    dcl._num_cpu_cores = None
    denoise_paths.set_cset(cset if cset else False)
    LoggedLayer.log = log
    drive.ProcessLayer = LoggedLayer
    try:
        yield
    finally:
        dcl.subprocess = saved[0]
        if saved[1] is not None:
            dcl.get_cpu_info = saved[1]
        dcl._num_cpu_cores = saved[2]
        denoise_paths._cset_path = saved[3]
        drive.ProcessLayer = saved[4]


def run_denoise_session(workdir, argv, script, report, cset=None, num_cores=4, no_denoise=False,
                        restore_behaviour='ok', log=None):
    """one in-process session; returns (SessionResult, event list)"""
    log = log or EventLog()

    def logged_script(rec):
        out = script(rec)        # may raise: then no process exists
        log.add('start', rec['n'], rec['args'], rec['env'])
        return out
    with denoise_world(report, log, cset, num_cores, restore_behaviour):
        res = drive.run_session(workdir, list(argv) + (['-D'] if no_denoise else []), logged_script,
                                keep_denoise=True)
        # a scripted process that was interrupted but never killed reports its end a little later
        deadline = time.time() + 1.0
        while time.time() < deadline:
            started = sum(1 for e in log.events if e[0] == 'start')
            stopped = sum(1 for e in log.events if e[0] == 'stop')
            if stopped >= started:
                break
            time.sleep(0.02)
    return res, list(log.events)


# ------------------------------------------------------ parallel scheduler
class BrokenPipeStream(io.StringIO):
    """stdout that fails at the (ok_writes+1)-th write:
    * 'broken-pipe': its reader has left, that and every later write / flush raises BrokenPipeError;
    * 'keyboard-interrupt': Ctrl-C (or SIGTERM through ReBench's handler) arrives while that one
      write is in progress: KeyboardInterrupt is raised there, once;
    * 'sigint': a real SIGINT is delivered to the process during that write, once."""
    def __init__(self, ok_writes, mode='broken-pipe'):
        io.StringIO.__init__(self)
        self.ok_writes = ok_writes
        self.mode = mode
        self.broken_at = None

    def _check(self):
        if self.ok_writes <= 0 and (self.mode == 'broken-pipe' or self.broken_at is None):
            if self.broken_at is None:
                self.broken_at = len(self.getvalue())
            if self.mode == 'broken-pipe':
                raise BrokenPipeError(32, 'Broken pipe')
            if self.mode == 'keyboard-interrupt':
                raise KeyboardInterrupt()
            os.kill(os.getpid(), signal.SIGINT)
            time.sleep(0.01)

    def write(self, text):
        self._check()
        self.ok_writes -= 1
        return io.StringIO.write(self, text)

    def flush(self):
        if self.mode == 'broken-pipe':
            self._check()

    def isatty(self):
        return False


def run_parallel_session(workdir, argv, script, report, cpu_count=8, cset=None, num_cores=4, no_denoise=False,
                         wait=8.0, log=None, out_stream=None):
    """like `run_denoise_session`, for the parallel scheduler (`cpu_count` > 1 and runs that are
    not exclusive).  The scripted world stays in place until every `BenchmarkThread` has ended:
    after an interrupt the worker threads of the pinned tree keep starting processes, and they
    must never reach a real `Popen` / `sudo`.  Returns (SessionResult, events, threads_left)."""
    log = log or EventLog()

    def logged_script(rec):
        out = script(rec)
        log.add('start', rec['n'], rec['args'], rec['env'])
        return out
    with denoise_world(report, log, cset, num_cores):
        layer = LoggedLayer(logged_script)
        res = drive.SessionResult()
        args = ['rebench'] + list(argv) + (['-D'] if no_denoise else [])
        drive._fast_environment()
        old_cwd, old_argv, old_cpu = os.getcwd(), sys.argv, drive.rb_exec.cpu_count
        out, err = (out_stream if out_stream is not None else io.StringIO()), io.StringIO()
        os.chdir(workdir)
        sys.argv = args
        drive.rb_exec.cpu_count = lambda: cpu_count
        try:
            with contextlib.redirect_stdout(out), contextlib.redirect_stderr(err), drive.scripted(layer):
                try:
                    try:
                        ok = drive.rb_main.ReBench().run(args)
                        res.exit = 0 if ok else 1
                    except KeyboardInterrupt:
                        res.exit = 2
                    except drive.rb_main.UIError:
                        res.exit = 3
                    except drive.rb_main.BenchmarkThreadExceptions as e:
                        res.exit = 4
                        res.thread_exceptions = ['%s: %s' % (type(x).__name__, str(x)[:200]) for x in e.exceptions]
                except BaseException as e:   # what would end in a traceback
                    res.crash = (type(e).__name__, str(e)[:300], [])
                log.add('session-returned')
                # the interpreter would now wait for the non-daemon worker threads
                deadline = time.time() + wait
                left = [t for t in threading.enumerate() if t.name.startswith('BenchmarkThread')]
                for t in left:
                    t.join(max(0.0, deadline - time.time()))
                left = [t.name for t in left if t.is_alive()]
                # … and for the scripted processes they started
                while time.time() < deadline:
                    started = sum(1 for e in log.events if e[0] == 'start')
                    stopped = sum(1 for e in log.events if e[0] == 'stop')
                    if stopped >= started:
                        break
                    time.sleep(0.02)
        finally:
            os.chdir(old_cwd)
            sys.argv = old_argv
            drive.rb_exec.cpu_count = old_cpu
        res.stdout, res.stderr = out.getvalue(), err.getvalue()
        res.starts, res.kills = layer.starts, layer.kills
    return res, list(log.events), left


# ------------------------------------------- sessions in a forked child (signals that may kill)
SIG_ADAPTER = '''import builtins

from rebench.interop.rebench_log_adapter import RebenchLogAdapter


class SigAdapter(RebenchLogAdapter):
    """tells the harness when ReBench is between two benchmark processes"""

    def __init__(self, include_faulty, executor):
        RebenchLogAdapter.__init__(self, include_faulty, executor)
        builtins.rb_verif_point('before-start')

    def parse_data(self, data, run_id, invocation):
        builtins.rb_verif_point('after-end')
        return RebenchLogAdapter.parse_data(self, data, run_id, invocation)
'''


class _StreamLog(EventLog):
    """event log that also streams every event to a pipe: it survives the death of the process"""
    fd = None

    def add(self, *ev):
        EventLog.add(self, *ev)
        try:
            os.write(self.fd, (json.dumps(list(ev), default=str) + '\\n').encode())
        except OSError:
            pass


def run_forked_session(workdir, argv, script, report, sig_at=None, sig=None, cpu_count=1, num_cores=4,
                       cset=None, timeout=30.0):
    """One scripted session in a forked child process whose signal dispositions are those of a fresh
    ReBench process.  At the `sig_at`-th point between two benchmark processes (reported by the
    SigAdapter the configuration uses: before a start / after an end) the child sends itself
    `sig`.  Returns {'events': […], 'exit': code or None, 'signal': number or None, 'status': …}."""
    import builtins
    import signal as _signal
    r, w = os.pipe()
    sys.stdout.flush()
    sys.stderr.flush()
    pid = os.fork()
    if pid == 0:
        code = 0
        try:
            os.close(r)
            _signal.signal(_signal.SIGTERM, _signal.SIG_DFL)
            _signal.signal(_signal.SIGINT, _signal.default_int_handler)
            if hasattr(drive.swt, '_signals_setup'):
                drive.swt._signals_setup = False        # as in a process that has not run anything yet
            _StreamLog.fd = w
            state = {'n': 0}
            lock = threading.Lock()
            holder = {}

            def point(kind):
                with lock:
                    state['n'] += 1
                    n = state['n']
                holder['log'].add('point', n, kind)
                if sig_at is not None and n == sig_at:
                    holder['log'].add('signal', int(sig))
                    os.kill(os.getpid(), sig)
                    time.sleep(0.05)      # a handler, if any, runs in the main thread
            builtins.rb_verif_point = point
            holder['log'] = _StreamLog()
            if cpu_count > 1:
                res, _ev, left = run_parallel_session(workdir, argv, script, report, cpu_count=cpu_count,
                                                      cset=cset, num_cores=num_cores, wait=5.0, log=holder['log'])
            else:
                res, _ev = run_denoise_session(workdir, argv, script, report, cset=cset, num_cores=num_cores,
                                               log=holder['log'])
                left = []
            os.write(w, (json.dumps(['done', res.status(), res.crash, left]) + '\\n').encode())
        except BaseException:  # pylint: disable=broad-except
            import traceback
            traceback.print_exc()
            code = 5
        finally:
            os._exit(code)
    os.close(w)
    data = b''
    deadline = time.time() + timeout
    import select
    while True:
        rl, _, _ = select.select([r], [], [], max(0.0, deadline - time.time()))
        if not rl:
            os.kill(pid, 9)
            break
        chunk = os.read(r, 65536)
        if not chunk:
            break
        data += chunk
    os.close(r)
    _, status = os.waitpid(pid, 0)
    events, done = [], None
    for line in data.decode('utf-8', 'replace').split('\\n'):
        if line.strip():
            try:
                e = json.loads(line)
            except ValueError:
                continue
            if e[0] == 'done':
                done = e
            else:
                events.append(tuple(e))
    return {'events': events, 'done': done,
            'exit': os.WEXITSTATUS(status) if os.WIFEXITED(status) else None,
            'signal': os.WTERMSIG(status) if os.WIFSIGNALED(status) else None}
