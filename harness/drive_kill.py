"""Driving the real kill / time-out code (C16) from outside.

SAFETY (we are root): in scripted mode every pid is above the kernel's pid_max and
`kill` in `rebench.subprocess_kill` is replaced by a recorder. In real-process mode
only processes started by this harness are ever signalled: the `rebench` child this
module starts (its own session, `start_new_session=True`) and, for clean-up, recorded
pids whose session id in /proc equals that child's pid.
"""
import contextlib
import os
import signal
import subprocess
import sys
import threading
import time

import lib
import drive

lib.use_repo()

from rebench import subprocess_with_timeout as swt  # noqa: E402
from rebench import subprocess_kill as skill  # noqa: E402

FAKE_BASE = drive.FAKE_PID_BASE + 1000000


# ------------------------------------------------------------------ scripted pgrep / kill
class _Pgrep(object):
    returncode = 0

    def __init__(self, out):
        self._out = out

    def communicate(self):
        return self._out, b''


DISCOVERY_COMMANDS = ('pgrep', 'ps', 'pstree', 'pidof', 'pkill')
HARNESS_PGID = FAKE_BASE - 7      # the process group / session of "rebench" in the fake process table


class ProcTable(object):
    """a fake process table: parent links, process groups and sessions. A node of a tree dict may carry
    'setsid': True (it leads a new session and process group) or 'setpgid': True (a new process group);
    descendants inherit group and session of their parent."""

    # "rebench" itself in the fake table: root, no controlling terminal
    INVOKER = {'uid': 0, 'tty': '?'}

    def __init__(self):
        self.procs = {}        # pid -> {'ppid', 'pgid', 'sid', 'uid', 'tty'}
        self.order = {}        # pid -> [child pids] in the order they were started
        self.unknown = []      # discovery commands the table cannot answer (observed, answered with nothing)

    def add_tree(self, tree, ppid=1, pgid=HARNESS_PGID, sid=HARNESS_PGID, root_leads_session=False, uid=0, tty='?'):
        """a node may also carry 'tty': 'pts/N' (it runs on a pseudo terminal of its own, as under script / ssh -t;
        that implies a session of its own) or 'uid': N (it changed its user id); both are inherited"""
        pid = tree['pid']
        if tree.get('tty'):
            tty = tree['tty']
            pgid = sid = pid
        if tree.get('uid') is not None:
            uid = tree['uid']
        if root_leads_session or tree.get('setsid'):
            pgid = sid = pid
        elif tree.get('setpgid'):
            pgid = pid
        self.procs[pid] = {'ppid': ppid, 'pgid': pgid, 'sid': sid, 'uid': uid, 'tty': tty}
        self.order.setdefault(ppid, []).append(pid)
        self.order.setdefault(pid, [])
        for c in tree['children']:
            self.add_tree(c, pid, pgid, sid, uid=uid, tty=tty)
        return self

    def answer(self, command):
        """the output of a process-discovery command (pgrep, ps); a command the table does not know is recorded
        and answered with nothing: what the implementation then kills is what gets judged"""
        words = command.split()
        try:
            if words and words[0] == 'pgrep':
                return self.pgrep(command)
            if words and words[0] == 'ps':
                return self.ps(words[1:])
        except (lib.InfraError, ValueError, IndexError):
            pass
        self.unknown.append(command)
        return b''

    def ps(self, words):
        """procps `ps`: without -e / -A / ax only the processes with the invoker's effective user id AND the
        invoker's controlling terminal are selected; -o picks the columns (pid, ppid, pgid, sid, uid, tty)"""
        everything = False
        cols = ['pid', 'tty']
        i = 0
        while i < len(words):
            w = words[i]
            if w in ('-e', '-A', 'ax', 'aux', '-ax', 'axo', '-eo', '-Ao'):
                everything = True
                if w in ('axo', '-eo', '-Ao') and i + 1 < len(words):
                    cols = [c.rstrip('=') for c in words[i + 1].split(',')]
                    i += 1
            elif w in ('-o', 'o', '--format') and i + 1 < len(words):
                cols = [c.rstrip('=') for c in words[i + 1].split(',')]
                i += 1
            elif w.startswith('-o') and len(w) > 2:
                cols = [c.rstrip('=') for c in w[2:].split(',')]
            else:
                raise lib.InfraError('ps option not supported by the fake process table: %r' % w)
            i += 1
        key = {'pgrp': 'pgid', 'sess': 'sid', 'session': 'sid', 'euid': 'uid', 'tt': 'tty', 'tname': 'tty'}
        out = []
        for p in sorted(self.procs):
            r = self.procs[p]
            if everything or (r['uid'] == self.INVOKER['uid'] and r['tty'] == self.INVOKER['tty']):
                row = dict(r, pid=p)
                out.append(' '.join(str(row[key.get(c, c)]) for c in cols))
        return ('\n'.join(out) + ('\n' if out else '')).encode('ascii')

    def pgrep(self, command):
        """`pgrep [-P ppid,…] [-g pgrp,…] [-s sid,…]`: the pids that match all given criteria"""
        words = command.split()
        if not words or words[0] != 'pgrep':
            raise lib.InfraError('not a pgrep command: %r' % command)
        crit = {}
        i = 1
        while i < len(words):
            w = words[i]
            opt = {'-P': 'ppid', '--parent': 'ppid', '-g': 'pgid', '--pgroup': 'pgid', '-s': 'sid', '--session': 'sid'}.get(w)
            if opt is None or i + 1 >= len(words):
                raise lib.InfraError('pgrep option not supported by the fake process table: %r' % command)
            crit[opt] = set(int(x) for x in words[i + 1].split(','))
            i += 2
        if list(crit) == ['ppid'] and len(crit['ppid']) == 1:
            out = list(self.order.get(next(iter(crit['ppid'])), []))       # start order, as the model's tree
        else:
            out = sorted(p for p, r in self.procs.items() if all(r[k] in v for k, v in crit.items()))
        return (''.join('%d\n' % p for p in out)).encode('ascii')


class KillWorld(object):
    """answers `pgrep -P <pid>` from a table and records signals (no process is touched).

    A scripted process dies on SIGKILL, and on SIGTERM unless it ignores it; a pid in `gone` has
    already exited (a short-lived child): every signal to it raises ProcessLookupError."""

    def __init__(self, children, ignore_term=(), gone=(), table=None):
        self.children = children      # pid -> [child pids] in pgrep order
        self.table = table            # a ProcTable (groups, sessions); None: parent links only
        self.ignore_term = set(ignore_term)
        self.gone = set(gone)
        self.signals = []             # (pid, signal number) in order, including those that raised
        self.kills = []               # pids that were sent SIGKILL (attempts), in order
        self.dead = set(gone)
        self.sudo_kills = []
        self.pgreps = []

    def popen(self, args, shell=False, stdout=None, stderr=None, **kw):
        if not isinstance(args, str):
            args = ' '.join(str(a) for a in args)
        # whatever is started here is a process-discovery command (the world starts nothing else)
        self.pgreps.append(args)
        if self.table is None:
            self.table = ProcTable()
            for ppid, kids in self.children.items():
                for k in kids:
                    self.table.procs[k] = {'ppid': ppid, 'pgid': HARNESS_PGID, 'sid': HARNESS_PGID, 'uid': 0, 'tty': '?'}
                self.table.order[ppid] = list(kids)
        return _Pgrep(self.table.answer(args))

    def kill(self, pid, sig=signal.SIGKILL):
        if pid < drive.FAKE_PID_BASE:
            raise lib.InfraError('refusing to record a signal for a possibly real pid %r' % pid)
        sig = int(sig)
        self.signals.append((pid, sig))
        if sig == signal.SIGKILL:
            self.kills.append(pid)
        if pid in self.gone:
            raise ProcessLookupError(3, 'No such process')
        if sig == signal.SIGKILL or (sig == signal.SIGTERM and pid not in self.ignore_term):
            self.dead.add(pid)

    def alive(self, pids):
        return [p for p in pids if p not in self.dead]

    def sudo_kill(self, pid):
        self.sudo_kills.append(pid)

    @contextlib.contextmanager
    def active(self):
        kill_attr = 'kill'
        saved = (skill.Popen, getattr(skill, kill_attr))
        skill.Popen = self.popen
        setattr(skill, kill_attr, self.kill)
        try:
            yield self
        finally:
            skill.Popen = saved[0]
            setattr(skill, kill_attr, saved[1])


class WorkerStub(object):
    """what `kill_process` may ask of the worker thread: the whole Thread surface it could use. The worker is
    alive as long as the root process is (its output pipe is open)."""
    stdout_result, stderr_result = 'o', None
    name = 'Subprocess stub'
    daemon = False
    returncode = None
    exception = None

    def __init__(self, world, root):
        self.world = world
        self.root = root
        self.joins = []          # (time-out, signals sent so far)
        self.ident = 4712
        self.native_id = 4712

    def join(self, timeout=None):
        self.joins.append((timeout, len(self.world.signals)))

    def is_alive(self):
        return self.root not in self.world.dead

    def get_pid(self):
        return self.root


def tree_children(tree, table=None):
    table = {} if table is None else table
    table[tree['pid']] = [c['pid'] for c in tree['children']]
    for c in tree['children']:
        tree_children(c, table)
    return table


def all_pids(tree):
    out = [tree['pid']]
    for c in tree['children']:
        out += all_pids(c)
    return out


# ------------------------------------------------------------------ scripted sudo (NEVER the real one)
class SudoWorld(object):
    """replaces the `subprocess` name used by `rebench.denoise_client`: `sudo -n <denoise> --json kill <pid>`
    is recorded and, when it is scripted to succeed, the privileged side is played in-process by the real
    `rebench.denoise._kill` (whose `pgrep` / `kill` are the scripted ones of the active KillWorld / layer)"""

    STDOUT = subprocess.STDOUT
    PIPE = subprocess.PIPE
    CalledProcessError = subprocess.CalledProcessError

    def __init__(self, outcomes=None):
        self.calls = []
        self.bad = []
        self.outcomes = list(outcomes or [])     # per call: 'ok' | 'fail' | 'nosudo'

    def check_output(self, cmd, stderr=None, env=None, **kw):
        from rebench import denoise as dn
        from rebench.denoise import paths
        self.calls.append(list(cmd))
        if len(cmd) != 6 or cmd[:2] != ['sudo', '-n'] or cmd[2] != paths.get_denoise() or cmd[3:5] != ['--json', 'kill']:
            # nothing is ever executed; an unexpected command behaves like a sudo that refuses
            self.bad.append(list(cmd))
            raise subprocess.CalledProcessError(1, cmd, b'scripted sudo: unexpected command')
        outcome = self.outcomes.pop(0) if self.outcomes else 'ok'
        if outcome == 'nosudo':
            raise FileNotFoundError(2, 'No such file or directory', 'sudo')
        if outcome == 'fail':
            raise subprocess.CalledProcessError(1, cmd, b'sudo: a password is required')
        dn._kill(cmd[5])
        return b'{}'

    @contextlib.contextmanager
    def active(self):
        from rebench import denoise_client as dc
        saved = dc.subprocess
        dc.subprocess = self
        try:
            yield self
        finally:
            dc.subprocess = saved


# ------------------------------------------------------------------ stub worker thread for the decision table
class WouldDie(Exception):
    """SIGTERM would hit the default action: the process dies on the spot (observed instead of suffered)"""


def deliver_in_main_thread(sig):
    """what the arrival of `sig` does in the main thread at this point: run the handler that is installed for it
    (SIGINT: the interpreter's default_int_handler raises KeyboardInterrupt; SIGTERM: whatever ReBench installed).
    Never the default action: a SIGTERM without a Python handler is reported as WouldDie."""
    handler = signal.getsignal(sig)
    if callable(handler):
        handler(sig, sys._getframe())
        return
    if sig == signal.SIGINT:
        raise KeyboardInterrupt()
    raise WouldDie('no handler installed for signal %d' % sig)


def real_signal_to_main_thread(sig):
    """a real signal for the main thread of this (the harness's own) process; SIGTERM only if a Python handler
    is installed, otherwise the check itself would be killed"""
    if sig == signal.SIGTERM and not callable(signal.getsignal(signal.SIGTERM)):
        return False
    signal.pthread_kill(threading.main_thread().ident, sig)
    return True


class WouldBlockForEver(Exception):
    """the real code would wait for ever here (observed instead of waited for)"""


class StubThread(object):
    """stands in for `_SubprocessThread`: what the join does and what the worker's fields say is scripted"""
    cfg = None
    last = None

    def __init__(self, *a, **kw):
        self.c = dict(StubThread.cfg)
        self.main_joins = []
        self.kill_phase_joins = 0
        self.joined_once = False
        self.ended = False
        StubThread.last = self
        self.stdout_result = 'partial-out'
        self.stderr_result = None

    def start(self):
        # an interrupt that arrives while run() is still inside thread.start(): before the worker was
        # launched (no thread, no child) or just after (the worker will start the child)
        if self.c.get('start_interrupt'):
            self.ended = True
            deliver_in_main_thread(self.c.get('signal', signal.SIGINT))

    @property
    def ident(self):
        return None if self.c.get('start_interrupt') == 'before-launch' else 4711

    name = 'Subprocess stub'
    daemon = False
    _pid = property(lambda self: None if self.c.get('start_interrupt') == 'before-launch' else self.c['root'])

    def join(self, timeout=None):
        c = self.c
        if self.ended:
            self.kill_phase_joins += 1
            return
        self.main_joins.append(timeout)
        if c['join_end'] == 'interrupt':
            self.ended = True
            deliver_in_main_thread(c.get('signal', signal.SIGINT))
            raise lib.InfraError('the handler of the signal returned: the join would go on')
        if c['join_end'] == 'finished':
            self.ended = True
            return
        # deadline: the join times out; the fake clock advances by the time-out
        c['clock'][0] += timeout if timeout is not None else 0
        if timeout is None:
            raise lib.InfraError('join without time-out would block for ever on a child that never ends')
        if c['clock'][0] - c['t0'] >= c['timeout'] - 1e-9:
            self.ended = True

    def is_alive(self):
        c = self.c
        if not self.ended:
            return c['join_end'] == 'deadline' or c['join_end'] == 'interrupt'
        if self.kill_phase_joins > 0:
            # asked again after signals were sent: the worker lives as long as the root process does;
            # after an interrupted join the interpreter keeps reporting what it reported before
            root_alive = c['root'] not in c['world'].dead
            return (c['alive_reported'] and root_alive) if c['join_end'] == 'interrupt' else root_alive
        return c['alive_reported']

    def get_pid(self):
        if self.c.get('start_interrupt') == 'before-launch':
            raise WouldBlockForEver('get_pid() on a worker that was never launched')
        return self.c['root']

    @property
    def returncode(self):
        c = self.c
        if c.get('start_interrupt') == 'before-launch':
            return None          # a thread that never ran has no result either
        return None if (c['child_running'] or c['worker_raised']) else 0

    @property
    def exception(self):
        return OSError(2, 'scripted') if self.c['worker_raised'] else None


def run_decision(sit, tree, kill_tree, uses_sudo, sudo_outcomes=None, ignore_term=()):
    """the real `swt.run` on a stub thread; returns the observed trace. With `uses_sudo` the real
    `deliver_kill_signal` runs against a scripted sudo."""
    world = KillWorld(tree_children(tree), ignore_term=ignore_term, table=ProcTable().add_tree(tree, root_leads_session=True))
    sudo = SudoWorld(sudo_outcomes)
    clock = [1000.0]
    cfg = dict(sit)
    cfg.update({'root': tree['pid'], 'clock': clock, 't0': clock[0], 'world': world})
    StubThread.cfg = cfg
    saved = (swt._SubprocessThread, swt.time)
    swt._SubprocessThread = StubThread
    swt.time = lambda: clock[0]
    keep_alive = []
    trace = []
    try:
        with world.active(), sudo.active():
            try:
                r = swt.run('exe arg', env={}, cwd=None, shell=True, kill_tree=kill_tree, timeout=sit['timeout'],
                            keep_alive_output=lambda s: keep_alive.append(s), uses_sudo=uses_sudo)
                end = ['return', r[0] == swt.E_TIMEOUT]
                ret = r
            except KeyboardInterrupt:
                end = ['raise', 'KeyboardInterrupt']
                ret = None
            except SystemExit as e:
                end = ['raise', 'SystemExit(%s)' % (e.code,)]
                ret = None
            except WouldDie as e:
                end = ['dies', str(e)]
                ret = None
            except OSError:
                end = ['raise', 'worker']
                ret = None
            except WouldBlockForEver as e:
                end = ['hangs', str(e)]
                ret = None
    finally:
        swt._SubprocessThread, swt.time = saved
    st = StubThread.last
    if uses_sudo:
        kills = [int(c[5]) if len(c) > 5 and c[5].isdigit() else -1 for c in sudo.calls]
    else:
        kills = world.kills
    trace = [['kill', p] for p in kills] + [['join']] * st.kill_phase_joins + [end]
    return {'trace': trace, 'main_joins': st.main_joins, 'keep_alive': len(keep_alive), 'ret': ret,
            'sudo_calls': [c[3:] for c in sudo.calls], 'privileged_kills': list(world.kills) if uses_sudo else [],
            'signals': list(world.signals), 'left_alive': world.alive(all_pids(tree)),
            'wrong_channel': bool(sudo.calls) if not uses_sudo else False}


# ------------------------------------------------------------------ real worker thread, scripted child
class TreeLayer(drive.ProcessLayer):
    """`drive.ProcessLayer` whose scripted processes have scripted descendants (with process groups and
    sessions) for any `pgrep` query"""

    def __init__(self, script, tree_of, sigint_main=False, sig=signal.SIGINT, slow_popen=False):
        super(TreeLayer, self).__init__(script)
        self.sig = sig                     # the signal that interrupts the main thread
        self.slow_popen = slow_popen       # the signal arrives while Popen has not returned: no pid published yet
        self.sent = None
        self.tree_of = tree_of             # root fake pid -> tree dict
        self.ptable = ProcTable()
        # a real SIGINT for the main thread of this (the harness's own) process while it waits in
        # Thread.join: `_thread.interrupt_main()` does not wake a blocking lock acquire
        self.sigint_main = sigint_main
        self.in_join = threading.Event()   # set by the harness when the main thread has entered the join

    def popen(self, args, shell=False, cwd=None, stdin=None, stdout=None, stderr=None, env=None, **kw):
        if isinstance(args, str) and args.split()[:1] and args.split()[0] in DISCOVERY_COMMANDS:
            return _Pgrep(self.ptable.answer(args))
        proc = super(TreeLayer, self).popen(args, shell=shell, cwd=cwd, stdin=stdin, stdout=stdout, stderr=stderr,
                                            env=env, **kw)
        # does the child lead a session / process group of its own?
        leads = bool(kw.get('start_new_session')) or kw.get('process_group') == 0 or kw.get('preexec_fn') is not None
        self.ptable.add_tree(self.tree_of(proc.pid), ppid=os.getpid(), root_leads_session=leads)
        if self.slow_popen:
            # the child exists, but Popen is slow to return (fork / exec of a big process): the signal reaches the
            # main thread, which is already waiting, before the worker can publish the pid
            self.in_join.wait(30)
            time.sleep(0.05)
            self.sent = real_signal_to_main_thread(self.sig)
            time.sleep(0.2)
        # give the main thread time to reach Thread.join before the child "does" anything
        orig = proc.communicate

        def delayed():
            if self.sigint_main:
                # never signal before the main thread is inside run()'s try block (heavy machine load)
                self.in_join.wait(30)
            time.sleep(0.05)
            if self.sigint_main:
                self.sent = real_signal_to_main_thread(self.sig)
            return orig()
        proc.communicate = delayed
        return proc


def release(layer):
    """let scripted hanging children end (after the observation)"""
    for p in list(layer._procs.values()):
        p.killed.set()


# ------------------------------------------------------------------ real processes
NODE_SH = r'''#!/bin/sh
# one node of a process tree: record the pid, start the children, then sleep.
# Every second node ignores SIGTERM (the disposition survives the exec of sleep).
LOG="$1"; D="$2"; F="$3"; I="$4"
if [ "$I" = "1" ]; then trap '' TERM; echo "node $$ ignores-term" >> "$LOG"; else echo "node $$" >> "$LOG"; fi
if [ "$D" -gt 0 ]; then
  i=0
  while [ "$i" -lt "$F" ]; do
    /bin/sh "$0" "$LOG" $((D-1)) "$F" $(( (i + 1) % 2 )) &
    i=$((i+1))
  done
fi
exec /bin/sleep 40
'''

FORKER_PY = r'''# a multi-threaded process that starts a long-lived helper from a thread that is not its main thread
import os, subprocess, sys, threading, time
log = sys.argv[1]
with open(log, 'a') as f:
    f.write('node %d python\n' % os.getpid())


def helper():
    p = subprocess.Popen(['/bin/sleep', '40'], stdout=subprocess.DEVNULL, stderr=subprocess.DEVNULL)
    with open(log, 'a') as f:
        f.write('node %d forked-by-thread\n' % p.pid)
    p.wait()


threading.Thread(target=helper).start()
# ... and a helper that leads a session (and process group) of its own, with a child below it
p2 = subprocess.Popen(['/bin/sh', '-c', 'echo "node $$ own-session" >> "$0"; /bin/sleep 40 & echo "node $! own-session-child" >> "$0"; wait',
                       log], stdout=subprocess.DEVNULL, stderr=subprocess.DEVNULL, start_new_session=True)
# ... and a worker on a pseudo terminal of its own (as under script / ssh -t) that survives the hang-up
import pty, signal
wpid, _fd = pty.fork()
if wpid == 0:
    signal.signal(signal.SIGHUP, signal.SIG_IGN)
    with open(log, 'a') as f:
        f.write('node %d own-pty\\n' % os.getpid())
    os.execv('/bin/sleep', ['/bin/sleep', '40'])
time.sleep(40)
'''

HARNESS_SH = r'''#!/bin/sh
# benchmark harness: <dir> <benchmark>; behaviour from <dir>/<benchmark>.plan: "<mode> <depth> <fanout>"
DIR="$1"; B="$2"
read MODE D F PY K L BAD < "$DIR/$B.plan"
LOG="$DIR/$B.log"
if [ "$MODE" = "hangat" ]; then
  # hang in the K-th invocation only: the earlier ones end normally (the signal then arrives while a later
  # process of the session runs)
  N=0
  [ -f "$DIR/$B.count" ] && read N < "$DIR/$B.count"
  N=$((N+1))
  echo "$N" > "$DIR/$B.count"
  if [ "$N" -lt "$K" ]; then MODE=normal; else MODE=hang; fi
fi
echo "start $$ $PPID" >> "$LOG"
echo "$B: iterations=1 runtime: 111ms"
if [ "$BAD" = "1" ] && [ "$MODE" != "hang" ]; then
  # output that is not UTF-8 (a binary progress bar, a Latin-1 name): it must not disturb anything
  printf 'caf\351 \377\376 \200\n'
fi
# a burst of output right away (L data points): it is in the pipe long before ReBench reads it
j=0
while [ "$j" -lt "${L:-0}" ]; do echo "$B: iterations=1 runtime: ${j}ms"; j=$((j+1)); done
if [ "$MODE" = "hang" ]; then
  i=0
  while [ "$i" -lt "$F" ] && [ "$D" -gt 0 ]; do
    # the nodes do not hold the harness's output pipe: when the harness is gone the worker thread sees EOF
    /bin/sh "$DIR/node.sh" "$LOG" $((D-1)) "$F" $(( (i + 1) % 2 )) > /dev/null 2>&1 &
    i=$((i+1))
  done
  if [ -n "$PY" ] && [ "$PY" != "0" ]; then
    "$PY" "$DIR/forker.py" "$LOG" > /dev/null 2>&1 &
  fi
  echo "spawned" >> "$LOG"
  if [ "$BAD" = "1" ]; then
    # ... also from a process that then runs into the deadline, with its tree already started
    /bin/sleep 0.3
    printf 'caf\351 \377\376 \200\n'
  fi
  /bin/sleep 40
  echo "$B: iterations=2 runtime: 222ms"
  echo "late" >> "$LOG"
else
  echo "$B: iterations=2 runtime: 222ms"
  echo "done" >> "$LOG"
fi
'''


def node_count(depth, fanout):
    """processes below the harness for `hang <depth> <fanout>`"""
    if depth <= 0:
        return 0
    n, level = 0, fanout
    for _ in range(depth):
        n += level
        level *= fanout
    return n


def proc_state(pid):
    """'dead' (gone or zombie) or 'alive'; plus the session id"""
    try:
        with open('/proc/%d/stat' % pid) as f:
            s = f.read()
    except (IOError, OSError):
        return 'dead', None
    rest = s[s.rindex(')') + 2:].split()
    state, sid = rest[0], int(rest[3])
    return ('dead' if state in ('Z', 'X') else 'alive'), sid


def read_log(path):
    pids, marks = [], []
    if os.path.exists(path):
        for line in open(path):
            w = line.split()
            if not w:
                continue
            if w[0] in ('node', 'start'):
                pids.append(int(w[1]))
                if w[0] == 'start' and len(w) > 2:
                    pids.append(int(w[2]))       # the `sh -c` wrapper (or rebench itself when sh exec'ed)
            marks.append(w[0])
    return pids, marks


def is_our_sleeper(pid):
    """a recorded pid that left the session: only ever a `/bin/sleep 40` or a `/bin/sh -c … /bin/sleep 40 …` of
    the harness scripts (checked before anything is signalled)"""
    try:
        with open('/proc/%d/cmdline' % pid, 'rb') as f:
            cmd = f.read().split(b'\0')
    except (IOError, OSError):
        return False
    return cmd[:2] == [b'/bin/sleep', b'40'] or (cmd[:2] == [b'/bin/sh', b'-c'] and b'own-session' in cmd[2])


def session_members(sid):
    """pids of live (non-zombie) processes whose session id is `sid`"""
    out = []
    for name in os.listdir('/proc'):
        if not name.isdigit():
            continue
        st, s = proc_state(int(name))
        if st == 'alive' and s == sid:
            out.append(int(name))
    return out


class RealSession(object):
    """one real `rebench` CLI process in its own session"""

    def __init__(self, wd, conf, extra_args=(), popen_delay=0, sigint_ignored=False):
        code = ('import sys; sys.path.insert(0, %r); from rebench.rebench import main_func; sys.exit(main_func())'
                % lib.REPO)
        if popen_delay:
            # a driver in which Popen is slow to return (the child exists, its pid is not published yet)
            code = ('import sys, time; sys.path.insert(0, %r); import rebench.subprocess_with_timeout as swt; '
                    '_P = swt.Popen\n'
                    'def slow(*a, **k):\n'
                    '    p = _P(*a, **k); time.sleep(%r); return p\n'
                    'swt.Popen = slow\n'
                    'from rebench.rebench import main_func; sys.exit(main_func())' % (lib.REPO, popen_delay))
        env = {'PATH': '/usr/bin:/bin', 'PYTHONHASHSEED': '0', 'PYTHONDONTWRITEBYTECODE': '1', 'HOME': wd}
        self.out = open(os.path.join(wd, 'rebench.out'), 'w')
        # `sigint_ignored`: started like `cmd &` from a shell without job control, which leaves SIGINT ignored
        self.proc = subprocess.Popen([sys.executable, '-c', code, '-D'] + list(extra_args) + [conf], cwd=wd, env=env,
                                     stdout=self.out, stderr=subprocess.STDOUT, start_new_session=True,
                                     preexec_fn=(lambda: signal.signal(signal.SIGINT, signal.SIG_IGN)) if sigint_ignored else None)
        self.pid = self.proc.pid

    def signal(self, sig):
        # only the process this object started
        if self.proc.poll() is None:
            os.kill(self.pid, sig)

    def wait(self, timeout):
        try:
            rc = self.proc.wait(timeout)
        except subprocess.TimeoutExpired:
            rc = None
        return rc

    def cleanup(self, pids):
        """SIGKILL what is left — only processes of this session"""
        left = []
        for p in set(pids) | set(session_members(self.pid)):
            if p == self.pid:
                continue
            st, sid = proc_state(p)
            if st == 'alive' and (sid == self.pid or (p in pids and is_our_sleeper(p))):
                left.append(p)
                try:
                    os.kill(p, signal.SIGKILL)
                except OSError:
                    pass
        if self.proc.poll() is None:
            self.proc.kill()
            self.proc.wait(10)
        self.out.close()
        return left


def main_thread_sleeping(pid):
    """is the main thread of the process in interruptible sleep (three samples, 20 ms apart)?"""
    for _ in range(3):
        try:
            with open('/proc/%d/task/%d/stat' % (pid, pid)) as f:
                st = f.read()
        except (IOError, OSError):
            return True
        if st[st.rindex(')') + 2:].split()[0] != 'S':
            return False
        time.sleep(0.02)
    return True


def thread_diagnostics(pid):
    """signal masks / pending sets and wait channels of every thread of a process that does not exit"""
    out = {}
    try:
        for tid in sorted(os.listdir('/proc/%d/task' % pid), key=int):
            d = {}
            for line in open('/proc/%d/task/%s/status' % (pid, tid)):
                k = line.split(':')[0]
                if k in ('State', 'SigPnd', 'ShdPnd', 'SigBlk', 'SigIgn', 'SigCgt'):
                    d[k] = line.split(':', 1)[1].strip()
            try:
                d['wchan'] = open('/proc/%d/task/%s/wchan' % (pid, tid)).read()
            except (IOError, OSError):
                pass
            out[tid] = d
    except (IOError, OSError) as e:
        out['error'] = repr(e)
    return out


def wait_until(pred, timeout, step=0.02):
    t0 = time.time()
    while time.time() - t0 < timeout:
        if pred():
            return True
        time.sleep(step)
    return pred()


def write_real_scenario(wd, benchmarks, limit, ignore_timeouts, invocations=1, forker=False, lines=0, exclusive=True,
                        bad_bytes=False):
    """benchmarks: list of (name, mode, depth, fanout)"""
    with open(os.path.join(wd, 'node.sh'), 'w') as f:
        f.write(NODE_SH)
    with open(os.path.join(wd, 'harness.sh'), 'w') as f:
        f.write(HARNESS_SH)
    with open(os.path.join(wd, 'forker.py'), 'w') as f:
        f.write(FORKER_PY)
    for (b, mode, d, fo) in benchmarks:
        with open(os.path.join(wd, b + '.plan'), 'w') as f:
            f.write('%s %d %d %s %d %d %d\n' % (mode, d, fo, sys.executable if (forker and mode != 'normal') else '0',
                                                invocations, lines, 1 if bad_bytes else 0))
    suite = {'gauge_adapter': 'RebenchLog', 'command': '%s/harness.sh %s %%(benchmark)s' % (wd, wd),
             'benchmarks': [b for (b, _m, _d, _f) in benchmarks], 'max_invocation_time': limit,
             'ignore_timeouts': bool(ignore_timeouts)}
    cfg = {'default_experiment': 'T', 'default_data_file': 't.data',
           'runs': dict({'invocations': invocations}, **({} if exclusive else {'execute_exclusively': False})),
           'benchmark_suites': {'S': suite}, 'executors': {'E': {'path': '/bin', 'executable': 'sh'}},
           'experiments': {'T': {'suites': ['S'], 'executions': ['E']}}}
    return drive.write_config(wd, cfg)


_threads_lock = threading.Lock()
