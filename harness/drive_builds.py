"""C13 — driving real sessions with scripted build scripts, and the deterministic
thread controller for the parallel scheduler (DESIGN.md 2.4).

Scheduling points of a worker thread:
  'begin'  – the thread has been started and has not run any ReBench code yet
  'pstart' – entry of `subprocess_with_timeout.run` (between ReBench's check of the
             build flags and the start of the script / benchmark process)
  'pend'   – exit of `subprocess_with_timeout.run` (the process is over, its result has
             not been looked at: not yet marked)
  'lock'   – a *contended* acquisition of a lock created by rebench.executor /
             rebench.model.build_cmd during the session (enabled when the lock is free)
Exactly one worker runs between two points; which one is released next is decided by
`choose(enabled)`. The sequence of released workers (`picks`) is the schedule that is
handed to the Lean model. A schedule that gets stuck is tooling trouble
(`lib.InfraError`), never a finding.
"""
import threading

import lib
import drive

lib.use_repo()

from rebench import subprocess_with_timeout as swt  # noqa: E402
from rebench import executor as rb_exec  # noqa: E402
from rebench import rebench as rb_main  # noqa: E402
from rebench import configurator as rb_conf  # noqa: E402
from rebench.model import build_cmd as rb_build  # noqa: E402

STUCK_TIMEOUT = 30.0


class Controller(object):
    def __init__(self, choose):
        self.choose = choose
        self.mu = threading.Lock()
        self.ids = {}        # thread -> worker id (start order)
        self.state = {}      # id -> 'new' | 'running' | 'wait' | 'done'
        self.wait_lock = {}  # id -> instrumented lock it waits for (or None)
        self.kind = {}       # id -> kind of the point it waits at
        self.sems = {}
        self.started_all = False
        self.active = None
        self.picks = []      # released worker ids, in order
        self.pick_kinds = []
        self.stuck = None
        self.free_run = False

    # -- registration (called in the starting thread, before the worker runs)
    def register(self, thread):
        with self.mu:
            wid = len(self.ids)
            self.ids[thread] = wid
            self.state[wid] = 'new'
            self.sems[wid] = threading.Semaphore(0)
        return wid

    def wid(self):
        return self.ids.get(threading.current_thread())

    def all_started(self):
        with self.mu:
            if not self.started_all:
                self.started_all = True
                self._dispatch()

    def _dispatch(self):
        if self.free_run or not self.started_all or self.active is not None:
            return
        if any(s == 'new' for s in self.state.values()):
            return
        waiting = sorted(w for w, s in self.state.items() if s == 'wait')
        if not waiting:
            return
        enabled = [w for w in waiting if self.wait_lock.get(w) is None or self.wait_lock[w].owner is None]
        if not enabled:
            self._give_up('deadlock: every waiting worker waits for a held lock')
            return
        w = self.choose(enabled)
        if w not in enabled:
            w = enabled[0]
        self.picks.append(w)
        self.pick_kinds.append(self.kind.get(w))
        self.active = w
        self.state[w] = 'running'
        self.sems[w].release()

    def _give_up(self, why):
        if self.stuck is None:
            self.stuck = why
        self.free_run = True
        for w, s in self.state.items():
            if s == 'wait':
                self.state[w] = 'running'
                self.sems[w].release()

    def point(self, kind, lock=None):
        wid = self.wid()
        if wid is None or self.free_run:
            return
        with self.mu:
            self.state[wid] = 'wait'
            self.kind[wid] = kind
            self.wait_lock[wid] = lock
            if self.active == wid:
                self.active = None
            self._dispatch()
        if not self.sems[wid].acquire(timeout=STUCK_TIMEOUT):
            with self.mu:
                self._give_up('worker %d waited more than %ss at %s' % (wid, STUCK_TIMEOUT, kind))

    def finished(self):
        wid = self.wid()
        if wid is None:
            return
        with self.mu:
            self.state[wid] = 'done'
            if self.active == wid:
                self.active = None
            self._dispatch()


class CtlLock(object):
    """stands in for threading.Lock / RLock objects created by ReBench during a
    controlled session; a contended acquisition by a worker is a scheduling point"""

    def __init__(self, ctl):
        self.ctl = ctl
        self.real = threading.RLock()
        self.owner = None
        self.count = 0

    def acquire(self, blocking=True, timeout=-1):
        me = threading.current_thread()
        if self.owner is not me and self.owner is not None and self.ctl.wid() is not None \
                and not self.ctl.free_run:
            self.ctl.point('lock', lock=self)
        ok = self.real.acquire(blocking, timeout)
        if ok:
            self.owner = me
            self.count += 1
        return ok

    def release(self):
        self.count -= 1
        if self.count == 0:
            self.owner = None
        self.real.release()

    def __enter__(self):
        self.acquire()
        return self

    def __exit__(self, *a):
        self.release()


class LazyOutcome(drive.Outcome):
    """the return code of a scripted `/bin/sh` depends on the script it was fed on
    stdin, which is known only after Popen returned"""

    def __init__(self, rec, rc_of, out=''):
        drive.Outcome.__init__(self, rc=0, out=out)
        self._rec = rec
        self._rc_of = rc_of

    @property
    def rc(self):
        return self._rc_of(self._rec)

    @rc.setter
    def rc(self, _v):
        pass


class BuildSession(object):
    """result of one instrumented session"""

    def __init__(self):
        self.res = None          # drive.SessionResult
        self.events = []         # ('pstart'|'pend', worker id or None, info dict)
        self.run_order = None    # [(exec, suite, bench)] in the order the executor iterates
        self.all_runs = None     # same before the --setup-only selection
        self.status = {}         # (exec, suite, bench) -> dict(is_failed, completed)
        self.done0 = {}          # (exec, suite, bench) -> invocations recorded before this session
        self.picks = []
        self.pick_kinds = []
        self.stuck = None
        self.choices_used = 0
        self.threads = 0


def run_key(run):
    return (run.benchmark.suite.executor.name, run.benchmark.suite.name, run.benchmark.name)


def run_build_session(workdir, conf, argv, build_result, cpu_count=1, choices=None, choose=None, bench_rc=None, oserr_errno=2):
    """one session; `build_result(script, cwd)` -> 'ok' | 'fail' | 'oserr'.

    choices: values for random.choice (index = value % len); choose: the thread
    controller's decision function (enabled worker ids -> id)."""
    for name in ('run',):
        if not hasattr(swt, name):
            raise lib.InfraError('patch point subprocess_with_timeout.%s has disappeared' % name)
    bs = BuildSession()
    log_mu = threading.Lock()
    ctl = Controller(choose or (lambda enabled: enabled[0]))
    choices = list(choices or [])

    def script(rec):
        if rec['args'] == '/bin/sh' and not rec['shell']:
            if build_result(None, rec['cwd']) == 'oserr':
                return drive.Outcome(oserror=oserr_errno)
            return LazyOutcome(rec, lambda r: 0 if build_result(r['stdin'], r['cwd']) == 'ok' else 1,
                               out='build output\n')
        if bench_rc is not None:
            rc = bench_rc(rec)
            if rc != 0:
                return drive.Outcome(rc=rc, out='benchmark failed\n')
        return drive.Outcome(rc=0, out='1.0\n')

    orig_run = swt.run

    def run_wrapper(args, env, cwd=None, *a, **kw):
        ctl.point('pstart')
        stdin = kw.get('stdin_input')
        with log_mu:
            bs.events.append(('pstart', ctl.wid(), {
                'args': args, 'cwd': cwd, 'env': None if env is None else dict(env),
                'run': getattr(current, 'run', None),
                'stdin': None if stdin is None else stdin.decode('utf-8', 'replace')}))
        exc = None
        try:
            result = orig_run(args, env, cwd, *a, **kw)
        except OSError as e:
            exc = e
        ctl.point('pend')
        with log_mu:
            bs.events.append(('pend', ctl.wid(), {
                'args': args, 'cwd': cwd,
                'stdin': None if stdin is None else stdin.decode('utf-8', 'replace'),
                'rc': None if exc is not None else result[0],
                'exc': type(exc).__name__ if exc is not None else None}))
        if exc is not None:
            raise exc
        return result

    # which run is being executed by this thread (for the oracle: the run that triggers a build)
    current = threading.local()
    orig_execute_run = getattr(rb_exec.Executor, 'execute_run', None)

    def execute_run(self, run_id, *a, **kw):
        current.run = run_key(run_id)
        try:
            return orig_execute_run(self, run_id, *a, **kw)
        finally:
            current.run = None

    def random_choice(seq):
        bs.choices_used += 1
        k = choices.pop(0) if choices else 0
        return seq[k % len(seq)]

    orig_exec_exp = rb_main.ReBench.execute_experiment
    orig_get_runs = rb_conf.Configurator.get_runs
    captured = {}

    def exec_exp(self, runs, *a, **kw):
        captured['runs'] = runs
        bs.run_order = [run_key(r) for r in runs]
        # invocations recorded by earlier sessions (data file loaded before this point)
        bs.done0 = {run_key(r): r.completed_invocations for r in runs}
        return orig_exec_exp(self, runs, *a, **kw)

    def get_runs(self):
        if self.options and self.options.setup_only:
            self.options.setup_only = False
            try:
                bs.all_runs = [run_key(r) for r in orig_get_runs(self)]
            finally:
                self.options.setup_only = True
        return orig_get_runs(self)

    orig_start = threading.Thread.start
    orig_join = threading.Thread.join
    sub_cls = getattr(swt, '_SubprocessThread', None)

    def t_start(t):
        if (sub_cls is None or not isinstance(t, sub_cls)) and threading.current_thread() is threading.main_thread():
            ctl.register(t)
            bs.threads += 1
            inner = t.run

            def run():
                ctl.point('begin')
                try:
                    inner()
                finally:
                    ctl.finished()
            t.run = run
        return orig_start(t)

    def t_join(t, timeout=None):
        if t in ctl.ids and threading.current_thread() is threading.main_thread():
            ctl.all_started()
        return orig_join(t, timeout)

    lock_patches = []
    parallel = cpu_count > 1
    if parallel:
        for mod in (rb_exec, rb_build):
            for name in ('Lock', 'RLock'):
                if hasattr(mod, name):
                    lock_patches.append((mod, name, getattr(mod, name)))
    swt.run = run_wrapper
    if orig_execute_run is not None:
        rb_exec.Executor.execute_run = execute_run
    rb_main.ReBench.execute_experiment = exec_exp
    rb_conf.Configurator.get_runs = get_runs
    if parallel:
        threading.Thread.start = t_start
        threading.Thread.join = t_join
        for mod, name, _o in lock_patches:
            setattr(mod, name, lambda *a, **k: CtlLock(ctl))
    try:
        bs.res = drive.run_session(workdir, list(argv) + [conf], script, cpu_count=cpu_count,
                                   random_choice=random_choice)
    finally:
        swt.run = orig_run
        if orig_execute_run is not None:
            rb_exec.Executor.execute_run = orig_execute_run
        rb_main.ReBench.execute_experiment = orig_exec_exp
        rb_conf.Configurator.get_runs = orig_get_runs
        if parallel:
            threading.Thread.start = orig_start
            threading.Thread.join = orig_join
            for mod, name, o in lock_patches:
                setattr(mod, name, o)
    for r in captured.get('runs') or []:
        bs.status[run_key(r)] = {'is_failed': bool(r.is_failed), 'completed': r.completed_invocations}
    bs.picks = ctl.picks
    bs.pick_kinds = ctl.pick_kinds
    bs.stuck = ctl.stuck
    return bs
