"""C19 — a whole session through the real `main_func` (argument parsing, `ReBench.run`,
and the rendering of a UIError by `UI.error`), in-process, with scripted processes.

`drive.run_session` stops at the UIError; what `main_func` does with its message (it is
rendered with str.format) is part of "terminates with a user-facing message", so C19
drives `main_func` itself.
"""
import contextlib
import io
import os
import sys
import traceback

import lib
import drive

lib.use_repo()
from rebench import rebench as rb_main  # noqa: E402
from rebench import executor as rb_exec  # noqa: E402


class MainResult(object):
    def __init__(self):
        self.exit = None
        self.crash = None      # (class, message, last frames)
        self.stdout = ''
        self.stderr = ''
        self.compiled = False  # the configuration was loaded and compiled (runs exist)
        self.runs = None       # canonical description of the compiled runs

    def status(self):
        if self.crash:
            return 'crash:' + self.crash[0]
        return {0: 'ok', 1: 'failed', 2: 'aborted', 3: 'ui_error', 4: 'thread_exc'}.get(self.exit, 'exit%s' % self.exit)


def describe_run(r):
    d = r.benchmark.run_details
    return repr((r.benchmark.suite.executor.name, r.benchmark.suite.name, r.benchmark.name, r.cores, r.input_size,
                 r.var_value, r.tag, r.machine, d.invocations, d.iterations, d.warmup, d.min_iteration_time,
                 d.max_invocation_time, d.retries_after_failure, d.execute_exclusively, d.ignore_timeouts,
                 sorted((d.env or {}).items(), key=repr), r.benchmark.extra_args, r.benchmark.command,
                 r.benchmark.suite.command, r.benchmark.suite.location, r.benchmark.suite.executor.path))


def run_main(workdir, argv):
    drive._fast_environment()
    res = MainResult()
    argv = ['rebench', '-D'] + list(argv)   # safety: never touch system settings (we are root)
    layer = drive.ProcessLayer(lambda rec: drive.Outcome(rc=0, out=''))
    old_cwd, old_argv, old_cpu = os.getcwd(), sys.argv, rb_exec.cpu_count
    orig = rb_main.ReBench.load_data_and_execute_experiments

    def wrapped(self, *a, **kw):
        res.compiled = True
        try:
            res.runs = sorted(describe_run(r) for r in a[0])
        except Exception as e:  # a description problem must not look like a ReBench failure
            res.runs = ['<not describable: %s>' % type(e).__name__]
        return orig(self, *a, **kw)
    out, err = io.StringIO(), io.StringIO()
    os.chdir(workdir)
    sys.argv = argv
    rb_exec.cpu_count = lambda: 1
    rb_main.ReBench.load_data_and_execute_experiments = wrapped
    try:
        with contextlib.redirect_stdout(out), contextlib.redirect_stderr(err), drive.scripted(layer):
            try:
                res.exit = rb_main.main_func()
            except SystemExit as e:
                res.exit = e.code if isinstance(e.code, int) else 1
            except BaseException as e:  # what ends in a traceback
                tb = traceback.extract_tb(e.__traceback__)
                res.crash = (type(e).__name__, str(e)[:300],
                             ['%s:%s' % (os.path.basename(f.filename), f.name) for f in tb[-4:]])
    finally:
        os.chdir(old_cwd)
        sys.argv = old_argv
        rb_exec.cpu_count = old_cpu
        rb_main.ReBench.load_data_and_execute_experiments = orig
    res.stdout, res.stderr = out.getvalue(), err.getvalue()
    return res
