"""C19 — a whole session through the real `main_func` (argument parsing, `ReBench.run`,
and the rendering of a UIError by `UI.error`), in-process, with scripted processes.

`drive.run_session` stops at the UIError; what `main_func` does with its message (it is
rendered with str.format) is part of "terminates with a user-facing message", so C19
drives `main_func` itself.
"""
import contextlib
import io
import os
import sys
import traceback

import lib
import drive

lib.use_repo()
from rebench import rebench as rb_main  # noqa: E402
from rebench import executor as rb_exec  # noqa: E402


class MainResult(object):
    def __init__(self):
        self.exit = None
        self.crash = None      # (class, message, last frames)
        self.stdout = ''
        self.stderr = ''
        self.compiled = False  # the configuration was loaded and compiled (runs exist)
        self.runs = None       # canonical description of the compiled runs

    def status(self):
        if self.crash:
            return 'crash:' + self.crash[0]
        return {0: 'ok', 1: 'failed', 2: 'aborted', 3: 'ui_error', 4: 'thread_exc'}.get(self.exit, 'exit%s' % self.exit)


def describe_run(r):
    d = r.benchmark.run_details
    return repr((r.benchmark.suite.executor.name, r.benchmark.suite.name, r.benchmark.name, r.cores, r.input_size,
                 r.var_value, r.tag, r.machine, d.invocations, d.iterations, d.warmup, d.min_iteration_time,
                 d.max_invocation_time, d.retries_after_failure, d.execute_exclusively, d.ignore_timeouts,
                 sorted((d.env or {}).items(), key=repr), r.benchmark.extra_args, r.benchmark.command,
                 r.benchmark.suite.command, r.benchmark.suite.location, r.benchmark.suite.executor.path))


def run_main(workdir, argv, cpu_count=1):
    drive._fast_environment()
    res = MainResult()
    argv = ['rebench', '-D'] + list(argv)   # safety: never touch system settings (we are root)
    layer = drive.ProcessLayer(lambda rec: drive.Outcome(rc=0, out=''))
    old_cwd, old_argv, old_cpu = os.getcwd(), sys.argv, rb_exec.cpu_count
    orig = rb_main.ReBench.load_data_and_execute_experiments

    def wrapped(self, *a, **kw):
        res.compiled = True
        try:
            res.runs = sorted(describe_run(r) for r in a[0])
        except Exception as e:  # a description problem must not look like a ReBench failure
            res.runs = ['<not describable: %s>' % type(e).__name__]
        return orig(self, *a, **kw)
    out, err = io.StringIO(), io.StringIO()
    os.chdir(workdir)
    sys.argv = argv
    rb_exec.cpu_count = lambda: cpu_count
    rb_main.ReBench.load_data_and_execute_experiments = wrapped
    try:
        with contextlib.redirect_stdout(out), contextlib.redirect_stderr(err), drive.scripted(layer):
            try:
                res.exit = rb_main.main_func()
            except SystemExit as e:
                res.exit = e.code if isinstance(e.code, int) else 1
            except BaseException as e:  # what ends in a traceback
                tb = traceback.extract_tb(e.__traceback__)
                res.crash = (type(e).__name__, str(e)[:300],
                             ['%s:%s' % (os.path.basename(f.filename), f.name) for f in tb[-4:]])
    finally:
        os.chdir(old_cwd)
        sys.argv = old_argv
        rb_exec.cpu_count = old_cpu
        rb_main.ReBench.load_data_and_execute_experiments = orig
    res.stdout, res.stderr = out.getvalue(), err.getvalue()
    return res


# ------------------------------------------------------------------ real CLI in a child process
def run_cli(workdir, argv, env_extra=None, timeout=120):
    """`python -m rebench.rebench -D <argv>` as a child process with cwd = workdir: the things an
    in-process session cannot show (git of the working directory, locale, encoding of stdout)."""
    import subprocess
    env = {'PYTHONPATH': lib.REPO, 'PYTHONDONTWRITEBYTECODE': '1', 'PYTHONHASHSEED': '0',
           'PATH': os.environ.get('PATH', '/usr/bin:/bin'), 'HOME': workdir, 'LC_ALL': 'C.UTF-8'}
    env.update(env_extra or {})
    p = subprocess.run([sys.executable, '-B', '-m', 'rebench.rebench', '-D'] + list(argv), cwd=workdir, env=env,
                       stdout=subprocess.PIPE, stderr=subprocess.PIPE, timeout=timeout)
    out = p.stdout.decode('utf-8', 'replace')
    err = p.stderr.decode('utf-8', 'replace')
    crash = None
    if 'Traceback (most recent call last)' in err or 'Traceback (most recent call last)' in out:
        import re as _re
        names = _re.findall(r'^([A-Za-z_][\w.]*(?:Error|Exception|Interrupt|Exit|Warning))\b', err + '\n' + out, _re.M)
        crash = names[-1].split('.')[-1] if names else 'Traceback'
    res = MainResult()
    res.exit = p.returncode
    res.stdout, res.stderr = out, err
    if crash:
        res.crash = (crash, (err or out)[-300:], [])
    return res


def make_git_repo(path, kind):
    """a scratch git repository whose HEAD is plain ASCII ('ascii'), has a UTF-8 non-ASCII author and
    message ('utf8'), the same printed in Latin-1 (`i18n.logOutputEncoding`, 'latin1-log'), or is a raw
    commit object with Latin-1 bytes and no encoding header ('latin1-raw')"""
    import subprocess
    os.makedirs(path)
    name = b'Dev' if kind == 'ascii' else 'J\u00fcrgen M\u00fcller'.encode('utf-8')
    msg = b'Add benchmarks\n' if kind == 'ascii' else 'Benchmarks hinzugef\u00fcgt\n'.encode('utf-8')
    env = {os.fsencode(k): os.fsencode(v) for k, v in
           {'PATH': os.environ.get('PATH', '/usr/bin:/bin'), 'HOME': path, 'GIT_CONFIG_NOSYSTEM': '1'}.items()}
    env[b'GIT_AUTHOR_NAME'] = env[b'GIT_COMMITTER_NAME'] = name if kind != 'latin1-raw' else b'Dev'
    env[b'GIT_AUTHOR_EMAIL'] = env[b'GIT_COMMITTER_EMAIL'] = b'dev@example.org'

    def git(args, **kw):
        return subprocess.run(['git', '-C', path] + args, env=env, check=True, stdout=subprocess.PIPE,
                              stderr=subprocess.DEVNULL, **kw)
    git(['init', '-q'])
    if kind == 'unborn':
        return path   # a repository without any commit: HEAD does not resolve
    with open(os.path.join(path, 'README'), 'w') as f:
        f.write('benchmarks\n')
    with open(os.path.join(path, 'msg.txt'), 'wb') as f:
        f.write(msg if kind != 'latin1-raw' else b'Add benchmarks\n')
    git(['add', 'README'])
    git(['-c', 'commit.gpgsign=false', 'commit', '-q', '-F', 'msg.txt'])
    if kind == 'latin1-log':
        git(['config', 'i18n.logOutputEncoding', 'ISO-8859-1'])
    if kind == 'latin1-raw':
        tree = git(['rev-parse', 'HEAD^{tree}']).stdout.strip()
        person = 'J\u00fcrgen M\u00fcller'.encode('latin-1') + b' <dev@example.org> 1700000000 +0000'
        commit = (b'tree ' + tree + b'\nauthor ' + person + b'\ncommitter ' + person + b'\n\n'
                  + 'Benchmarks hinzugef\u00fcgt'.encode('latin-1') + b'\n')
        oid = git(['hash-object', '-t', 'commit', '-w', '--stdin'], input=commit).stdout.strip().decode()
        git(['update-ref', 'HEAD', oid])
    return path
