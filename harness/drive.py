"""Driving the real ReBench code in-process (DESIGN.md section 2.4).

* `ScriptedPopen` replaces the `Popen` name imported by
  `rebench.subprocess_with_timeout` (and by `rebench.subprocess_kill`):
  no process is created; what happens is decided by a script function.
* `run_session` runs one whole ReBench session (`ReBench().run(argv)` wrapped
  like `main_func`) in a scratch directory and returns what it did.
"""
import contextlib
import io
import json
import os
import sys
import threading
import _thread

import yaml

import lib

lib.use_repo()

from rebench import subprocess_with_timeout as swt  # noqa: E402
from rebench import subprocess_kill as skill  # noqa: E402
from rebench import rebench as rb_main  # noqa: E402
from rebench import environment as rb_env  # noqa: E402
from rebench import executor as rb_exec  # noqa: E402


FAKE_PID_BASE = 5000000  # above kernel pid_max (4194304): no real process can have it


class Outcome(object):
    """what a scripted process does"""
    def __init__(self, rc=0, out='', oserror=None, hang=False, interrupt=False):
        self.rc = rc
        self.out = out
        self.oserror = oserror      # errno -> Popen raises OSError
        self.hang = hang            # never finishes until killed
        self.interrupt = interrupt  # deliver KeyboardInterrupt to the main thread, then hang


class _FakeStdin(object):
    def __init__(self):
        self.data = b''

    def write(self, b):
        self.data += b

    def flush(self):
        pass

    def close(self):
        pass


class ProcessLayer(object):
    """records process starts and answers them from `script(start) -> Outcome`"""

    def __init__(self, script):
        self.script = script
        self.starts = []       # dicts: n, args, cwd, env, shell, stdin
        self.kills = []        # pids
        self.lock = threading.Lock()
        self._procs = {}
        self._next_pid = FAKE_PID_BASE

    def popen(self, args, shell=False, cwd=None, stdin=None, stdout=None, stderr=None, env=None, **kw):
        layer = self
        if isinstance(args, str) and args.startswith('pgrep -P'):
            return _PgrepProc()
        with self.lock:
            self._next_pid += 1
            pid = self._next_pid
            rec = {'n': len(self.starts) + 1, 'args': args, 'cwd': cwd,
                   'env': None if env is None else dict(env), 'shell': shell, 'stdin': None, 'pid': pid}
            self.starts.append(rec)
        outcome = self.script(rec)
        if outcome.oserror is not None:
            err = OSError(outcome.oserror, os.strerror(outcome.oserror))
            err.filename = cwd if outcome.oserror == 2 else None
            raise err
        proc = _FakeProc(layer, rec, outcome, pid, stderr_pipe=(stderr == swt.PIPE))
        self._procs[pid] = proc
        return proc

    def release_all(self):
        """end of the session: let every scripted process that still 'runs' finish"""
        for p in list(self._procs.values()):
            p.killed.set()

    def kill(self, pid, *_a):
        self.kills.append(pid)
        p = self._procs.get(pid)
        if p is not None:
            p.killed.set()


class _PgrepProc(object):
    pid = 0
    returncode = 1

    def communicate(self):
        return b'', b''


class _FakeProc(object):
    def __init__(self, layer, rec, outcome, pid, stderr_pipe):
        self.layer = layer
        self.rec = rec
        self.outcome = outcome
        self.pid = pid
        self.returncode = None
        self.stdin = _FakeStdin()
        self.killed = threading.Event()
        self._stderr_pipe = stderr_pipe

    def communicate(self):
        self.rec['stdin'] = self.stdin.data.decode('utf-8', 'replace') if self.stdin.data else None
        o = self.outcome
        if o.interrupt:
            # `_thread.interrupt_main()` does not wake a main thread that is blocked in Thread.join();
            # a real SIGINT directed at the main thread does (it is what Ctrl-C delivers)
            import signal
            signal.pthread_kill(threading.main_thread().ident, signal.SIGINT)
        if o.hang or o.interrupt:
            self.killed.wait(20)
            self.returncode = -9
            out = o.out
        else:
            self.returncode = o.rc
            out = o.out
        if isinstance(out, str):
            out = out.encode('utf-8')
        return out, (b'' if self._stderr_pipe else None)

    def poll(self):
        return self.returncode


@contextlib.contextmanager
def scripted(layer):
    """activate a ProcessLayer: patch Popen in the two modules that import it and the kill"""
    # `kill` is the name subprocess_kill imported from os: as root a fake pid that
    # happened to exist would be killed for real, so it is always replaced.
    kill_attr = 'kill' if hasattr(skill, 'kill') else '_kill'
    saved = (swt.Popen, skill.Popen, getattr(skill, kill_attr))
    swt.Popen = layer.popen
    skill.Popen = layer.popen
    setattr(skill, kill_attr, lambda pid, *_a: layer.kill(pid))
    try:
        yield layer
    finally:
        swt.Popen, skill.Popen = saved[0], saved[1]
        setattr(skill, kill_attr, saved[2])


class SessionResult(object):
    def __init__(self):
        self.exit = None          # exit status as main_func would return it
        self.crash = None         # (class name, message, last frames) of an escaping exception
        self.stdout = ''
        self.stderr = ''
        self.starts = []
        self.kills = []

    def status(self):
        if self.crash:
            return 'crash:' + self.crash[0]
        return {0: 'ok', 1: 'failed', 2: 'aborted', 3: 'ui_error', 4: 'thread_exc'}.get(self.exit, 'exit%s' % self.exit)


_env_ready = False


def _fast_environment():
    """`init_environment` calls py-cpuinfo (slow, and irrelevant to every property):
    keep the real function but make the cpu probe cheap."""
    global _env_ready
    if not _env_ready:
        rb_env._get_cpu_info_internal = lambda: {'brand_raw': 'verif-cpu', 'hz_advertised': (1, 9)}
        rb_env._source = {'repoURL': None, 'branchOrTag': None, 'commitId': None, 'commitMsg': None,
                          'authorName': None, 'committerName': None, 'authorEmail': None,
                          'committerEmail': None}
        _env_ready = True


def write_config(workdir, cfg, name='test.conf'):
    p = os.path.join(workdir, name)
    with open(p, 'w') as f:
        if isinstance(cfg, str):
            f.write(cfg)
        else:
            yaml.safe_dump(cfg, f, default_flow_style=False, sort_keys=False)
    return p


def run_session(workdir, argv, script=None, cpu_count=1, random_choice=None, fast_env=True,
                keep_denoise=False):
    """One ReBench session in-process, like `main_func`, in `workdir`.

    argv: arguments after the program name (config file first or anywhere).
    script: function(start record) -> Outcome; None = real processes.
    cpu_count: what `multiprocessing.cpu_count` reports to the executor (1 = sequential scheduler).
    """
    if fast_env:
        _fast_environment()
    res = SessionResult()
    argv = ['rebench'] + list(argv)
    if not keep_denoise and '-D' not in argv and '--no-denoise' not in argv:
        argv.insert(1, '-D')  # safety: never touch system settings (we are root)
    layer = ProcessLayer(script) if script is not None else None
    old_cwd = os.getcwd()
    old_argv = sys.argv
    old_cpu = rb_exec.cpu_count
    old_choice = rb_exec.random.choice
    out, err = io.StringIO(), io.StringIO()
    os.chdir(workdir)
    sys.argv = argv
    rb_exec.cpu_count = lambda: cpu_count
    if random_choice is not None:
        rb_exec.random.choice = random_choice
    try:
        with contextlib.redirect_stdout(out), contextlib.redirect_stderr(err):
            ctx = scripted(layer) if layer is not None else contextlib.nullcontext()
            with ctx:
                try:
                    try:
                        ok = rb_main.ReBench().run(argv)
                        res.exit = 0 if ok else 1
                    except KeyboardInterrupt:
                        res.exit = 2
                    except rb_main.UIError:
                        res.exit = 3
                    except rb_main.BenchmarkThreadExceptions:
                        res.exit = 4
                    except SystemExit as e:  # argparse usage errors
                        res.exit = e.code if isinstance(e.code, int) else 1
                        res.sysexit = True
                except BaseException as e:  # what would end in a traceback
                    import traceback
                    tb = traceback.extract_tb(e.__traceback__)
                    res.crash = (type(e).__name__, str(e)[:300],
                                 ['%s:%s' % (os.path.basename(f.filename), f.name) for f in tb[-3:]])
    finally:
        os.chdir(old_cwd)
        sys.argv = old_argv
        rb_exec.cpu_count = old_cpu
        rb_exec.random.choice = old_choice
    res.stdout = out.getvalue()
    res.stderr = err.getvalue()
    if layer is not None:
        layer.release_all()
        res.starts = layer.starts
        res.kills = layer.kills
    return res


# ---------------------------------------------------------------- data files
HEADER_COLS = None


def read_data_file(path):
    """independent TSV reader: returns dict with comment lines, header count, measurement rows"""
    res = {'comments': [], 'headers': 0, 'rows': [], 'run_meta': [], 'bench_meta': [], 'raw': ''}
    if not os.path.exists(path):
        return res
    with open(path, 'r', newline='') as f:
        raw = f.read()
    res['raw'] = raw
    for line in raw.split('\n'):
        if line == '':
            continue
        if line.startswith('#'):
            res['comments'].append(line)
            if line.startswith('# run_id: '):
                i, js = line[len('# run_id: '):].split('=', 1)
                res['run_meta'].append((int(i), json.loads(js)))
            elif line.startswith('# benchmark: '):
                i, js = line[len('# benchmark: '):].split('=', 1)
                res['bench_meta'].append((int(i), json.loads(js)))
            continue
        cols = line.split('\t')
        if cols[0] == 'invocation':
            res['headers'] += 1
            continue
        res['rows'].append(cols)
    return res
