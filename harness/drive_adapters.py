"""Driving the real gauge adapters (C05, C12): instantiation, canonical
observations, value comparison, text generators shared by both properties.

Nothing here knows what the Lean model answers; the comparison functions take
both sides as canonical Python values.
"""
import math
import re
from fractions import Fraction

import lib

lib.use_repo()

from rebench.interop import adapter as ad_mod  # noqa: E402
from rebench.interop.rebench_log_adapter import RebenchLogAdapter  # noqa: E402
from rebench.interop.plain_seconds_log_adapter import PlainSecondsLogAdapter  # noqa: E402
from rebench.interop.savina_log_adapter import SavinaLogAdapter  # noqa: E402
from rebench.interop.validation_log_adapter import ValidationLogAdapter  # noqa: E402
from rebench.interop.jmh_adapter import JMHAdapter  # noqa: E402
from rebench.interop.time_adapter import TimeAdapter, TimeManualAdapter  # noqa: E402

# the seven parse variants ("Time" has two modes, chosen by a class attribute
# that `_check_which_time_command_is_available` sets)
ADAPTERS = ['ReBenchLog', 'PlainSecondsLog', 'SavinaLog', 'ValidationLog', 'JMH', 'TimeFormatted', 'TimeP']


def make_adapter(name, faulty):
    if name == 'ReBenchLog':
        return RebenchLogAdapter(faulty, None)
    if name == 'PlainSecondsLog':
        return PlainSecondsLogAdapter(faulty, None)
    if name == 'SavinaLog':
        return SavinaLogAdapter(faulty, None)
    if name == 'ValidationLog':
        return ValidationLogAdapter(faulty, None)
    if name == 'JMH':
        return JMHAdapter(faulty, None)
    if name in ('TimeFormatted', 'TimeP'):
        a = TimeManualAdapter(faulty, None)
        a._use_formatted_time = (name == 'TimeFormatted')  # instance attribute shadows the class one
        return a
    raise lib.InfraError('unknown adapter ' + name)


# the patterns of the working tree, by the name the Lean driver uses
def patterns():
    return {
        'rebench.log': (RebenchLogAdapter.re_log_line, 8),
        'rebench.extra': (RebenchLogAdapter.re_extra_criterion_log_line, 7),
        'savina': (SavinaLogAdapter.re_log_line, 2),
        'validation.log': (ValidationLogAdapter.re_log_line, 6),
        'validation.actors': (ValidationLogAdapter.re_actors, 3),
        'jmh': (JMHAdapter.re_result_line, 4),
        'time': (TimeAdapter.re_time, 3),
        'time2': (TimeAdapter.re_time2, 3),
        'time.formatted': (TimeAdapter.re_formatted_time, 1),
        'time.rss': (TimeAdapter.re_formatted_rss, 1),
    }


def search_patterns():
    G = ad_mod.GaugeAdapter
    return {
        'Error': G.re_error, 'Segmentation fault': G.re_segfault, 'Bus error': G.re_bus_error,
        'npb.partial': RebenchLogAdapter.re_NPB_partial_invalid,
        'npb.invalid': RebenchLogAdapter.re_NPB_invalid,
        'incorrect': RebenchLogAdapter.re_incorrect,
        'error': PlainSecondsLogAdapter.re_err,
        'Run complete': JMHAdapter.re_complete,
    }


# ------------------------------------------------------------- observations
def canon_value(v):
    if isinstance(v, bool):
        return ('b', v)
    if isinstance(v, int):
        return ('i', v)
    if isinstance(v, float):
        if math.isnan(v):
            return ('nan',)
        if math.isinf(v):
            return ('inf', v < 0)
        return ('f', Fraction(v))
    return ('other', repr(v))


def impl_parse(name, text, faulty, inv):
    """real parse_data; returns {'outcome': ..., 'dps': [[(inv, it, crit, unit, value)]]}"""
    a = make_adapter(name, faulty)
    try:
        dps = a.parse_data(text, None, inv)
    except ad_mod.OutputNotParseable:
        return {'outcome': 'OutputNotParseable'}
    except ad_mod.ResultsIndicatedAsInvalid:
        return {'outcome': 'ResultsIndicatedAsInvalid'}
    except ad_mod.ExecutionDeliveredNoResults:
        return {'outcome': 'ExecutionDeliveredNoResults'}
    except Exception as e:  # anything else would take the session down
        import traceback
        tb = traceback.extract_tb(e.__traceback__)
        return {'outcome': 'crash:' + type(e).__name__, 'message': str(e)[:200],
                'raised_in': tb[-1].name if tb else None}
    if not isinstance(dps, list):
        return {'outcome': 'crash:NotAList', 'message': repr(dps)[:100]}
    out = []
    for dp in dps:
        out.append([(m.invocation, m.iteration, m.criterion, m.unit, canon_value(m.value))
                    for m in dp.get_measurements()])
    return {'outcome': 'ok', 'dps': out}


def big_int(s):
    """int(s) without CPython's 4300-digit limit (which must stay in force for the code under test)"""
    neg = s.startswith('-')
    if neg:
        s = s[1:]
    n = 0
    for i in range(0, len(s), 4000):
        chunk = s[i:i + 4000]
        n = n * 10 ** len(chunk) + int(chunk)
    return -n if neg else n


def big_frac(s):
    if '/' in s:
        a, b = s.split('/')
        return Fraction(big_int(a), big_int(b))
    return Fraction(big_int(s))


HUGE_EXP = re.compile(r'[eE][-+]?[0-9_]{4,}')


def in_scope(text):
    """the model keeps exact rationals, so exponents are bounded to three digits (Python answers
    inf / 0.0 for anything beyond +-400 anyway)"""
    return HUGE_EXP.search(text) is None


def model_value(j):
    t = j['t']
    if t == 'f':
        return ('f', big_frac(j['v']))
    if t == 'i':
        return ('i', big_int(j['v']))
    if t == 'b':
        return ('b', j['v'])
    if t == 'inf':
        return ('inf', j['neg'])
    return ('nan',)


def model_obs(ans):
    if 'err' in ans:
        raise lib.InfraError('model driver: ' + str(ans))
    if ans['outcome'] != 'ok':
        return {'outcome': ans['outcome']}
    return {'outcome': 'ok',
            'dps': [[(m['inv'], m['it'], m['c'], m['u'], model_value(m['v'])) for m in dp] for dp in ans['dps']]}


MAXF = Fraction(2) ** 1024
TINY = Fraction(1, 2 ** 1055)   # subnormal range: absolute instead of relative precision (x1000 included)


def value_close(impl, exact, ulps=1):
    """impl: canonical value of the implementation; exact: canonical value with an
    exact rational (model or by-construction).  Floats: equal to `ulps` units in the
    last place (2^-52 relative each), overflow to inf, underflow to 0."""
    if exact[0] != 'f':
        return impl == exact
    q = exact[1]
    if impl[0] == 'inf':
        return abs(q) >= MAXF * Fraction(999, 1000) and (q < 0) == impl[1]
    if impl[0] != 'f':
        return False
    f = impl[1]
    return abs(f - q) <= abs(q) * Fraction(ulps, 2 ** 52) + TINY


def representable(q):
    try:
        return Fraction(q.numerator / q.denominator) == q
    except OverflowError:
        return False


def structure_diff(impl, model, ulps=1):
    """None if the two observations agree, else a short description"""
    if impl['outcome'] != model['outcome']:
        return 'outcome %s vs %s' % (impl['outcome'], model['outcome'])
    if impl['outcome'] != 'ok':
        return None
    a, b = impl['dps'], model['dps']
    if len(a) != len(b):
        return 'data points %d vs %d' % (len(a), len(b))
    for i, (da, db) in enumerate(zip(a, b)):
        if len(da) != len(db):
            return 'dp %d: measurements %d vs %d' % (i, len(da), len(db))
        for j, (ma, mb) in enumerate(zip(da, db)):
            if ma[:4] != mb[:4]:
                return 'dp %d m %d: %r vs %r' % (i, j, ma[:4], mb[:4])
            if not value_close(ma[4], mb[4], ulps):
                return 'dp %d m %d value: %r vs %r' % (i, j, ma[4], mb[4])
    return None


def big_str(n):
    """str(int) without CPython's 4300-digit limit"""
    if n < 0:
        return '-' + big_str(-n)
    base = 10 ** 4000
    parts = []
    while n >= base:
        n, r = divmod(n, base)
        parts.append('%04000d' % r)
    parts.append(str(n))
    return ''.join(reversed(parts))


def frac_str(q):
    return big_str(q.numerator) if q.denominator == 1 else big_str(q.numerator) + '/' + big_str(q.denominator)


def jsonable(obs):
    """observation -> JSON-friendly (Fractions as strings)"""
    if obs.get('outcome') != 'ok':
        return obs
    def v(x):
        return [frac_str(y) if isinstance(y, Fraction) else (big_str(y) if isinstance(y, int) and not isinstance(y, bool) else y)
                for y in x]
    return {'outcome': 'ok', 'dps': [[list(m[:4]) + [v(m[4])] for m in dp] for dp in obs['dps']]}


# ----------------------------------------------------- alphabet self-check
# non-ASCII characters the generators may use, with the class the model gives them
EXTRA_WORD = '\xb5\xe9\xfc\xdf\u03bb\u0416'
EXTRA_SPACE = '\x85\xa0\u2028\u2029\u3000\u1680\u2003'
EXTRA_OTHER = '\ufffd\u20ac\u2192\xb7\xb1'
ASCII_ALL = ''.join(chr(i) for i in range(128) if i != 10)


def check_alphabet():
    """the model's character classes are exact for ASCII plus a table: make sure every
    character the generators can emit is classified by Python as the model assumes"""
    space_model = set(range(9, 14)) | set(range(28, 33))
    for ch in ASCII_ALL + EXTRA_WORD + EXTRA_SPACE + EXTRA_OTHER:
        o = ord(ch)
        w = bool(re.match(r'\w', ch))
        s = bool(re.match(r'\s', ch))
        d = bool(re.match(r'\d', ch))
        mw = (ch.isascii() and (ch.isalnum() or ch == '_')) or ch in EXTRA_WORD
        ms = (o in space_model) or ch in EXTRA_SPACE
        md = ch.isascii() and ch.isdigit()
        if (w, s, d) != (mw, ms, md):
            raise lib.InfraError('alphabet self-check: %r is (w,s,d)=%r in Python, %r in the model'
                                 % (ch, (w, s, d), (mw, ms, md)))


# ------------------------------------------------------------- token pools
NAMES = ['B', 'Bench', 'LanguageFeatures.Dispatch', 'Savina.Chameneos', 'a:b', 'x_1', 'N\xe9', '7', 'a.b.c',
         'total', 'real', 'Iteration', '[Total]', 'wall-time']
WORDS = ['total', 'alloc', 'gc.time', 'Success', 'x', 'mem_1', 'user', 'sys', 'real', 'k\xb5']
PREFIXES = ['', '', 'pre: ', 'a b: ', '[12:00:01] INFO: ', 'x: y: ', ': ', 'p\u2192: ']
INTS = ['0', '1', '7', '42', '123', '2342', '00012', '9' * 25, '309557']
DECIMALS = ['0.0', '1.5', '64.208', '0.001', '12345.678', '1.0', '00.10', '3.' + '3' * 20]
NUMERALS = INTS + DECIMALS + ['1.', '.5', '.001', '1e3', '1E3', '1.5e-3', '.5e+2', '2.E1', '1e0', '1e22', '1e-7',
                              '1e400', '1e-400', '12e+02']
ODD_NUMERALS = ['', '.', '1e', '1e+', '1.5.5', '1_000', '1,5', '-3', '+3', 'inf', 'nan', 'Infinity', '-inf', '0x10',
                '1e5e5', '..5', '1 5', 'e5', '1_0.0_1e1_0', '1__0', '_1', '1_', 'NaN', '+.5e-3', '-0', '1e-', 'iNf',
                '9' * 400, '0.' + '0' * 330 + '1']
UNITS_ALPHA = ['ms', 'us', 'byte', 'kb', 'MB', 's', 'x', 'ops']
UNITS_JMH = ['ops/s', 'ms/op', 'us/op', 'ns/op', 's/op', 'ops/ms', 'ops/s  ', 'a b', '\xb1']
SPACES = [' ', '  ', '\t', '   ', ' \t ', '\x0b', '\x1c', '\xa0', '\r', '']
MARKERS = ['Error', 'Segmentation fault', 'Bus error', 'Failed the verification', 'Benchmark done, verification failed',
           'result incorrect!', 'an error occurred', 'Exception in thread: java.lang.Error', 'Run complete',
           '# Run complete. Total time: 00:00:10', 'Failed', 'verification', 'Benchmark done', 'ERROR', 'errors',
           'verification Failed', 'Segmentation  fault', 'bus error', 'Run  complete']
NOISE = ['', 'Starting benchmark', 'warmup done', '# JMH version: 1.21', '# VM version: JDK 1.8', 'iterations=5',
         'runtime: 5ms', 'Iteration', 'real', 'hello world', '1, 2, 3', 'out: 1', '----', '\t', '   ',
         '[Total]', 'success: true', 'wall-time', 'max rss', 'Result "x":', 'Benchmark  Mode  Cnt  Score   Units']
ODD_CHARS = ['\r', '\t', '\x00', '\ufffd', ' ', ':', '.', 'e', '_', '\x1c', '\xa0', '\u2028', '\xe9', '\u20ac',
             '#', '=', '-', '+', '0', 'm', 'u', 's', '\x7f', '\x0b', '\x0c', '"', "'", '%', '\\', '(', ')']


# where str.splitlines() cuts a line but split("\\n") does not (all are white space for `re` and str.strip)
INNER_SEPARATORS = ['\r', '\x0b', '\x0c', '\x1c', '\x1d', '\x1e', '\x85', '\u2028', '\u2029']


def pick(rng, xs):
    return xs[rng.randrange(len(xs))]


def numeral(rng):
    r = rng.random()
    if r < 0.5:
        return pick(rng, NUMERALS)
    if r < 0.8:
        # fresh random numeral of a random shape
        ip = str(rng.randint(0, 10 ** rng.randint(1, 8)))
        fp = ''.join(rng.choice('0123456789') for _ in range(rng.randint(1, 6)))
        shape = rng.randrange(6)
        base = [ip, ip + '.' + fp, '.' + fp, ip + '.', ip + '.' + fp, ip][shape]
        if shape >= 4:
            base += rng.choice('eE') + rng.choice(['', '+', '-']) + str(rng.randint(0, 30))
        return base
    return pick(rng, ODD_NUMERALS)


def decimal(rng):
    if rng.random() < 0.6:
        return pick(rng, DECIMALS)
    return '%d.%s' % (rng.randint(0, 99999), ''.join(rng.choice('0123456789') for _ in range(rng.randint(1, 5))))


def integer(rng):
    if rng.random() < 0.6:
        return pick(rng, INTS)
    return str(rng.randint(0, 10 ** 7))


def space1(rng):
    """one or more whitespace characters"""
    r = rng.random()
    return ' ' if r < 0.5 else pick(rng, ['  ', '\t', '   ', ' \t ', '\x0b', '\x1c', '\xa0', ' \r'])


# every documented line shape as a list of tokens (kept as tokens so that the
# near-miss mutations can drop / duplicate / exchange whole fields)
def shape_tokens(rng, shape):
    if shape == 'rebench.log':
        crit = rng.choice(['', '', ' total', ' ' + pick(rng, WORDS)])
        return [pick(rng, PREFIXES), pick(rng, NAMES), crit, ': iterations=', integer(rng), ' runtime: ',
                numeral(rng), rng.choice(['ms', 'us', 'us', 'ms', 's', 'ns', 'm', 'Ms'])]
    if shape == 'rebench.extra':
        crit = rng.choice(['trace size', 'external data', 'mem', 'total', 'x' * 30, 'x' * 31, 'a b c', 'GC time', ' ',
                           'k\xb5', 'iterations=1 runtime', pick(rng, WORDS)])
        return [pick(rng, PREFIXES), pick(rng, NAMES), ': ', crit, ':', rng.choice(['', ' ', '    ', '\t', ' \xa0']),
                numeral(rng), pick(rng, UNITS_ALPHA + ['', 'm2', '\xb5s'])]
    if shape == 'plain':
        return [rng.choice(['', '', ' ', '\t', '  ', '\x1c', '\xa0']), rng.choice(['', '', '', '-', '+']),
                numeral(rng), rng.choice(['', '', ' ', '\r', ' \r', '\x1f', '\u3000', ' s'])]
    if shape == 'savina':
        return [pick(rng, NAMES), space1(rng), 'Iteration-', integer(rng), ':', space1(rng),
                rng.choice([decimal(rng), decimal(rng), numeral(rng)]), rng.choice([' ms', ' ms', ' ms', 'ms', ' us', ' s'])]
    if shape == 'validation.log':
        crit = rng.choice(['', '', ' total', ' ' + pick(rng, WORDS)])
        return [pick(rng, PREFIXES), pick(rng, NAMES), crit, ': iterations=', integer(rng), ' runtime: ',
                rng.choice([integer(rng), integer(rng), numeral(rng)]), rng.choice(['ms', 'us', 'us', 's']),
                ' success: ', rng.choice(['true', 'false', 'True', 'yes', ''])]
    if shape == 'validation.actors':
        return ['[Total]', space1(rng), 'A#', integer(rng), space1(rng), 'M#', integer(rng), space1(rng), 'P#',
                rng.choice([integer(rng), integer(rng), numeral(rng)])]
    if shape == 'jmh':
        return [rng.choice(['Iteration', '# Warmup Iteration', 'Iteration', '# Warmup  Iteration', 'iteration']),
                space1(rng), integer(rng), ':', space1(rng),
                rng.choice([decimal(rng), integer(rng), numeral(rng)]), space1(rng), pick(rng, UNITS_JMH)]
    if shape == 'time':
        return [rng.choice(['real', 'user', 'sys', 'real', pick(rng, WORDS)]), rng.choice(['', ' ', '\t', '    ', '\xa0']),
                integer(rng), 'm', rng.choice([decimal(rng), decimal(rng), numeral(rng)]), rng.choice(['s', 's', ''])]
    if shape == 'time2':
        return [rng.choice(['real', 'user', 'sys', 'real', pick(rng, WORDS)]), rng.choice(['', ' ', '\t', '    ', '\xa0']),
                rng.choice([decimal(rng), decimal(rng), numeral(rng)])]
    if shape == 'time.formatted':
        return ['wall-time (secounds): ', rng.choice([decimal(rng), decimal(rng), numeral(rng)])]
    if shape == 'time.rss':
        return ['max rss (kb): ', rng.choice([integer(rng), integer(rng), numeral(rng)])]
    raise ValueError(shape)


SHAPES = ['rebench.log', 'rebench.extra', 'plain', 'savina', 'validation.log', 'validation.actors', 'jmh', 'time',
          'time2', 'time.formatted', 'time.rss']
SHAPES_OF = {
    'ReBenchLog': ['rebench.log', 'rebench.extra'],
    'PlainSecondsLog': ['plain'],
    'SavinaLog': ['savina'],
    'ValidationLog': ['validation.log', 'validation.actors'],
    'JMH': ['jmh'],
    'TimeFormatted': ['time.formatted', 'time.rss'],
    'TimeP': ['time', 'time2'],
}
ALL_TOKENS = (NAMES + WORDS + PREFIXES + INTS + DECIMALS + NUMERALS + ODD_NUMERALS + UNITS_ALPHA + UNITS_JMH + SPACES +
              [': iterations=', ' runtime: ', ' success: ', 'true', 'false', ': ', ':', 'Iteration-', ' ms', 'A#', 'M#',
               'P#', '[Total]', 'Iteration', '# Warmup Iteration', 'm', 's', 'ms', 'us', 'wall-time (secounds): ',
               'max rss (kb): ', 'iterations=', 'runtime', 'real', 'user', 'sys'])


def mutate_tokens(rng, toks):
    toks = list(toks)
    for _ in range(rng.choice([0, 1, 1, 1, 2, 3])):
        if not toks:
            break
        i = rng.randrange(len(toks))
        op = rng.randrange(6)
        if op == 0:
            del toks[i]
        elif op == 1:
            toks.insert(i, toks[i])
        elif op == 2:
            toks[i] = pick(rng, ALL_TOKENS)
        elif op == 3 and i + 1 < len(toks):
            toks[i], toks[i + 1] = toks[i + 1], toks[i]
        elif op == 4:
            toks.insert(i, pick(rng, ALL_TOKENS))
        else:
            t = toks[i]
            if t:
                j = rng.randrange(len(t))
                toks[i] = t[:j] + rng.choice(['', pick(rng, ODD_CHARS), pick(rng, ODD_CHARS) + t[j]]) + t[j + 1:]
    return toks


def near_miss_line(rng, shape):
    toks = shape_tokens(rng, shape)
    if rng.random() < 0.6:
        toks = mutate_tokens(rng, toks)
    line = ''.join(toks)
    if rng.random() < 0.08:
        j = rng.randrange(len(line) + 1)
        line = line[:j] + pick(rng, ODD_CHARS) + line[j:]
    if rng.random() < 0.05:
        line = line[:rng.randrange(len(line) + 1)]
    return line.replace('\n', ' ')


def random_string(rng):
    n = rng.choice([0, 1, 2, 5, 10, 30, 80])
    r = rng.random()
    if r < 0.4:
        return ''.join(pick(rng, ALL_TOKENS) for _ in range(n)).replace('\n', ' ')
    if r < 0.7:
        alpha = ASCII_ALL + EXTRA_WORD + EXTRA_SPACE + EXTRA_OTHER
        return ''.join(rng.choice(alpha) for _ in range(n))
    return ''.join(pick(rng, ODD_CHARS + ['1', '5', 'a', 'Z']) for _ in range(n))


def gen_text(rng, adapter, kind=None):
    """(kind, text) for the totality fuzzing of one adapter"""
    kind = kind or rng.choice(['near', 'near', 'near', 'splice', 'splice', 'random', 'marker', 'marker-near', 'sepjoin'])
    own = SHAPES_OF[adapter]
    n = rng.choice([0, 1, 1, 2, 3, 4, 6, 10, 25])
    lines = []
    if kind == 'near':
        for _ in range(n):
            r = rng.random()
            lines.append(near_miss_line(rng, pick(rng, own)) if r < 0.8 else pick(rng, NOISE))
    elif kind == 'splice':
        for _ in range(n):
            r = rng.random()
            if r < 0.45:
                lines.append(''.join(shape_tokens(rng, pick(rng, own))))
            elif r < 0.7:
                lines.append(''.join(shape_tokens(rng, pick(rng, SHAPES))))
            elif r < 0.85:
                lines.append(pick(rng, NOISE))
            else:
                lines.append(near_miss_line(rng, pick(rng, SHAPES)))
    elif kind == 'random':
        for _ in range(n):
            lines.append(random_string(rng))
    elif kind == 'sepjoin':
        # separators at which str.splitlines() cuts but split("\\n") does not, inside a line, between
        # texts that are format lines (or noise) on their own
        for _ in range(n):
            parts = []
            for _ in range(rng.choice([2, 2, 3])):
                r = rng.random()
                parts.append(''.join(shape_tokens(rng, pick(rng, own))) if r < 0.7 else pick(rng, NOISE))
            line = parts[0]
            for p in parts[1:]:
                line += pick(rng, INNER_SEPARATORS) + p
            lines.append(line.replace('\n', ' '))
    else:
        for _ in range(n):
            lines.append(''.join(shape_tokens(rng, pick(rng, own))) if kind == 'marker' or rng.random() < 0.5
                         else near_miss_line(rng, pick(rng, own)))
        for _ in range(rng.choice([1, 1, 2])):
            m = pick(rng, MARKERS)
            r = rng.random()
            if r < 0.5 or not lines:
                lines.insert(rng.randrange(len(lines) + 1), rng.choice(['', 'x ', '  ']) + m + rng.choice(['', ' y', ':']))
            else:
                i = rng.randrange(len(lines))
                j = rng.randrange(len(lines[i]) + 1)
                lines[i] = lines[i][:j] + m + lines[i][j:]
    if rng.random() < 0.15 and len(lines) >= 2:
        # duplicated totals / duplicated lines
        i = rng.randrange(len(lines))
        lines.insert(i, lines[i])
    eol = '\r\n' if rng.random() < 0.2 else '\n'
    text = eol.join(lines)
    if lines and rng.random() < 0.7:
        text += eol
    if not in_scope(text):
        text = HUGE_EXP.sub(lambda m: m.group(0)[:3], text)
    return kind, text


# ----------------------------------------------------------- parallel model
def model_parallel(ck, ops, driver=None, chunk=1500, workers=8):
    """ck.model on chunks in parallel driver processes (answers in order)"""
    if len(ops) <= chunk:
        return ck.model(ops, driver)
    from concurrent.futures import ThreadPoolExecutor
    parts = [ops[i:i + chunk] for i in range(0, len(ops), chunk)]
    with ThreadPoolExecutor(max_workers=workers) as ex:
        res = list(ex.map(lambda p: ck.model(p, driver), parts))
    return [a for r in res for a in r]
