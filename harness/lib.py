"""Shared machinery of the /verif checks (see DESIGN.md section 2.5).

A check run = proof step (lake build, grep audit, axiom audit of the
property's registered theorems) + corpus step + correspondence step
(implementation vs. Lean model on generated inputs) + oracle step (the property
itself as an executable predicate on what the implementation did) + decision
and evidence.
"""
import fcntl
import hashlib
import json
import os
import random
import re
import shutil
import subprocess
import sys
import tempfile
import time
from fractions import Fraction

VERIF = os.path.dirname(os.path.dirname(os.path.abspath(__file__)))
LEAN = os.path.join(VERIF, 'lean')
REPO = os.environ.get('REBENCH_REPO', '/repo')
SCRATCH_ROOT = os.path.join(VERIF, '.scratch')
ALLOWED_AXIOMS = {'propext', 'Classical.choice', 'Quot.sound'}
FORBIDDEN = re.compile(
    r'\bsorry\b|\badmit\b|^\s*axiom\s|native_decide|bv_decide|implemented_by|'
    r'\bunsafe\s|maxHeartbeats\s+0\b', re.M)

TRUSTED_BASE = [
    "Lean 4.33.0 kernel and elaborator (leanchecker re-check in the thorough tier)",
    "axioms: subset of {propext, Classical.choice, Quot.sound}, audited per theorem on every run; "
    "no sorry/admit/native_decide/bv_decide/own axioms (grep audit on every run)",
    "hand-written Lean model of the named ReBench code; tied to /repo's working tree by the "
    "behavioural correspondence check of this run (differential testing: bounded by its generators)",
    "the transcription of the property into the Lean statements of RB/Proofs/<id>.lean",
    "CPython 3.12 / POSIX behaviour that the model takes as given (see DESIGN.md section 3)",
]


class InfraError(Exception):
    """tooling trouble: exit 2, never a VIOLATION"""


def frac(x):
    """exact rational of a Python number as the 'num/den' wire format"""
    f = Fraction(x)
    return '%d/%d' % (f.numerator, f.denominator)


def unfrac(s):
    if isinstance(s, (int, float)):
        return Fraction(s)
    if '/' in s:
        n, d = s.split('/')
        return Fraction(int(n), int(d))
    return Fraction(int(s))


def strip_lean_comments(text):
    # nested block comments /- ... -/ and line comments --
    out = []
    i, depth, n = 0, 0, len(text)
    while i < n:
        if text.startswith('/-', i):
            depth += 1
            i += 2
        elif depth and text.startswith('-/', i):
            depth -= 1
            i += 2
        elif depth:
            if text[i] == '\n':
                out.append('\n')
            i += 1
        elif text.startswith('--', i):
            j = text.find('\n', i)
            i = n if j < 0 else j
        else:
            out.append(text[i])
            i += 1
    return ''.join(out)


def sh(cmd, cwd=None, timeout=1800, input=None, env=None):
    return subprocess.run(cmd, cwd=cwd, timeout=timeout, input=input, env=env,
                          stdout=subprocess.PIPE, stderr=subprocess.PIPE, text=True)


class Check(object):
    def __init__(self, pid, tier, seed):
        self.pid = pid
        self.tier = tier
        self.seed = seed
        self.rng = random.Random((seed * 1000003) ^ int(hashlib.sha1(pid.encode()).hexdigest()[:8], 16))
        self.t0 = time.time()
        self.evaluations = 0
        self.nontrivial = set()
        self.samples = []
        self.dist = {}
        self.disagreements = []   # dicts: corr, input, impl, model, theorems
        self.oracle_failures = []  # dicts: clause, signature, input, detail
        self.proof_failures = []  # strings
        self.notes = []
        self.obligations = []
        self.discharged = 0
        self.impl_traces = 0
        self.partial = []
        self.exhaustive = False
        self.rule = ''
        self.assumptions = []
        self.extra_cov = {}
        self.gen_status = None
        self.gen_broken = None
        self.gen_entries = []     # one dict per translation tie: module, specs, status
        self.known = [k for k in load_known() if k['property'] == pid]
        os.makedirs(SCRATCH_ROOT, exist_ok=True)
        self.scratch = tempfile.mkdtemp(prefix='%s-%d-' % (pid, os.getpid()), dir=SCRATCH_ROOT)

    # ---------------------------------------------------------------- proof
    def proof_step(self):
        obl_file = os.path.join(LEAN, 'obligations', self.pid + '.json')
        obl = json.load(open(obl_file))
        self.obligations = obl['theorems']
        self.partial = obl.get('partial', [])
        self.proof_module = obl.get('module', 'RB.Proofs.' + self.pid)
        # translation ties: one entry or a list of entries {specs, module, theorems}
        gens = obl.get('gen') or []
        if isinstance(gens, dict):
            gens = [gens]
        statuses = []
        # 1. regenerate translated definitions from /repo's working tree, then build
        #    (serialised: several checks may run at once)
        with open(os.path.join(SCRATCH_ROOT, 'lake.lock'), 'w') as lk:
            fcntl.flock(lk, fcntl.LOCK_EX)
            for gen in gens:
                statuses.append(regenerate(gen['specs']))
            r = sh(['lake', 'build'], cwd=LEAN, timeout=3600)
            if r.returncode == 0:
                for k, gen in enumerate(gens):
                    if statuses[k] == 'ok':
                        rg = sh(['lake', 'build', gen['module']], cwd=LEAN, timeout=3600)
                        if rg.returncode != 0:
                            statuses[k] = 'proof-broken: ' + (rg.stdout + rg.stderr)[-1500:]
        if gens:
            self.gen_entries = [{'module': g['module'], 'specs': g['specs'], 'status': st}
                                for g, st in zip(gens, statuses)]
            bad = [e for e in self.gen_entries if e['status'] != 'ok']
            if len(gens) == 1:
                self.gen_status = statuses[0]
            else:
                self.gen_status = 'ok' if not bad else '; '.join('%s: %s' % (e['module'], e['status']) for e in bad)
        if r.returncode != 0:
            self.proof_failures.append('lake build failed: ' + (r.stdout + r.stderr)[-2000:])
            return
        for gen, st in zip(gens, statuses):
            if st == 'ok':
                self.obligations = self.obligations + gen['theorems']
                obl = dict(obl, extra_imports=obl.get('extra_imports', []) + [gen['module']])
                self.notes.append('translation tie: definitions regenerated from %s and %s rebuilt'
                                  % (', '.join(gen['specs']), gen['module']))
            else:
                # not a finding by itself: the registered tie is the behavioural correspondence;
                # the correspondence module directs extra search at the translated functions.
                # Only this entry's theorems are left out.
                # (the status of the first broken entry, without module prefix: correspondence modules written for a
                # single tie test it with startswith('proof-broken'); per-entry statuses are in self.gen_entries)
                if not self.gen_broken:
                    self.gen_broken = st
                self.notes.append('translation tie NOT available for the current source (%s); theorems %s are not '
                                  'counted; search escalated' % (st[:300], gen['theorems']))
        # 2. grep audit over the whole lean tree (comments stripped)
        for root, _dirs, files in os.walk(LEAN):
            if '.lake' in root:
                continue
            for f in files:
                if f.endswith('.lean'):
                    p = os.path.join(root, f)
                    m = FORBIDDEN.search(strip_lean_comments(open(p).read()))
                    if m:
                        self.proof_failures.append('forbidden token %r in %s' % (m.group(0), p))
        # 3. axiom audit
        audit = os.path.join(self.scratch, 'Audit.lean')
        with open(audit, 'w') as f:
            f.write('import %s\n' % self.proof_module)
            for m in obl.get('extra_imports', []):
                f.write('import %s\n' % m)
            for t in self.obligations:
                f.write('#print axioms %s\n' % t)
        r = sh(['lake', 'env', 'lean', audit], cwd=LEAN, timeout=1800)
        out = r.stdout + r.stderr
        if r.returncode != 0:
            self.proof_failures.append('axiom audit failed: ' + out[-2000:])
        found = {}
        for m in re.finditer(r"'([^']+)' (depends on axioms: \[([^\]]*)\]|does not depend on any axioms)",
                             out.replace('\n', ' ')):
            axs = set(a.strip() for a in (m.group(3) or '').split(',') if a.strip())
            found[m.group(1)] = axs
        for t in self.obligations:
            if t not in found:
                self.proof_failures.append('theorem %s not found by the axiom audit' % t)
            elif not found[t] <= ALLOWED_AXIOMS:
                self.proof_failures.append('theorem %s depends on %s' % (t, sorted(found[t] - ALLOWED_AXIOMS)))
            else:
                self.discharged += 1
        if self.tier == 'thorough' and not self.proof_failures:
            r = sh(['lake', 'env', 'leanchecker', self.proof_module], cwd=LEAN, timeout=3600)
            if r.returncode != 0:
                self.proof_failures.append('leanchecker rejected %s: %s' % (self.proof_module, (r.stdout + r.stderr)[-1000:]))
            else:
                self.notes.append('leanchecker accepted ' + self.proof_module)

    # ---------------------------------------------------------------- model
    def model(self, ops, driver=None):
        """run the Lean model driver on a list of op dicts, return list of answers"""
        if not ops:
            return []
        driver = driver or ('drivers/%s.lean' % self.pid)
        data = ''.join(json.dumps(o) + '\n' for o in ops)
        r = sh(['lake', 'env', 'lean', '--run', driver], cwd=LEAN, input=data, timeout=3600)
        if r.returncode != 0:
            raise InfraError('model driver failed: ' + (r.stdout[-500:] + r.stderr[-1500:]))
        lines = [l for l in r.stdout.split('\n') if l.strip()]
        if len(lines) != len(ops):
            raise InfraError('model driver answered %d lines for %d ops: %s' % (len(lines), len(ops), r.stderr[-500:]))
        return [json.loads(l) for l in lines]

    # ------------------------------------------------------------ recording
    def count(self, key, n=1):
        self.dist[key] = self.dist.get(key, 0) + n

    def case(self, nontrivial_key=None, sample=None):
        self.evaluations += 1
        if nontrivial_key is not None:
            self.nontrivial.add(nontrivial_key if isinstance(nontrivial_key, (str, int, tuple))
                                else json.dumps(nontrivial_key, sort_keys=True, default=str))
        if sample is not None and len(self.samples) < 5:
            self.samples.append(sample)

    def disagree(self, corr, inp, impl, model, theorems=None):
        self.disagreements.append({'correspondence': corr, 'input': inp, 'impl': impl,
                                   'model': model, 'theorems': theorems or self.obligations})

    def oracle_fail(self, clause, inp, detail, signature=None):
        sig = dict(signature or {})
        sig.setdefault('clause', clause)
        self.oracle_failures.append({'clause': clause, 'signature': sig, 'input': inp, 'detail': detail})

    # ------------------------------------------------------------- decision
    def _match_known(self, failure):
        for k in self.known:
            if k.get('status') != 'known':
                continue
            if all(failure['signature'].get(a) == b for a, b in k['signature'].items()):
                return k
        return None

    def _write_replay(self, name, obj):
        d = os.path.join(VERIF, 'replays')
        os.makedirs(d, exist_ok=True)
        p = os.path.join(d, '%s-%s-seed%d-%s.json' % (self.pid, self.tier, self.seed, name))
        with open(p, 'w') as f:
            json.dump(obj, f, indent=1, sort_keys=True, default=str)
        return os.path.relpath(p, VERIF)

    def finish(self):
        lines = []
        violations = 0
        known_printed = set()
        new_failures = []
        for f in self.oracle_failures:
            k = self._match_known(f)
            if k is not None:
                if k['id'] not in known_printed:
                    known_printed.add(k['id'])
                    lines.append('KNOWN-FINDING: property=%s %s' % (self.pid, k['what_fails']))
            else:
                new_failures.append(f)
        if new_failures:
            # report the smallest input per clause
            by_clause = {}
            for f in new_failures:
                key = json.dumps(f['signature'], sort_keys=True, default=str)
                cur = by_clause.get(key)
                size = len(json.dumps(f['input'], default=str))
                if cur is None or size < cur[0]:
                    by_clause[key] = (size, f)
            for i, (_, f) in enumerate(sorted(by_clause.values(), key=lambda x: x[0])[:5]):
                path = self._write_replay('oracle%d' % i, {
                    'property': self.pid, 'seed': self.seed, 'tier': self.tier, 'kind': 'oracle-failure',
                    'clause': f['clause'], 'signature': f['signature'], 'input': f['input'],
                    'detail': f['detail']})
                lines.append('VIOLATION property=%s replay=%s' % (self.pid, path))
                violations += 1
        elif self.disagreements:
            d = min(self.disagreements, key=lambda d: len(json.dumps(d['input'], default=str)))
            path = self._write_replay('corr', {
                'property': self.pid, 'seed': self.seed, 'tier': self.tier, 'kind': 'correspondence-broken',
                'correspondence': d['correspondence'], 'theorems_resting_on_it': d['theorems'],
                'input': d['input'], 'impl': d['impl'], 'model': d['model'],
                'disagreements_total': len(self.disagreements),
                'note': 'the implementation no longer behaves as the Lean model on this input; the '
                        'executable oracle of the property found no failing input in the search budget'})
            lines.append('VIOLATION property=%s replay=%s no-failing-input-found' % (self.pid, path))
            violations += 1
        if self.proof_failures and not violations:
            path = self._write_replay('proof', {
                'property': self.pid, 'seed': self.seed, 'tier': self.tier, 'kind': 'proof-obligation-broken',
                'failures': self.proof_failures, 'theorems': self.obligations})
            lines.append('VIOLATION property=%s replay=%s no-failing-input-found' % (self.pid, path))
            violations += 1
        cov = {
            'obligations': len(self.obligations),
            'discharged': self.discharged,
            'checker_cmd': 'cd lean && lake build && lake env lean <Audit.lean with #print axioms for: %s>%s'
                           % (', '.join(self.obligations),
                              ' && lake env leanchecker ' + getattr(self, 'proof_module', '') if self.tier == 'thorough' else ''),
            'trusted_base': TRUSTED_BASE + self.assumptions,
            'theorems': self.obligations,
            'partial_theorems': self.partial,
            'evaluations': self.evaluations,
            'distinct_nontrivial': len(self.nontrivial),
            'rule': self.rule,
            'samples': self.samples or [{'note': 'no case generated'}],
            'traces_validated_against_impl': self.impl_traces,
            'input_distribution': self.dist,
            'disagreements': len(self.disagreements),
            'oracle_failures': len(self.oracle_failures),
            'known_findings_reproduced': sorted(known_printed),
            'exhaustive': self.exhaustive,
            'notes': self.notes,
            'translation_tie': self.gen_status,
        }
        cov.update(self.extra_cov)
        ev = {'property_id': self.pid, 'tier': self.tier, 'seed': self.seed, 'level': 'proof',
              'coverage': cov, 'assumptions': self.assumptions,
              'wall_s': round(time.time() - self.t0, 2), 'violations': violations}
        # development runs (--skip-proof) never overwrite the committed evidence
        ev_dir = os.path.join(VERIF, 'evidence') if not getattr(self, 'dev_run', False) \
            else os.path.join(SCRATCH_ROOT, 'evidence-dev')
        os.makedirs(ev_dir, exist_ok=True)
        with open(os.path.join(ev_dir, self.pid + '.json'), 'w') as f:
            json.dump(ev, f, indent=1, sort_keys=True, default=str)
        if self.gen_broken:
            lines.append('NOTE: property=%s translation tie unavailable for the current source; decided by the '
                         'correspondence tie with escalated search' % self.pid)
        for l in lines:
            print(l)
        print('%s %s seed=%d: %d cases (%d distinct non-trivial), %d/%d obligations, '
              '%d disagreements, %d oracle failures (%d known findings), %.1fs'
              % (self.pid, self.tier, self.seed, self.evaluations, len(self.nontrivial), self.discharged,
                 len(self.obligations), len(self.disagreements), len(self.oracle_failures),
                 len(known_printed), time.time() - self.t0))
        sys.stdout.flush()
        self.cleanup()
        return 1 if violations else 0

    def cleanup(self):
        shutil.rmtree(self.scratch, ignore_errors=True)


def regenerate(specs):
    """run the spec's translator (tools/py2lean.py, py2lean_fn.py or py2lean_fields.py) for every spec (paths relative to lean/); returns 'ok' or the reason"""
    status = 'ok'
    for sp in specs:
        spec_path = os.path.join(LEAN, sp)
        spec = json.load(open(spec_path))
        out = os.path.join(LEAN, spec['output'])
        os.makedirs(os.path.dirname(out), exist_ok=True)
        tmp = out + '.new'
        r = sh([sys.executable, os.path.join(VERIF, 'tools', spec.get('translator', 'py2lean.py')), spec_path, REPO, tmp])
        if r.returncode != 0:
            status = 'untranslatable: ' + (r.stdout + r.stderr).strip()[-300:]
            if os.path.exists(tmp):
                os.remove(tmp)
            continue
        new = open(tmp).read()
        if not os.path.exists(out) or open(out).read() != new:
            os.replace(tmp, out)
        else:
            os.remove(tmp)
    return status


def load_known():
    """known_findings.json plus per-property files known_findings.d/*.json (never written at run time)"""
    out = []
    p = os.path.join(VERIF, 'known_findings.json')
    if os.path.exists(p):
        out += json.load(open(p))['findings']
    d = os.path.join(VERIF, 'known_findings.d')
    if os.path.isdir(d):
        for f in sorted(os.listdir(d)):
            if f.endswith('.json'):
                out += json.load(open(os.path.join(d, f)))['findings']
    return out


def use_repo():
    """make `import rebench` resolve to /repo's working tree"""
    if REPO not in sys.path:
        sys.path.insert(0, REPO)
    sys.dont_write_bytecode = True
    import rebench  # noqa
    assert os.path.abspath(os.path.dirname(rebench.__file__)) == os.path.join(REPO, 'rebench'), rebench.__file__
