"""C20, thorough tier: the real ReBench CLI in a child process with a *fake* `sudo` first on PATH.

SAFETY.  The fake `sudo` never executes `denoise.py`: it logs its arguments, answers
`minimize` / `restore` from files, delivers `kill` only to processes of this scenario, and for
`… exec -- cmd` runs `cmd` itself.  `run_cli_session` refuses to start if `sudo` resolves to
anything but the fake on the PATH of the ReBench process, on the PATH configured for the
benchmark processes, or on the shell's default PATH.
"""
import json
import os
import shutil
import signal
import stat
import subprocess
import sys
import time

import lib

DEFAULT_SH_PATH = '/usr/local/sbin:/usr/local/bin:/usr/sbin:/usr/bin:/sbin:/bin'
SEP = '\x1f'

FAKE_SUDO = r'''#!/bin/sh
D='%(dir)s'
line="sudo"
for a in "$@"; do line="$line$(printf '\037')$a"; done
printf '%%s\n' "$line" >> "$D/log"
verb=""
for a in "$@"; do
  case "$a" in
    minimize) verb=minimize; break;;
    restore) verb=restore; break;;
    kill) verb=kill; break;;
    exec) verb=exec; break;;
  esac
done
case "$verb" in
  minimize)
    /bin/cat "$D/minimize.out"
    exit $(/bin/cat "$D/minimize.rc");;
  restore)
    # which benchmark processes of this scenario are still running at this very moment?
    # (a process killed directly with SIGKILL cannot log its own end)
    for pid in $(grep -a '^start' "$D/log" | cut -d"$(printf '\037')" -f2); do
      if [ -d "/proc/$pid" ] && ! grep -q '^State:[[:space:]]*Z' "/proc/$pid/status" 2>/dev/null; then
        if ! grep -a -q "^stop$(printf '\037')$pid" "$D/log"; then
          printf 'alive-at-restore%%s%%s\n' "$(printf '\037')" "$pid" >> "$D/log"
        fi
      fi
    done
    echo '{}'
    exit 0;;
  kill)
    for pid in "$@"; do :; done
    # only processes of this scenario are ever signalled
    if /bin/grep -q -a "$D" "/proc/$pid/cmdline" 2>/dev/null; then
      kill -9 "$pid" 2>/dev/null
      printf 'killed%%s%%s\n' "$(printf '\037')" "$pid" >> "$D/log"
    fi
    echo '{}'
    exit 0;;
  exec)
    while [ "$#" -gt 0 ] && [ "$1" != "--" ]; do shift; done
    shift
    exec "$@";;
esac
echo "fake sudo: nothing to do" >&2
exit 1
'''

FAKE_HARNESS = r'''#!/bin/sh
D='%(dir)s'
n=$(/bin/cat "$D/count" 2>/dev/null || echo 0)
n=$((n+1))
echo $n > "$D/count"
line="start$(printf '\037')$$$(printf '\037')$n"
for a in "$@"; do line="$line$(printf '\037')$a"; done
printf '%%s\n' "$line" >> "$D/log"
/bin/cat /proc/$$/environ > "$D/environ.$n"
how=$(/bin/cat "$D/behaviour")
at=$(/bin/cat "$D/at")
if [ "$n" = "$at" ]; then
  case "$how" in
    failed)
      printf 'stop%%s%%s\n' "$(printf '\037')" "$$" >> "$D/log"
      exit 1;;
    interrupt|terminate)
      sig=INT; [ "$how" = terminate ] && sig=TERM
      kill -$sig $(/bin/cat "$D/rebench.pid")
      /bin/sleep 2
      printf 'stop%%s%%s%%slate\n' "$(printf '\037')" "$$" "$(printf '\037')" >> "$D/log"
      exit 0;;
  esac
fi
echo "B: iterations=1 runtime: 10ms"
printf 'stop%%s%%s\n' "$(printf '\037')" "$$" >> "$D/log"
exit 0
'''

CRASH_ADAPTER = '''from rebench.interop.adapter import GaugeAdapter


class CrashAdapter(GaugeAdapter):
    def parse_data(self, data, run_id, invocation):
        raise RuntimeError("internal error injected by the harness")
'''


def _write_exec(path, text):
    with open(path, 'w') as f:
        f.write(text)
    os.chmod(path, os.stat(path).st_mode | stat.S_IXUSR | stat.S_IXGRP | stat.S_IXOTH)


def run_cli_session(wd, sc, report_bytes, report_rc, repo):
    """sc: scenario dict (path, env, profiling=False, no_denoise, at). Returns dict with log, exit, stderr."""
    fake_dir = os.path.join(wd, 'fakebin')
    os.makedirs(fake_dir)
    fake = os.path.join(fake_dir, 'sudo')
    _write_exec(fake, FAKE_SUDO % {'dir': wd})
    _write_exec(os.path.join(wd, 'h.sh'), FAKE_HARNESS % {'dir': wd})
    with open(os.path.join(wd, 'minimize.out'), 'wb') as f:
        f.write(report_bytes)
    for name, val in (('minimize.rc', str(report_rc)), ('behaviour', sc['path']), ('at', str(sc.get('at', 2))),
                      ('log', '')):
        with open(os.path.join(wd, name), 'w') as f:
            f.write(val + ('\n' if val and name != 'log' else ''))
    child_path = fake_dir + ':/usr/bin:/bin'
    run_env = dict(sc['env'])
    run_env['PATH'] = child_path
    # ---- safety
    for p in (child_path, run_env['PATH']):
        found = shutil.which('sudo', path=p)
        if found is None or os.path.realpath(found) != os.path.realpath(fake):
            raise lib.InfraError('refusing to run: sudo on PATH %r resolves to %r, not the fake' % (p, found))
    if shutil.which('sudo', path=DEFAULT_SH_PATH) is not None:
        raise lib.InfraError('refusing to run: a real sudo exists on the default PATH')
    if sc.get('sudo_missing'):
        os.unlink(fake)
    # the second benchmark has its own env map: a different set of variables to forward
    run_env_b2 = dict(run_env)
    run_env_b2['ONLY_B2'] = 'x'
    run_env_b2.pop('A', None)
    b2 = {'env': run_env_b2}
    if sc['path'] == 'ui_error':
        b2['extra_args'] = '%z'
    suite = {'gauge_adapter': 'RebenchLog', 'command': 'h %(benchmark)s %(invocation)s',
             'benchmarks': ['B1', {'B2': b2}]}
    if sc['path'] == 'crash':
        with open(os.path.join(wd, 'crash_adapter.py'), 'w') as f:
            f.write(CRASH_ADAPTER)
        suite['gauge_adapter'] = {'CrashAdapter': './crash_adapter.py'}
    cfg = {'default_experiment': 'T', 'default_data_file': 't.data',
           'runs': {'invocations': 2, 'min_iteration_time': 0, 'env': run_env},
           'benchmark_suites': {'S': suite}, 'executors': {'E': {'path': wd, 'executable': 'h.sh'}},
           'experiments': {'T': {'suites': ['S'], 'executions': ['E']}}}
    import yaml
    conf = os.path.join(wd, 'test.conf')
    with open(conf, 'w') as f:
        yaml.safe_dump(cfg, f, default_flow_style=False, sort_keys=False)
    env = {'PATH': child_path, 'HOME': wd, 'PYTHONPATH': repo, 'PYTHONDONTWRITEBYTECODE': '1',
           'PYTHONHASHSEED': '0', 'LANG': 'C.UTF-8'}
    argv = [sys.executable, '-B', '-c',
            'import sys; from rebench.rebench import main_func; sys.exit(main_func())', conf]
    if sc['no_denoise']:
        argv.append('-D')
    p = subprocess.Popen(argv, cwd=wd, env=env, stdout=subprocess.PIPE, stderr=subprocess.PIPE)
    with open(os.path.join(wd, 'rebench.pid'), 'w') as f:
        f.write('%d\n' % p.pid)
    try:
        out, err = p.communicate(timeout=60)
    except subprocess.TimeoutExpired:
        p.kill()
        raise lib.InfraError('CLI session did not finish')
    rc = p.returncode
    t_end = time.time()
    lines = [l for l in open(os.path.join(wd, 'log'), errors='surrogateescape').read().split('\n') if l]
    events = [l.split(SEP) for l in lines]
    # benchmark processes of this scenario that are still alive after ReBench has exited
    left = []
    started = [e[1] for e in events if e[0] == 'start']
    stopped = set(e[1] for e in events if e[0] == 'stop')
    killed = set(e[1] for e in events if e[0] == 'killed')
    for pid in started:
        if pid in stopped:
            continue
        try:
            with open('/proc/%s/cmdline' % pid, 'rb') as f:
                cl = f.read()
            with open('/proc/%s/stat' % pid) as f:
                state = f.read().rsplit(')', 1)[1].split()[0]
        except OSError:
            continue
        if wd.encode() in cl and state != 'Z':
            left.append(pid)
            os.kill(int(pid), signal.SIGKILL)      # this very pid, a process of this scenario
    envs = {}
    for n in range(1, 10):
        f = os.path.join(wd, 'environ.%d' % n)
        if os.path.exists(f):
            d = {}
            for kv in open(f, 'rb').read().split(b'\0'):
                if kv:
                    k, _, v = kv.decode('utf-8', 'surrogateescape').partition('=')
                    d[k] = v
            envs[n] = d
    return {'events': events, 'exit': rc, 'stdout': out.decode('utf-8', 'replace'),
            'stderr': err.decode('utf-8', 'replace'), 'left_running': left, 'killed': sorted(killed),
            'envs': envs, 'fake_sudo': fake, 'run_env': run_env, 'run_env_b2': run_env_b2, 'wall': t_end}
