"""Helpers shared by the data-file properties C09 and C14.

* `Scenario`: a generated configuration in a work directory, a scripted harness
  that encodes a unique serial number in every value it prints, and a log of
  what every start printed.
* `parse_file`: an independent reader of the data-file text (does not use any
  ReBench code): line kinds, well-formed measurement lines, serial numbers.
* `observe_loads`: records what the real loader hands to `RunId.loaded_data_point`.
"""
import contextlib
import json
import os
import re

import drive

COLS = ["invocation", "iteration", "value", "unit", "criterion", "benchmark", "executor", "suite",
        "extraArgs", "cores", "inputSize", "varValue", "tag", "machine", "runId"]
HDR = "\t".join(COLS)
VALUE_RE = re.compile(r'^\d+\.\d{6}$')

SERIAL_BASE = 100000  # fixed width: a torn value can never equal another serial


class Scenario(object):
    """benchmarks: list of names; one suite S, one executor E, experiment T (+ optional second experiment)"""

    def __init__(self, wd, benchmarks, invocations, iterations, crits, data_file='t.data',
                 second_exp=None, profile=False, third_exp=None, unicode_text=False,
                 text_fields=None, bench_args=None):
        self.wd = wd
        self.benchmarks = list(benchmarks)
        self.invocations = invocations
        self.iterations = iterations   # data points per invocation
        self.crits = crits             # extra criteria per data point
        self.data_file = data_file
        self.second_exp = second_exp   # None | dict(benchmarks=[...], data_file=None|name)
        self.third_exp = third_exp     # same, experiment V (suite S3, executor E3)
        self.profile = profile
        self.serial = SERIAL_BASE
        self.session = 0
        self.bench_args = bench_args or {}     # benchmark name -> extra_args (suite S)
        self.text_fields = text_fields or {}   # e.g. {'variable_values': ['a\u2028b'], 'input_sizes': ['1\x0c2']}
        self.unicode_text = unicode_text   # non-ASCII text in fields that are recorded in the JSON metadata
        self.encoding = 'utf-8'            # 'latin-1': read()/write() work on bytes (one char = one byte)
        self.fail_exes = set()         # executables (exe, exe2, exe3) whose every invocation fails
        self.starts = []               # dicts: session, bench, exe, dps: [[(crit, serial), …, ('total', serial)], …]
        os.makedirs(wd, exist_ok=True)
        self.conf = drive.write_config(wd, self.config())

    def config(self):
        suites = {'S': {'gauge_adapter': 'RebenchLog', 'command': 'h %(benchmark)s',
                        'benchmarks': [({b: {'extra_args': self.bench_args[b]}} if b in self.bench_args else b)
                                       for b in self.benchmarks]}}
        executors = {'E': {'path': '.', 'executable': 'exe'}}
        exps = {'T': {'suites': ['S'], 'executions': ['E']}}
        if self.unicode_text:
            # 2-, 3- and 4-byte UTF-8 characters in fields that only occur in the metadata records
            suites['S']['description'] = u'Micro-benchmarks de r\u00e9f\u00e9rence \u2013 s\u00e9rie \u03b1 \U0001F600'
            executors['E']['description'] = u'ex\u00e9cuteur \u2713 gr\u00f6\u00dfe'
            executors['E']['env'] = {'LABEL': u'na\u00efve \u65e5\u672c'}
        if self.profile:
            executors['E']['profiler'] = {'perf': {}}
            exps['T']['action'] = 'profile'
        if self.second_exp:
            suites['S2'] = {'gauge_adapter': self.second_exp.get('adapter', 'RebenchLog'), 'command': 'h2 %(benchmark)s',
                            'benchmarks': list(self.second_exp['benchmarks'])}
            executors['E2'] = {'path': '.', 'executable': 'exe2'}
            exps['U'] = {'suites': ['S2'], 'executions': ['E2']}
            if self.second_exp.get('data_file'):
                exps['U']['data_file'] = self.second_exp['data_file']
        if self.third_exp:
            suites['S3'] = {'gauge_adapter': 'RebenchLog', 'command': 'h3 %(benchmark)s',
                            'benchmarks': list(self.third_exp['benchmarks'])}
            executors['E3'] = {'path': '.', 'executable': 'exe3'}
            exps['V'] = {'suites': ['S3'], 'executions': ['E3']}
            if self.third_exp.get('data_file'):
                exps['V']['data_file'] = self.third_exp['data_file']
        for su in suites.values():
            su.update({k: list(v) for k, v in self.text_fields.items()})
        return {'default_experiment': 'T', 'default_data_file': self.data_file,
                'runs': {'invocations': self.invocations},
                'benchmark_suites': suites, 'executors': executors, 'experiments': exps}

    @property
    def data_path(self):
        return os.path.join(self.wd, self.data_file + ('.profiles' if self.profile else ''))

    def next_serial(self):
        self.serial += 1
        return self.serial

    def script(self, rec):
        """scripted harness: prints `iterations` data points with `crits` extra criteria each"""
        args = rec['args']
        toks = args.split()
        if self.profile:
            return self._profile_script(rec, toks)
        hi = next(i for i, t in enumerate(toks) if t in ('h', 'h2', 'h3'))
        bench = toks[hi + 1]   # (extra arguments of the benchmark follow it)
        suite_cmd = toks[hi]   # 'h' (suite S) or 'h2' (suite S2)
        if toks[0].rsplit('/', 1)[-1] in self.fail_exes:
            return drive.Outcome(1, 'benchmark failed\n')
        dps = []
        out = ''
        if suite_cmd == 'h2' and self.second_exp and self.second_exp.get('adapter') == 'ValidationLog':
            # ValidationLog: a boolean `Success` measurement and the total per data point
            for _it in range(self.iterations):
                s = self.next_serial()
                dps.append([('total', s)])
                out += '%s: iterations=1 runtime: %dms success: true\n' % (bench, s)
            self.starts.append({'session': self.session, 'bench': bench, 'exe': toks[0].rsplit('/', 1)[-1],
                                'dps': dps, 'n': len(self.starts)})
            return drive.Outcome(0, out)
        for _it in range(self.iterations):
            dp = []
            for c in range(self.crits):
                s = self.next_serial()
                dp.append(('c%d' % c, s))
                out += '%s: c%d: %dkb\n' % (bench, c, s)
            s = self.next_serial()
            dp.append(('total', s))
            out += '%s: iterations=1 runtime: %dms\n' % (bench, s)
            dps.append(dp)
        self.starts.append({'session': self.session, 'bench': bench, 'exe': toks[0].rsplit('/', 1)[-1],
                            'dps': dps, 'n': len(self.starts)})
        return drive.Outcome(0, out)

    def _profile_script(self, rec, toks):
        """`perf record … <cmd>` starts the invocation; `perf report …` delivers the profile,
        whose symbol name carries the serial"""
        if 'report' in toks:
            s = self.next_serial()
            self.starts.append({'session': self.session, 'bench': self._last[0], 'exe': self._last[1],
                                'dps': [[('profile', s)]], 'n': len(self.starts)})
            return drive.Outcome(0, '# perf\n    50.00%%  exe  libx.so  [.] sym%d\n' % s)
        hi = next(i for i, t in enumerate(toks) if t in ('h', 'h2', 'h3'))
        self._last = (toks[hi + 1], toks[hi - 1].rsplit('/', 1)[-1])
        if self._last[1] in self.fail_exes:
            return drive.Outcome(1, 'benchmark failed\n')
        return drive.Outcome(0, '')

    def run(self, extra_argv=(), filters=()):
        self.session += 1
        with cached_config(), scripted_debug_mode('-d' in extra_argv or '--debug' in extra_argv):
            return drive.run_session(self.wd, list(extra_argv) + [self.conf] + list(filters), self.script)

    def read(self):
        if not os.path.exists(self.data_path):
            return None
        with open(self.data_path, 'r', newline='', encoding=self.encoding) as f:
            return f.read()

    def write(self, text):
        with open(self.data_path, 'w', newline='', encoding=self.encoding) as f:
            f.write(text)

    def serial_index(self):
        """serial -> (start index, data point index, criterion)"""
        idx = {}
        for st in self.starts:
            for j, dp in enumerate(st['dps']):
                for (c, s) in dp:
                    idx[s] = (st['n'], j, c)
        return idx


@contextlib.contextmanager
def scripted_debug_mode(active):
    """`-d` also makes ReBench stream the child's output through real file descriptors and select();
    scripted processes have none.  The debug flag is left as it is for everything else (UI, loader
    messages); only the `verbose` argument of subprocess_with_timeout.run is switched off."""
    if not active:
        yield
        return
    from rebench import subprocess_with_timeout as swt
    from rebench.model import profiler as prof
    real = swt.run

    def run(*a, **kw):
        kw['verbose'] = False
        return real(*a, **kw)
    saved_prof = prof.run
    swt.run = run
    prof.run = run
    try:
        yield
    finally:
        swt.run = real
        prof.run = saved_prof


_CONFIG_CACHE = {}


@contextlib.contextmanager
def cached_config():
    """Loading + schema validation of the (unchanged) configuration file costs more than the rest of
    a session (pykwalify re-reads its schema with a pure-Python YAML parser every time).  The
    data-file properties do not concern configuration loading: the validated raw configuration is
    memoised per (file, mtime, size) and handed out as a deep copy.  Patched from outside at the
    name `rebench.rebench.load_config`."""
    import copy
    from rebench import rebench as rb_main
    real = rb_main.load_config

    def memo(file_name):
        try:
            st = os.stat(file_name)
            key = (os.path.abspath(file_name), st.st_mtime_ns, st.st_size)
        except OSError:
            return real(file_name)
        if key not in _CONFIG_CACHE:
            _CONFIG_CACHE[key] = real(file_name)
        return copy.deepcopy(_CONFIG_CACHE[key])
    rb_main.load_config = memo
    try:
        yield
    finally:
        rb_main.load_config = real


# ------------------------------------------------------------ independent parser
def _name(col):
    """a name column of a text that was read as bytes (latin-1): the name as the configuration has it"""
    try:
        return col.encode('latin-1').decode('utf-8')
    except (UnicodeEncodeError, UnicodeDecodeError):
        return col


def parse_file(text):
    """list of line dicts: kind, text (without newline), terminated, start, end (offsets incl. newline)"""
    out = []
    pos = 0
    n = len(text)
    while pos < n:
        j = text.find('\n', pos)
        if j < 0:
            line, term, end = text[pos:], False, n
        else:
            line, term, end = text[pos:j], True, j + 1
        d = {'text': line, 'terminated': term, 'start': pos, 'end': end}
        if line.startswith('#!'):
            d['kind'] = 'session'
        elif line.startswith('# benchmark: '):
            d['kind'] = 'bench_meta'
        elif line.startswith('# run_id: '):
            d['kind'] = 'run_meta'
        elif line.startswith('#'):
            d['kind'] = 'comment'
        elif line == HDR:
            d['kind'] = 'header'
        else:
            cols = line.split('\t')
            if (len(cols) >= 14 and cols[0].isdigit() and cols[1].isdigit() and cols[-1].isdigit()
                    and (VALUE_RE.match(cols[2]) or cols[2] in ('True', 'False'))
                    and cols[0].isascii() and cols[1].isascii() and cols[-1].isascii()):
                # 15 columns; 14 in the layout of older versions (no machine column); more when a text
                # column (extra arguments) contains a tab: the loader reads the first five and the last
                d['kind'] = 'meas'
                d['inv'] = int(cols[0])
                d['it'] = int(cols[1])
                d['value'] = float(cols[2]) if VALUE_RE.match(cols[2]) else (cols[2] == 'True')
                d['serial'] = int(cols[2].split('.')[0]) if cols[2].endswith('.000000') else None
                d['crit'] = cols[4]
                d['bench'] = _name(cols[5])
                d['exe'] = _name(cols[6])
                d['run_col'] = int(cols[-1])
            elif (len(cols) >= 13 and cols[0].isdigit() and cols[1].isdigit() and cols[-2].isdigit()
                  and cols[-1].startswith('[') and _is_json(cols[-1])):
                # profile data line: invocation, numIterations, run columns, json
                d['kind'] = 'prof'
                d['crit'] = 'profile'
                d['json'] = cols[-1]
                d['inv'] = int(cols[0])
                d['bench'] = _name(cols[2])
                d['exe'] = _name(cols[3])
                d['run_col'] = int(cols[-2])
                m = re.search(r'sym(\d+)', cols[-1])
                d['serial'] = int(m.group(1)) if m else None
            else:
                d['kind'] = 'other'
        out.append(d)
        pos = end
    return out


def _is_json(t):
    try:
        json.loads(t)
        return True
    except ValueError:
        return False


def payload_tables(lines, key_of_bench, key_of_run):
    """the complete, valid metadata payloads in a parsed file -> model tables.
    A payload counts only if it is valid JSON of the expected shape and its line is
    terminated or last (the model decides what to do with unterminated lines)."""
    bench, run = {}, {}
    for d in lines:
        if d['kind'] not in ('bench_meta', 'run_meta'):
            continue
        pre = '# benchmark: ' if d['kind'] == 'bench_meta' else '# run_id: '
        rest = d['text'][len(pre):]
        if '=' not in rest:
            continue
        _i, js = rest.split('=', 1)
        try:
            obj = json.loads(js)
        except ValueError:
            continue
        if not isinstance(obj, dict):
            continue
        if d['kind'] == 'bench_meta':
            if 'name' in obj and 'suite' in obj:
                bench[js] = key_of_bench(obj)
        else:
            if 'cmdline' in obj and 'benchmark_id' in obj:
                run[js] = (key_of_run(obj), int(obj['benchmark_id']))
    return ([[p, k] for p, k in bench.items()], [[p, k[0], k[1]] for p, k in run.items()])


# ------------------------------------------------------------ loader observation
@contextlib.contextmanager
def observe_loads(log):
    """log.append((bench name, executor name, invocation, [(iteration, criterion, value)])) per loaded data point"""
    from rebench.model import run_id as rid
    orig = rid.RunId.loaded_data_point

    def wrapped(self, data_point, warmup):
        try:
            ms = [(m.iteration, m.criterion, m.value) for m in data_point.get_measurements()]
        except AttributeError:  # ProfileData
            ms = [(getattr(data_point, 'num_iterations', None), 'profile', getattr(data_point, 'processed_data', None))]
        log.append((self.benchmark.name, self.benchmark.suite.executor.name, data_point.invocation, ms))
        return orig(self, data_point, warmup)
    rid.RunId.loaded_data_point = wrapped
    try:
        yield log
    finally:
        rid.RunId.loaded_data_point = orig


class _FlushRecorder(object):
    def __init__(self, f, log):
        self._f = f
        self._log = log
        self._n = 0

    def write(self, s):
        self._n += len(s.encode('utf-8', 'surrogateescape'))    # offsets are byte offsets
        return self._f.write(s)

    def flush(self):
        self._log.append(self._n)
        return self._f.flush()

    def __getattr__(self, k):
        return getattr(self._f, k)


@contextlib.contextmanager
def observe_flushes(data_path, log):
    """log gets the number of characters written to the data file (opened for appending, as seen
    from rebench.persistence) at each flush"""
    from rebench import persistence as P
    had = 'open' in P.__dict__
    saved = P.__dict__.get('open')
    target = os.path.abspath(data_path)

    def traced_open(path, mode='r', *a, **kw):
        f = open(path, mode, *a, **kw)
        if isinstance(path, str) and os.path.abspath(path) == target and 'a' in mode:
            return _FlushRecorder(f, log)
        return f
    P.open = traced_open
    try:
        yield log
    finally:
        if had:
            P.open = saved
        else:
            del P.open


class Acc(object):
    """collects what a worker found; merged into the Check by `merge_into`"""

    def __init__(self):
        self.counts = {}
        self.cases = []          # (nontrivial_key, sample)
        self.disagreements = []  # (corr, inp, impl, model, theorems)
        self.oracle_failures = []  # (clause, inp, detail, signature)
        self.impl_traces = 0

    def count(self, k, n=1):
        self.counts[k] = self.counts.get(k, 0) + n

    def case(self, nontrivial_key=None, sample=None):
        self.cases.append((nontrivial_key, sample))

    def disagree(self, corr, inp, impl, model, theorems=None):
        self.disagreements.append((corr, inp, impl, model, theorems))

    def oracle_fail(self, clause, inp, detail, signature=None):
        self.oracle_failures.append((clause, inp, detail, signature))

    def merge_into(self, ck):
        for k, n in self.counts.items():
            ck.count(k, n)
        for (k, s) in self.cases:
            ck.case(nontrivial_key=k, sample=s)
        for d in self.disagreements:
            ck.disagree(*d)
        for f in self.oracle_failures:
            ck.oracle_fail(*f)
        ck.impl_traces += self.impl_traces


def debug_dump(ck):
    """development aid: VERIF_DEBUG=1 writes all disagreements / oracle failures of the run"""
    if os.environ.get('VERIF_DEBUG'):
        import lib
        p = os.path.join(lib.VERIF, 'replays')
        os.makedirs(p, exist_ok=True)
        with open(os.path.join(p, '%s-debug.json' % ck.pid), 'w') as f:
            json.dump({'disagreements': ck.disagreements, 'oracle_failures': ck.oracle_failures}, f, indent=1, default=str)
