"""C09 — the data file stays loadable and unmixed after a crash at any write point.

Correspondence: a real session B appends to a (possibly empty) old file; for a
cut k the file is old + appended[:k]; two further real sessions (C, D) and a
loading-only session (E) follow, in-process, with a scripted harness whose
values are unique serial numbers.  The text each session loads is also given to
the Lean model (`c09.load`: text -> records -> loader -> what the next session
executes) and the two are compared: how the load ends, the data points handed
to `RunId.loaded_data_point`, the invocations started afterwards.
Oracle (independent of the model): an independent parser attributes every
well-formed line to the data point of the start that printed it (by serial).
"""
import multiprocessing
import os
import shutil

import lib
import drive
import drive_datafile as dd

THEOREMS = ['RB.Loader.c09_load_total', 'RB.Loader.c09_load_after_any_prefix']
VARIANT = os.environ.get('VERIF_MODEL_VARIANT', 'repaired')
DECODE = os.environ.get('VERIF_C09_DECODE', 'tolerant')   # development: 'strict' = loader that raises UnicodeDecodeError
PROFILE_JSON = os.environ.get('VERIF_C09_PROFILE_JSON', 'checked')   # development: 'any' = loader without the JSON check


# ------------------------------------------------------------------ scenarios
def gen_params(rng, idx):
    fixed = [
        # empty old file (header in the appended bytes), multi-criterion, multi-iteration
        {'benchmarks': ['B', 'C'], 'old': [], 'invocations': 2, 'iterations': 2, 'crits': 1},
        # old file holds run B completely; B's data is reloaded, C and D are new (metadata records appended)
        # (names with braces; the later sessions run in debug mode, where the loader reports the damaged
        # lines it tolerates - their text goes through str.format)
        {'benchmarks': ['B', 'C{1}', 'D{x}'], 'old': ['B'], 'invocations': 3, 'iterations': 1, 'crits': 2,
         'debug': True},
        # three data points per invocation, no extra criteria
        # (non-ASCII benchmark names: they are written as they are into the measurement lines and the
        # `#!` line, so a cut can fall between the bytes of a character)
        {'benchmarks': [u'B\u00e97', u'C\u65e5'], 'old': [u'C\u65e5'], 'invocations': 2, 'iterations': 3, 'crits': 0,
         # characters that only str.splitlines treats as line breaks, written as they are into the lines
         'text_fields': {'variable_values': [u'a\u2028b\x0cc'], 'input_sizes': [u'1\x0b2\x85\x1c']}},
        # a profile data file: one line per invocation, run id in the column before the JSON column
        {'benchmarks': ['B', 'C'], 'old': ['B'], 'invocations': 2, 'iterations': 1, 'crits': 0, 'profile': True},
    ]
    # non-ASCII text (descriptions, an env value) in fields that are recorded in the JSON metadata:
    # the appended bytes stay ASCII only because the records are written with ensure_ascii
    fixed[0]['unicode'] = True
    # the command line of the later sessions ends in `=7`: a metadata record torn behind its prefix and
    # glued to that `#!` line has the JSON payload `7`
    fixed[0]['argv_tail'] = ['--build-log=7']
    fixed[1]['unicode'] = True
    if idx < len(fixed):
        return fixed[idx]
    nb = rng.randint(1, 3)
    names = rng.sample(['B', 'C', 'D', 'Fib', 'N1', u'G\u00fc', u'\u03a9m', 'K{0}', 'L}{'], nb)
    old = [b for b in names if rng.random() < 0.4]
    if len(old) == len(names):
        old = old[:-1]
    uni = rng.random() < 0.5
    extra = {'debug': rng.random() < 0.4,
             'argv_tail': rng.choice([None, None, ['--build-log=7'], ['--build-log=true'], ['--build-log="x"'],
                                       ['--build-log={}'], ['--build-log=[]']])}
    if rng.random() < 0.25:
        return {'benchmarks': names, 'old': old, 'invocations': rng.randint(1, 3), 'iterations': 1, 'crits': 0,
                'profile': True, 'unicode': uni, **extra}
    return {'benchmarks': names, 'old': old, 'invocations': rng.randint(1, 3),
            'iterations': rng.randint(1, 3), 'crits': rng.randint(0, 2), 'unicode': uni, **extra}


class Base(object):
    """scenario + old text + what session B appended"""

    def __init__(self, wd, params):
        self.params = params
        shutil.rmtree(wd, ignore_errors=True)
        self.profile = bool(params.get('profile'))
        self.scn = dd.Scenario(wd, params['benchmarks'], params['invocations'], params['iterations'], params['crits'],
                               profile=self.profile, unicode_text=bool(params.get('unicode')),
                               text_fields=params.get('text_fields'))
        # the file is handled as bytes (latin-1: one character per byte), so that a cut can fall
        # between the bytes of a multi-byte character, like a power loss can
        self.scn.encoding = 'latin-1'
        scn = self.scn
        self.problems = []
        if params['old']:
            r = scn.run(filters=['s:S:' + b for b in params['old']])
            if r.crash or r.exit not in (0, 1):  # 1: a completed run was part of the session (C10)
                self.problems.append(('session A', r.status(), r.crash, r.stderr[-300:]))
        self.old = scn.read() or ''
        self.flushes = []
        with dd.observe_flushes(scn.data_path, self.flushes):
            r = scn.run()
        if r.crash or r.exit not in (0, 1):  # 1: a completed run was part of the session (C10)
            self.problems.append(('session B', r.status(), r.crash, r.stderr[-300:]))
        full = scn.read() or ''
        if not full.startswith(self.old):
            self.problems.append(('session B did not append', None, None, None))
        self.appended = full[len(self.old):]
        self.base_starts = list(scn.starts)
        self.base_serial = scn.serial
        self.base_session = scn.session
        self.lines = dd.parse_file(self.appended)
        # side condition of the byte-prefix theorem: what a session appends is ASCII (the metadata
        # records are written with ensure_ascii, names and command line of the scenario are ASCII)
        self.non_ascii = [i for i, c in enumerate(self.appended) if ord(c) >= 0x80]
        # process-kill model: what can be on disk when the process dies are the flush boundaries.
        # The model's writer flushes after the session block and after every data point.
        want = set()
        seen_data = False
        for d in self.lines:
            if d['kind'] in ('bench_meta', 'run_meta', 'meas', 'prof') and not seen_data:
                seen_data = True
                want.add(d['start'])          # end of the session block (and header)
            if (d['kind'] == 'meas' and d['crit'] == 'total') or d['kind'] == 'prof':
                want.add(d['end'])
        self.flush_offsets = sorted(set(self.flushes))
        if set(self.flushes) != want:
            self.problems.append(('flush boundaries differ from one per session block and one per data point',
                                  sorted(set(self.flushes) - want)[:5], sorted(want - set(self.flushes))[:5], None))
        # precondition of every cut: the sessions recorded what the harness printed
        done = complete_dps(full, scn.starts)
        missing = [(st['n'], j) for st in scn.starts for j in range(len(st['dps'])) if (st['n'], j) not in done]
        if missing or not scn.starts:
            self.problems.append(('data points printed by the harness are not completely in the data file',
                                  missing[:5], len(scn.starts), None))

    def reset(self, k):
        scn = self.scn
        scn.starts = [dict(s) for s in self.base_starts]
        scn.serial = self.base_serial
        scn.session = self.base_session
        scn.write(self.old + self.appended[:k])


def classify_cut(base, k):
    """structural class of the cut position k in the appended bytes"""
    app = base.appended
    lines = base.lines
    if k == 0 or app[k - 1] == '\n':
        prev = None
        nxt = None
        for d in lines:
            if d['end'] == k:
                prev = d
            if d['start'] == k:
                nxt = d
        if prev is None:
            return 'boundary:start'
        if nxt is None:
            return 'boundary:end'
        if prev['kind'] == 'meas' and prev['crit'] != 'total':
            return 'boundary:mid_data_point'
        if prev['kind'] == 'meas' and nxt['kind'] == 'meas' and (prev['inv'], prev['run_col']) == (nxt['inv'], nxt['run_col']):
            return 'boundary:between_data_points_of_invocation'
        if prev['kind'] in ('meas', 'prof'):
            return 'boundary:after_invocation'
        return 'boundary:after_' + prev['kind']
    for d in lines:
        if d['start'] < k < d['end']:
            kind = d['kind']
            if kind in ('bench_meta', 'run_meta'):
                return 'inside:metadata_line' + (':at_end' if k == d['end'] - 1 else '')
            if kind in ('meas', 'prof'):
                nf = app[d['start']:k].count('\t')
                at_field_end = app[k] in '\t\n'
                return 'inside:%s_line:field%d%s' % ('measurement' if kind == 'meas' else 'profile', nf,
                                                     ':complete' if at_field_end else '')
            return 'inside:%s_line' % kind
    return 'inside:unknown'


def line_index(base, k):
    """(index of the line that contains offset k or starts at k, offset inside it)"""
    for i, d in enumerate(base.lines):
        if d['start'] <= k < d['end']:
            return i, k - d['start']
    return len(base.lines), 0


def cut_points(base, rng, tier, n_random):
    app = base.appended
    n = len(app)
    if tier == 'thorough':
        return list(range(n + 1))
    cuts = set([0, n])
    for d in base.lines:
        cuts.add(d['end'])                      # every line boundary (includes every flush boundary)
    seen_kinds = {}
    for d in base.lines:
        c = seen_kinds.get(d['kind'], 0)
        lim = 1
        if d['kind'] == 'meas' and d['crit'] == 'total':
            c = seen_kinds.get('meas_total', 0)
            key = 'meas_total'
        else:
            key = d['kind']
        if c >= lim:
            continue
        seen_kinds[key] = c + 1
        s, e = d['start'], d['end']
        cuts.update([s + 1, (s + e) // 2, e - 1])   # just inside, middle, everything but the newline
        if d['kind'] in ('meas', 'prof'):
            for i in range(s, e):
                if app[i] == '\t':
                    cuts.update([i, i + 1])        # after every field, and after every separator
            if d['kind'] == 'prof':
                cuts.update([e - 6, e - 3])       # inside the JSON column
        if d['kind'] in ('bench_meta', 'run_meta'):
            eq = app.index('=', s)
            cuts.update([eq, eq + 1, eq + 2, s + 5, s + 12, s + 14])
    for p_ in base.non_ascii[:24]:
        cuts.update([p_, p_ + 1])                  # between the bytes of multi-byte characters
    for _ in range(n_random if n > 2 else 0):
        cuts.add(rng.randint(1, n - 1))
    return sorted(c for c in cuts if 0 <= c <= n)


# ------------------------------------------------------------------ one cut
def eval_cut(base, k):
    """run sessions C, D (real) and E (load only) after the cut; returns the observation"""
    scn = base.scn
    base.reset(k)
    sessions = []
    for name in ('C', 'D', 'E'):
        before = scn.read() or ''
        loads = []
        n0 = len(scn.starts)
        opts = (['-d'] if base.params.get('debug') else []) + (['-E'] if name == 'E' else [])
        with dd.observe_loads(loads):
            r = scn.run(opts, filters=base.params.get('argv_tail') or [])
        sessions.append({'name': name, 'before': before, 'status': r.status(),
                         'crash': list(r.crash) if r.crash else None,
                         'stderr': r.stderr[-400:] if (r.crash or r.exit in (3, 4)) else '',
                         'loads': loads, 'starts': [s['n'] for s in scn.starts[n0:]]})
    return {'k': k, 'cut_in': classify_cut(base, k), 'sessions': sessions, 'final': scn.read() or '',
            'starts': [dict(s) for s in scn.starts]}


def model_op(base, text):
    names = base.params['benchmarks']
    lines = dd.parse_file(text)

    def key_of_bench(obj):
        return names.index(obj['name']) if obj['name'] in names else 99

    def key_of_run(obj):
        b = obj['cmdline'].split()[-1]
        return names.index(b) if b in names else 99
    bp, rp = dd.payload_tables(lines, key_of_bench, key_of_run)
    prof = None
    if base.profile:
        prof = 'any' if PROFILE_JSON == 'any' else sorted(set(d['json'] for d in lines if d['kind'] == 'prof'))
    op = {'op': 'c09.load', 'text': text, 'hdr': dd.HDR, 'variant': VARIANT, 'profile_json': prof,
          'decode_tolerant': DECODE != 'strict',
            'bench_payloads': bp, 'run_payloads': rp,
          'cfg': [[i, i, base.params['invocations'], base.params['iterations']] for i in range(len(names))]}
    if VARIANT.startswith('custom:'):  # development: e.g. custom:1,0,0 = only the first repair
        a, b, c = [x == '1' for x in VARIANT[7:].split(',')]
        op.update({'variant': 'custom', 'metaTolerant': a, 'resetAtComment': b, 'skipUnterminated': c})
    return op


STATUS_OF_END = {'ok': ('ok', 'failed'), 'uiError': ('ui_error',),
                 'crash:value': ('crash:ValueError', 'crash:JSONDecodeError'),
                 'crash:index': ('crash:IndexError',), 'crash:assertion': ('crash:AssertionError',),
                 'crash:decode': ('crash:UnicodeDecodeError',)}


def complete_dps(text, starts):
    """independent attribution: which produced data points are completely (well-formed, terminated
    lines, right criterion and benchmark) in the text.  -> dict (start n, dp index) -> [line dicts]"""
    by_serial = {}
    for d in dd.parse_file(text):
        if d['kind'] in ('meas', 'prof') and d['terminated'] and d['serial'] is not None:
            by_serial.setdefault(d['serial'], []).append(d)
    out = {}
    for st in starts:
        for j, dp in enumerate(st['dps']):
            ls = []
            for (c, s) in dp:
                cand = [d for d in by_serial.get(s, []) if d['crit'] == c and d['bench'] == st['bench']]
                if len(cand) != 1:
                    ls = None
                    break
                ls.append(cand[0])
            if ls is not None:
                out[(st['n'], j)] = ls
    return out


def serial_of(base, v):
    """the serial number a loaded value carries"""
    if base.profile:
        import re
        m = re.search(r'sym(\d+)', str(v))
        return int(m.group(1)) if m else -1
    return int(v)


def norm_ms(base, ms, side):
    """measurements of a loaded data point in a comparable form"""
    if base.profile:
        # one line = one data point: (number of iterations, the JSON column as text)
        return [[it, str(v)] for (it, _c, v) in ms]
    return [[it, c, float(v)] for (it, c, v) in ms]


def judge_cut(acc, base, obs, answers, writer=(None, None)):
    """model comparison and oracle for one cut; answers: the model's answer per session"""
    names = base.params['benchmarks']
    k, cut_in = obs['k'], obs['cut_in']
    inp = {'params': base.params, 'cut': k, 'cut_in': cut_in, 'line': list(line_index(base, k)),
           'tail_before_cut': base.appended[max(0, k - 60):k], 'head_after_cut': base.appended[k:k + 30]}
    acc.count('cut:' + cut_in.split(':field')[0])
    if k in base.flush_offsets:
        acc.count('cut-at-flush-boundary')
    if 0 < k < len(base.appended) and 0x80 <= ord(base.appended[k]) < 0xC0:
        acc.count('cut-inside-multi-byte-character')
    starts = obs['starts']
    sidx = {}
    for st in starts:
        for j, dp in enumerate(st['dps']):
            for (c, s) in dp:
                sidx[s] = (st['n'], j)
    nontrivial = k not in (0, len(base.appended))
    acc.case(nontrivial_key=(str(base.params), k) if nontrivial else None,
             sample={'params': base.params, 'cut': k, 'cut_in': cut_in,
                     'statuses': [s['status'] for s in obs['sessions']]})
    acc.impl_traces += 3
    # ---------------- model vs implementation
    for ses, ans in zip(obs['sessions'], answers):
        acc.count('model-end:' + ans['end'])
        if ses['status'] not in STATUS_OF_END.get(ans['end'], ()):
            acc.disagree('c09.load: how the load ends (session %s)' % ses['name'], inp,
                         {'status': ses['status'], 'crash': ses['crash'], 'stderr': ses['stderr']},
                         {'end': ans['end']}, THEOREMS)
            continue
        if ans['end'] != 'ok':
            continue
        impl_loaded = [[names.index(b) if b in names else 99, inv, norm_ms(base, ms, 'impl')]
                       for (b, _e, inv, ms) in ses['loads']]
        model_loaded = [[r, inv, norm_ms(base, ms, 'model')] for (r, inv, ms) in ans['loaded']]
        if impl_loaded != model_loaded:
            acc.disagree('c09.load: data points handed to loaded_data_point (session %s)' % ses['name'], inp,
                         {'loaded': impl_loaded}, {'loaded': model_loaded}, THEOREMS)
        if ses['name'] != 'E':
            # the invocations the session starts, per run, with their numbers as written to the file
            done = complete_dps(obs['final'], starts)
            impl_todo = {}
            for n in ses['starts']:
                st = starts[n]
                invs = sorted(set(l['inv'] for (sn, _j), ls in done.items() if sn == n for l in ls))
                impl_todo.setdefault(names.index(st['bench']), []).append(invs[0] if len(invs) == 1 else invs)
            model_todo = {r: t for (r, t) in ans['todo'] if t}
            if impl_todo != model_todo:
                acc.disagree('c09.load: invocations executed by the next session (session %s)' % ses['name'], inp,
                             {'started': impl_todo}, {'todo': model_todo}, THEOREMS)
    # writer model: the records a session appended
    for ses, w in zip(obs['sessions'][:2], writer):
        if w is None:
            continue
        model_recs, impl, rendered, real_text = w
        impl_recs = list(impl['recs'])
        acc.count('renderer-compared')
        # the side conditions of the byte-prefix theorem, evaluated by the model on this very session.
        # `cmdOk` (the command line does not end like a JSON value) is a condition on the generated input:
        # command lines ending in } ] " are generated on purpose and only counted
        cmd = real_text.split('\n')[0][2:]
        cmd_expected = not cmd.endswith(('}', ']', '"')) and '\t' not in cmd
        if not rendered['cmd_ok']:
            acc.count('session-outside-side-condition-cmdOk')
        if not (rendered['rend_ok'] and rendered['dps_ok']) or rendered['cmd_ok'] != cmd_expected:
            acc.disagree('c09.render: the side conditions of the byte-prefix theorem do not hold for this session',
                         inp, {'cmd': real_text.split('\n')[0], 'cmd_ok_expected': cmd_expected},
                         {k: rendered[k] for k in ('rend_ok', 'dps_ok', 'cmd_ok')},
                         ['RB.Loader.c09_load_after_any_byte_prefix_rendered'])
        if rendered['text'] != real_text:
            n = min(len(rendered['text']), len(real_text))
            at = next((x for x in range(n) if rendered['text'][x] != real_text[x]), n)
            acc.disagree('c09.render: bytes appended by session %s' % ses['name'], inp,
                         {'at': at, 'text': real_text[max(0, at - 40):at + 60]},
                         {'at': at, 'text': rendered['text'][max(0, at - 40):at + 60]},
                         ['RB.Loader.c09_load_after_any_byte_prefix_rendered'])
        if ses['before'] and not ses['before'].endswith('\n') and impl_recs[:1] == ['session']:
            impl_recs = impl_recs[1:]     # the '#!' line is glued to the torn tail
        acc.count('writer-compared')
        if model_recs['recs'] != impl_recs:
            acc.disagree('c09.session: records appended by session %s' % ses['name'], inp,
                         {'recs': impl_recs[:60]}, {'recs': model_recs['recs'][:60]}, THEOREMS)
    # ---------------- oracle: the property on what the implementation did
    for ses in obs['sessions']:
        st = ses['status']
        if st.startswith('crash') or st in ('ui_error', 'thread_exc'):
            acc.oracle_fail('loads_without_error', inp,
                            {'session': ses['name'], 'status': st, 'crash': ses['crash'], 'stderr': ses['stderr']},
                            {'cut_in': cut_in.split(':field')[0], 'status': st})
            continue
        done = complete_dps(ses['before'], starts)
        expected = sorted((starts[n]['bench'], tuple(s for (_c, s) in starts[n]['dps'][j])) for (n, j) in done)
        got = []
        for (b, _e, _inv, ms) in ses['loads']:
            serials = tuple(serial_of(base, v) for (_it, _c, v) in ms)
            got.append((b, serials))
            owners = set(sidx.get(s) for s in serials)
            if len(owners) > 1:
                acc.oracle_fail('unmixed', inp, {'session': ses['name'], 'data_point_serials': serials,
                                                 'owners': sorted(str(o) for o in owners)},
                                {'cut_in': cut_in.split(':field')[0]})
        if sorted(got) != expected:
            missing = [e for e in expected if e not in got]
            extra = [g for g in got if g not in expected]
            dup = [g for g in set(got) if got.count(g) > 1]
            acc.oracle_fail('counted_exactly_once', inp,
                            {'session': ses['name'], 'not_loaded': missing[:3], 'loaded_but_not_complete': extra[:3],
                             'loaded_twice': dup[:3]},
                            {'cut_in': cut_in.split(':field')[0],
                             'kind': 'missing' if missing else 'extra' if extra else 'duplicate'})
    # after resuming, every invocation present in the file carries all data points its harness produced
    if not any(s['status'].startswith('crash') or s['status'] in ('ui_error', 'thread_exc') for s in obs['sessions']):
        done = complete_dps(obs['final'], starts)
        for st in starts:
            have = [j for j in range(len(st['dps'])) if (st['n'], j) in done]
            if have and len(have) != len(st['dps']):
                torn = 'torn_invocation_of_the_interrupted_session' if st['session'] == base.base_session else 'later_session'
                acc.oracle_fail('invocation_complete', inp,
                                {'start': st['n'], 'session': st['session'], 'bench': st['bench'],
                                 'data_points_in_file': have, 'data_points_produced': len(st['dps'])},
                                {'incomplete': torn,
                                 'shape': 'first_data_points_complete_rest_missing'
                                 if have == list(range(len(have))) else 'other'})
                acc.count('invocation-incomplete')


def process(params, wd, cuts, model_fn, timing=None):
    """evaluate the given cuts (None = decide here) of one scenario; returns an Acc"""
    acc = dd.Acc()
    base = Base(wd, params)
    if base.problems:
        acc.disagree('c09: base sessions did not run as assumed', {'params': params}, {'problems': base.problems}, None)
        return acc, base
    if params.get('unicode'):
        acc.count('scenario-with-non-ascii-text-in-metadata-fields')
    if base.non_ascii and all(ord(c) < 0x80 for b in params['benchmarks'] for c in b):
        i0 = base.non_ascii[0]
        acc.disagree('c09: the session appended non-ASCII bytes - the side condition "the appended text is ASCII" of '
                     'the byte-prefix theorem (guaranteed by ensure_ascii for the metadata records) does not hold',
                     {'params': params}, {'non_ascii_bytes': len(base.non_ascii),
                                          'first_at': i0, 'context': base.appended[max(0, i0 - 50):i0 + 20]},
                     {'non_ascii_bytes': 0}, ['RB.Loader.c09_load_after_any_byte_prefix_rendered'])
    obs = [eval_cut(base, k) for k in cuts(base)]
    ops = []
    for o in obs:
        for ses in o['sessions']:
            ops.append(model_op(base, ses['before']))
    answers = batched(model_fn, ops)
    # second batch: what each executing session appended (writer model), given the loader's tables
    # and the invocation plan of the first batch
    wops, wmeta = [], []
    for i, o in enumerate(obs):
        for j, ses in enumerate(o['sessions'][:2]):
            ans = answers[3 * i + j]
            after = o['sessions'][j + 1]['before']
            w = writer_ops(base, o, ses, ans, after)
            if w is not None:
                wmeta.append((i, j))
                wops += w
    wans = batched(model_fn, wops)
    writer = {}
    for n, (i, j) in enumerate(wmeta):
        before = obs[i]['sessions'][j]['before']
        after = obs[i]['sessions'][j + 1]['before']
        writer[(i, j)] = (wans[3 * n], wans[3 * n + 1], wans[3 * n + 2], after[len(before):])
    for i, o in enumerate(obs):
        judge_cut(acc, base, o, answers[3 * i:3 * i + 3], [writer.get((i, 0)), writer.get((i, 1))])
    return acc, base


def batched(model_fn, ops, size=300):
    out = []
    for i in range(0, len(ops), size):
        out += model_fn(ops[i:i + size])
    return out


def _raw(t):
    """a configured text as its bytes appear in the file (which is handled as latin-1)"""
    return t.encode('utf-8').decode('latin-1')


def writer_ops(base, o, ses, ans, after):
    """two model ops for a session that appended: the writer model's records for the data points
    the harness printed (numbered by the model's plan), and the classification of the appended text"""
    before = ses['before']
    if ans['end'] != 'ok' or not after.startswith(before) or len(after) == len(before):
        return None
    names = base.params['benchmarks']
    plan = {r: list(t) for (r, t) in ans['todo']}
    dps = []
    for n in ses['starts']:
        st = o['starts'][n]
        r = names.index(st['bench'])
        if not plan.get(r):
            return None          # reported by the comparison of started invocations
        inv = plan[r].pop(0)
        if base.profile:
            # one line per invocation: numIterations = 1, the JSON column as the real file has it
            js = [d['json'] for d in dd.parse_file(after) if d['kind'] == 'prof' and d['serial'] == st['dps'][0][0][1]]
            if len(js) != 1:
                return None
            dps.append([r, r, inv, 1, [], js[0]])
            continue
        for it, dp in enumerate(st['dps']):
            dps.append([r, r, inv, it + 1, [[c, '%d.000000' % s] for (c, s) in dp[:-1]], '%d.000000' % dp[-1][1]])
    op1 = {'op': 'c09.session', 'benches': ans['benches'], 'runs': ans['runs'],
           'glued': bool(before) and not before.endswith('\n'), 'empty': before == '', 'dps': dps}
    op2 = model_op(base, after[len(before):])
    op2['want_recs'] = True
    # text level: the bytes the model's renderer writes for the same session
    app = after[len(before):]
    alines = app.split('\n')
    bp, rp = dd.payload_tables(dd.parse_file(after), lambda o: names.index(o['name']) if o['name'] in names else 99,
                               lambda o: names.index(o['cmdline'].split()[-1]) if o['cmdline'].split()[-1] in names else 99)
    tf = base.params.get('text_fields') or {}
    op3 = {'op': 'c09.render', 'benches': ans['benches'], 'runs': ans['runs'], 'empty': before == '',
           'cmd': alines[0][2:], 'hdr': dd.HDR, 'comments': alines[1:4], 'dps': dps, 'profile': base.profile,
           'cols': [[i, [_raw(b), 'E', 'S', '', '1', _raw((tf.get('input_sizes') or [''])[0]),
                         _raw((tf.get('variable_values') or [''])[0]), '', '']]
                    for i, b in enumerate(names)],
           'units': [['total', 'ms']] + [['c%d' % c, 'kb'] for c in range(3)],
           'bench_json': [[k, pj] for (pj, k) in bp], 'run_json': [[k, bid, pj] for (pj, k, bid) in rp]}
    return [op1, op2, op3]


def _worker(args):
    params, wd, shard, nshards, driver_cwd = args
    ck = _ModelOnly()

    def cuts(base):
        return [k for k in range(len(base.appended) + 1) if k % nshards == shard]
    acc, _base = process(params, wd, cuts, ck.model)
    shutil.rmtree(wd, ignore_errors=True)
    return acc


class _ModelOnly(object):
    """`Check.model` without a Check (for worker processes)"""
    pid = 'C09'
    model = lib.Check.model


CORPUS_DIR = os.path.join(lib.VERIF, 'harness', 'corpus', 'C09')


def run_corpus(ck):
    import json
    if not os.path.isdir(CORPUS_DIR):
        return
    for f in sorted(os.listdir(CORPUS_DIR)):
        if not f.endswith('.json'):
            continue
        w = json.load(open(os.path.join(CORPUS_DIR, f)))
        wd = os.path.join(ck.scratch, 'corpus-' + f[:-5])
        acc, base = process(w['params'], wd, lambda base, w=w: select_cuts(base, w), ck.model)
        ck.count('corpus:' + f[:-5])
        acc.merge_into(ck)


def select_cuts(base, w):
    """a corpus witness names its cut structurally (so it survives changes of path lengths)"""
    want = w['cut_in']
    if want == 'non_ascii':
        # the cuts behind the first bytes of multi-byte characters (none if the appended text is ASCII)
        return [p_ + 1 for p_ in base.non_ascii[:6]]
    out = []
    for k in range(len(base.appended) + 1):
        if classify_cut(base, k) == want:
            out.append(k)
    nth = w.get('nth', 0)
    return out[nth:nth + 1] if out else []


def run(ck):
    quick = ck.tier == 'quick'
    ck.rule = ('a real session appends to an old file; for each cut k (quick: every line/flush boundary, directed '
               'cuts after every field of measurement lines and inside/at the end of every kind of line, seeded '
               'interior cuts; thorough: every byte prefix) the file old+appended[:k] is followed by two real '
               'sessions and a loading session; non-trivial = a cut strictly inside the appended bytes')
    ck.assumptions = ['text level of the model: no carriage returns, decimal numerals without sign/blank/underscore, '
                      'JSON payload validity = membership in the set of completely rendered payloads (checked against '
                      'json.loads by the independent parser on every cut)',
                      'model variant compared: ' + VARIANT]
    run_corpus(ck)
    if quick:
        n_scn = 4
        for i in range(n_scn):
            params = gen_params(ck.rng, i)
            rng = ck.rng
            acc, base = process(params, os.path.join(ck.scratch, 's%d' % i),
                                lambda base: cut_points(base, rng, 'quick', 12), ck.model)
            acc.merge_into(ck)
            ck.count('scenario')
            ck.count('appended-bytes', len(base.appended))
    else:
        n_scn = 14
        nshards = min(14, max(1, (os.cpu_count() or 2) - 2))
        jobs = []
        for i in range(n_scn):
            params = gen_params(ck.rng, i)
            for sh in range(nshards):
                jobs.append((params, os.path.join(ck.scratch, 't%d-%02d' % (i, sh)), sh, nshards, lib.LEAN))
        ctx = multiprocessing.get_context('fork')
        with ctx.Pool(nshards) as pool:
            for acc in pool.imap_unordered(_worker, jobs):
                acc.merge_into(ck)
        ck.exhaustive = True
        ck.notes.append('every byte prefix of %d scenarios, sharded over %d processes' % (n_scn, nshards))
        ck.count('scenario', n_scn)
    dd.debug_dump(ck)


def replay(ck, data):
    inp = data['input']
    params = inp['params']

    def cuts(base):
        # the cut is named structurally (class, line, offset): path lengths differ between runs
        k = min(inp['cut'], len(base.appended))
        if 'line' in inp and (classify_cut(base, k) != inp['cut_in'] or list(line_index(base, k)) != inp['line']):
            line, off = inp['line']
            cand = [j for j in range(len(base.appended) + 1)
                    if classify_cut(base, j) == inp['cut_in'] and line_index(base, j)[0] == line]
            if cand:
                k = min(cand, key=lambda j: abs(line_index(base, j)[1] - off))
        return [k]
    acc, _base = process(params, os.path.join(ck.scratch, 'replay'), cuts, ck.model)
    acc.merge_into(ck)
