"""C04 — invocation accounting: N recorded invocations, bounded retries, clean failures.

Correspondence: the real `Executor` / schedulers / `RunId` / `TerminationCheck`
/ RebenchLog adapter, driven in-process with scripted processes
(`drive_sched`), against the Lean model `RB.Term.runTrace` (one run fed an
outcome stream, op `c04.trace`) and `RB.Sched.session` (several runs sharing
executables, op `c04.session`).

Oracle: the property's own right-hand sides, computed from the *history* of
outcomes (independent of the model's counters): numbering, never past N,
failures record nothing, the retry rule, 127.
"""
import itertools
import os

import lib
import drive_sched as ds

THEOREMS_RUN = ['RB.Term.c04_records_consecutive', 'RB.Term.c04_never_past_N', 'RB.Term.c04_retry_spec',
                'RB.Term.c04_failed_records_nothing', 'RB.Term.c04_starts_bounded', 'RB.Term.c04_abandon_127']
THEOREMS_SHARED = ['RB.Sched.c04_abandon_127_shared', 'RB.Sched.c04_abandon_127_shared_step',
                   'RB.Sched.c04_removed_never_picked']

KINDS = {
    'ok': {'rc': 0, 'dps': 1},
    'ok3': {'rc': 0, 'dps': 3},
    'exit': {'rc': 1, 'dps': 1},
    'exit0': {'rc': 3, 'dps': 0},
    'unparsable': {'rc': 0, 'dps': 0},
    'invalid': {'rc': 0, 'dps': 2, 'marker': True},
    'invalid_first': {'rc': 0, 'dps': 1, 'marker': True, 'marker_pos': 0},
    'timeout': {'rc': -9, 'dps': 1},
    'timeout0': {'rc': -9, 'dps': 0, 'partial': True},
    'nx126': {'rc': 126, 'dps': 0},
    'nf127': {'rc': 127, 'dps': 0},
    'nf127data': {'rc': 127, 'dps': 1},
    'oserror': {'oserror': 13},
}
BASIC = ['ok', 'exit', 'unparsable', 'invalid', 'timeout']


# ------------------------------------------------------------------ the property, on histories
def prop_class(o, faulty, ignore_timeouts):
    """how the property classifies one outcome: 'ok' (records), 'fail', 'immediate' (127 / cannot start)"""
    if 'oserror' in o:
        return 'immediate'
    rc = o['rc']
    if rc == 127:
        return 'immediate'
    if o.get('dps', 0) == 0:
        return 'fail'
    if faulty:
        return 'ok'
    if rc != 0 and not (rc == -9 and ignore_timeouts):
        return 'fail'
    if o.get('marker'):
        return 'fail'
    return 'ok'


def prop_stop(hist, cfg, m0, s0):
    """the abandon / completion rule on a history of (class, dps): returns reason or None"""
    if any(c == 'immediate' for c, _ in hist):
        return 'immediate'
    trailing = 0
    for c, _ in reversed(hist):
        if c == 'fail':
            trailing += 1
        else:
            break
    if trailing > 0 and trailing >= cfg['retries']:
        return 'retries'
    nfail = sum(1 for c, _ in hist if c == 'fail')
    warm = cfg.get('warmup') or 0
    samples = s0 + sum(max(0, d - warm) for c, d in hist if c == 'ok')
    if nfail > 6:
        return 'excessive'
    if samples > 10 and 2 * nfail > samples:
        return 'excessive-half'
    if m0 + sum(1 for c, _ in hist if c == 'ok') >= cfg['N']:
        return 'complete'
    return None


def dp_rows(inv, k, dps, gauge=None):
    rows = []
    for j in range(1, dps + 1):
        if gauge != 'JMH':
            rows.append([inv, j, 'alloc', float(7 * j)])
        rows.append([inv, j, 'total', float(1000 * k + j)])
    return rows


def prop_expect(cfg, faulty, outcomes, m0=0, s0=0, gauge=None):
    """expected starts [(inv, k)], rows, reason, by the property"""
    hist, starts, rows = [], [], []
    k = 0
    while True:
        reason = prop_stop(hist, cfg, m0, s0)
        if reason:
            break
        o = outcomes[k] if k < len(outcomes) else ds.DEFAULT_FAIL
        k += 1
        inv = m0 + sum(1 for c, _ in hist if c == 'ok') + 1
        starts.append(inv)
        c = prop_class(o, faulty, cfg.get('ignore_timeouts', False))
        hist.append((c, o.get('dps', 0)))
        if c == 'ok':
            rows += dp_rows(inv, k, o['dps'], gauge)
        if k > cfg['N'] + 40:
            reason = 'oracle-runaway'
            break
    return {'starts': starts, 'rows': rows, 'reason': reason, 'hist': [c for c, _ in hist],
            'recorded': m0 + sum(1 for c, _ in hist if c == 'ok')}


def branch_of(exp):
    return exp['reason']


# ------------------------------------------------------------------ part A: independent runs, many per session
_sess_counter = [0]


def check_cases(ck, cases, faulty, tag):
    """cases: list of dicts {cfg: {N, retries, warmup, ignore_timeouts}, outcomes: [...]}; all run in ONE
    session as independent runs (distinct executables), batch scheduler."""
    if not cases:
        return
    # the effective retries / invocations are what the model gets; the implementation has to compute them
    # from two configuration levels (suite = general, benchmark = specific and winning, or inherited)
    for c in cases:
        if 'levels' not in c:
            lv = {}
            x = ck.rng.random()
            if x < 0.35:
                lv['general_retries'] = ck.rng.choice([2, 3, 4])
            elif x < 0.5:
                lv['inherit_retries'] = True
            y = ck.rng.random()
            if y < 0.25:
                lv['general_N'] = c['cfg']['N'] + ck.rng.choice([1, 2, 5])
            elif y < 0.4:
                lv['inherit_N'] = True
            # the gauge adapter: the built-in RebenchLog one, or a custom adapter file whose own invalid-result
            # pattern is the bare word FAILED (like the Multivariate / TestExecutor adapters: no leading `.*`)
            if ck.rng.random() < 0.3:
                lv['custom'] = {'variant': 0}
            elif ck.rng.random() < 0.2:
                lv['gauge'] = 'JMH'      # JMH logs: iteration lines, `# Run complete`, a table mentioning Error
            texts = (['benchmark verification FAILED', 'FAILED', 'step 3 FAILED (checksum)', 'xx Error yy']
                     if lv.get('custom') else
                     ['Error: simulated', 'xx Error yy', 'Segmentation fault (core dumped)', 'x Bus error']
                     if lv.get('gauge') == 'JMH' else
                     ['Error: simulated', 'xx Error yy', 'the result is incorrect', 'Segmentation fault (core dumped)',
                      'step Failed the verification', 'x Bus error'])
            for o in c['outcomes']:
                if o.get('marker') and 'marker_text' not in o:
                    o['marker_text'] = ck.rng.choice(texts)
            c['levels'] = lv
        if c['levels'].get('general_retries') is not None:
            ck.count('levels:retries %s over general' % ('0' if c['cfg']['retries'] == 0 else '>0'))
        if c['levels'].get('inherit_retries'):
            ck.count('levels:retries inherited')
        if c['levels'].get('custom'):
            ck.count('gauge:custom adapter')
        if c['levels'].get('gauge'):
            ck.count('gauge:' + c['levels']['gauge'])
        for o in c['outcomes']:
            if o.get('marker'):
                t = o.get('marker_text') or ''
                ck.count('marker:%s' % ('line start' if t.startswith(('Error', 'FAILED', 'Segmentation')) else 'inside a line'))
    scn = {'runs': [dict(c['cfg'], exe=i, **c['levels']) for i, c in enumerate(cases)]}
    # every third session: the runs belong to two experiments that share the data file (experiment `all`)
    _sess_counter[0] += 1
    if _sess_counter[0] % 3 == 0 or any(c.get('two_experiments') for c in cases):
        scn['two_experiments'] = True
        ck.count('session:runs shared by two experiments with one data file')
    sess = {'sched': 'batch', 'faulty': faulty, 'scripts': [c['outcomes'] for c in cases]}
    wd = _mkwd(ck)
    obs = ds.run_session(wd, scn, sess)
    obs['two_experiments'] = bool(scn.get('two_experiments'))
    ck.impl_traces += 1
    # the scripted process layer answers starts beyond the script with DEFAULT_FAIL: the model gets the same stream
    ops = [dict({'op': 'c04.trace', 'faulty': faulty,
                 'outcomes': [_strip(o) for o in c['outcomes']] + [ds.DEFAULT_FAIL] * (c['cfg']['N'] + 8)},
                **_cfg_op(c['cfg'])) for c in cases]
    answers = ck.model(ops)
    if obs['crash'] or obs['status'] not in ('ok', 'failed') or obs['unknown_starts']:
        inp = {'kind': 'runs', 'faulty': faulty, 'cases': cases}
        ck.oracle_fail('session_ends_cleanly', inp, {'status': obs['status'], 'crash': obs['crash'], 'tail': obs['out_tail']},
                       signature={'status': obs['status'], 'exception': (obs['crash'] or [None])[0]})
        return
    for i, (c, ans) in enumerate(zip(cases, answers)):
        one_case(ck, c, faulty, i, obs, ans, tag)


def _cfg_op(cfg):
    d = {'N': cfg['N'], 'retries': cfg['retries'], 'warmup': cfg.get('warmup') or 0,
         'ignore_timeouts': bool(cfg.get('ignore_timeouts'))}
    return d


def impl_view(obs, i):
    starts = [inv for (kind, r, inv) in obs['log'] if kind == 'start' and r == i]
    rows = [row[1:] for row in obs['file']['rows'] if row[0] == i]
    fin = obs['final'].get(i)
    return starts, rows, fin


def one_case(ck, c, faulty, i, obs, ans, tag):
    cfg = c['cfg']
    inp = {'kind': 'run', 'cfg': cfg, 'faulty': faulty, 'outcomes': c['outcomes'], 'levels': c.get('levels') or {},
           'two_experiments': bool(obs.get('two_experiments'))}
    starts, rows, fin = impl_view(obs, i)
    gauge = (c.get('levels') or {}).get('gauge')
    exp = prop_expect(cfg, faulty, c['outcomes'], gauge=gauge)
    if i in (obs.get('runaway') or []):
        ck.oracle_fail('starts_bounded', inp, {'starts': len(starts), 'cap': cfg['N'] + 40,
                                               'note': 'the harness stopped answering after N + 40 starts'},
                       signature={'gauge': gauge or 'RebenchLog', 'what': 'restarted without bound'})
        return
    ck.count('stop:' + str(exp['reason']))
    ck.count('starts:%d' % min(len(starts), 12))
    for o in c['outcomes'][:len(starts)]:
        ck.count('class:' + prop_class(o, faulty, cfg.get('ignore_timeouts', False)))
    ck.case(nontrivial_key=(tag, str(cfg), faulty, str(c['outcomes'][:len(starts)])) if len(starts) >= 2 else None,
            sample={'cfg': cfg, 'faulty': faulty, 'outcomes': c['outcomes'][:6], 'starts': starts})
    # ---- model vs implementation
    m_starts = [e[1] for e in ans['events'] if e[0] == 'start']
    m_rows = []
    k = 0
    for e in ans['events']:
        if e[0] == 'start':
            k += 1
        elif e[0] == 'record':
            m_rows += dp_rows(e[1], k, e[2], (c.get('levels') or {}).get('gauge'))
    mf = ans['final']
    impl_fin = None if fin is None else {k2: fin[k2] for k2 in ('consec', 'failed', 'failNow', 'maxInv', 'samples', 'exeMissing')}
    model_fin = {k2: mf[k2] for k2 in ('consec', 'failed', 'failNow', 'maxInv', 'samples', 'exeMissing')}
    if starts != m_starts or rows != m_rows or impl_fin != model_fin:
        ck.disagree('c04.trace: execute_run loop vs RB.Term.runTrace', inp,
                    {'starts': starts, 'rows': rows, 'final': impl_fin},
                    {'starts': m_starts, 'rows': m_rows, 'final': model_fin}, THEOREMS_RUN)
        ck.pending_search.append(c)
    if not ans['numbered'] or not ans['terminated'] or ans['spec_terminated'] != ans['terminated']:
        ck.disagree('c04.trace: model self-check (numbered / terminated / spec)', inp, None, ans, THEOREMS_RUN)
    # ---- oracle on the implementation
    oracle_run(ck, inp, exp, starts, rows)


def oracle_run(ck, inp, exp, starts, rows, m0=0):
    cfg = inp['cfg']
    sig = {'stop_reason_expected': exp['reason']}
    # numbering of starts
    for idx, inv in enumerate(starts):
        if idx < len(exp['starts']) and inv != exp['starts'][idx]:
            ck.oracle_fail('numbering', inp, {'start': idx + 1, 'carried': inv, 'expected': exp['starts'][idx],
                                              'all_starts': starts}, signature=dict(sig, what='start_number'))
            return
    if len(starts) > len(exp['starts']):
        clause = {'complete': 'no_start_after_N', 'immediate': 'abandon_127'}.get(exp['reason'], 'retry_rule')
        ck.oracle_fail(clause, inp, {'starts': starts, 'expected_starts': exp['starts'], 'history': exp['hist']},
                       signature=dict(sig, what='started_again'))
        return
    if len(starts) < len(exp['starts']):
        ck.oracle_fail('retry_rule', inp, {'starts': starts, 'expected_starts': exp['starts'], 'history': exp['hist']},
                       signature=dict(sig, what='gave_up_early'))
        return
    if rows != exp['rows']:
        invs = sorted(set(r[0] for r in rows if r[2] == 'total'))
        exp_invs = sorted(set(r[0] for r in exp['rows'] if r[2] == 'total'))
        if len(rows) > len(exp['rows']) and invs != exp_invs or any(r not in exp['rows'] for r in rows):
            clause = 'failed_records_nothing' if len(invs) >= len(exp_invs) else 'records_numbering'
        else:
            clause = 'records_data'
        if invs != list(range(m0 + 1, m0 + 1 + len(invs))):
            clause = 'records_numbering'
        ck.oracle_fail(clause, inp, {'rows': rows, 'expected_rows': exp['rows']}, signature=dict(sig, what='rows'))
        return
    if exp['reason'] == 'complete' and exp['recorded'] != cfg['N'] and m0 <= cfg['N']:
        ck.oracle_fail('exactly_N', inp, {'recorded': exp['recorded']}, signature=sig)


# ------------------------------------------------------------------ deferred model calls (one driver start per batch)
class ModelQueue(object):
    def __init__(self, ck, limit=150):
        self.ck = ck
        self.items = []
        self.limit = limit

    def add(self, op, callback):
        self.items.append((op, callback))
        if len(self.items) >= self.limit:
            self.flush()

    def flush(self):
        items, self.items = self.items, []
        if not items:
            return
        answers = self.ck.model([op for op, _cb in items])
        for (_op, cb), ans in zip(items, answers):
            cb(ans)


def queue_of(ck):
    q = getattr(ck, '_model_queue', None)
    if q is None:
        q = ck._model_queue = ModelQueue(ck)
    return q


# ------------------------------------------------------------------ part B: runs sharing executables
def check_shared(ck, scn, sess, tag):
    wd = _mkwd(ck)
    obs = ds.run_session(wd, scn, sess)
    ck.impl_traces += 1
    inp = {'kind': 'session', 'scn': scn, 'sess': sess}
    if obs['crash'] or obs['status'] not in ('ok', 'failed') or obs['unknown_starts'] or obs['order'] is None:
        ck.oracle_fail('session_ends_cleanly', inp, {'status': obs['status'], 'crash': obs['crash'], 'tail': obs['out_tail']},
                       signature={'status': obs['status'], 'exception': (obs['crash'] or [None])[0]})
        return
    op = session_op('c04.session', scn, sess, obs['order'])
    queue_of(ck).add(op, lambda ans: compare_session(ck, 'c04.session', inp, obs, ans, THEOREMS_SHARED))
    n127 = sum(1 for s in sess['scripts'] for o in s if o.get('rc') == 127)
    ck.count('shared:%s:%d-runs' % (sess.get('sched', 'batch'), len(scn['runs'])))
    ck.case(nontrivial_key=(tag, str(scn), str(sess)) if n127 else None,
            sample={'runs': len(scn['runs']), 'sched': sess.get('sched'), 'log': obs['log'][:8]})
    oracle_shared(ck, inp, scn, sess, obs)


def session_op(name, scn, sess, order, init=None, usage=None, stop_at=None):
    runs = []
    for r in scn['runs']:
        builds = []
        if r.get('ebuild') is not None:
            builds.append(2 * r['ebuild'])
        if r.get('sbuild') is not None:
            builds.append(2 * r['sbuild'] + 1)
        runs.append({'N': r['N'], 'retries': r.get('retries', 0), 'warmup': r.get('warmup') or 0,
                     'ignore_timeouts': bool(r.get('ignore_timeouts')), 'exe': r['exe'],
                     'adapter': bool(r.get('adapter', True)), 'builds': builds})
    failing = []
    for key, rc in (sess.get('builds') or {}).items():
        if rc != 0:
            failing.append(2 * int(key[1:]) + (0 if key[0] == 'e' else 1))
    n_choices = 40 + sum(r['N'] + 9 + len(s) for r, s in zip(scn['runs'], sess['scripts']))
    choices = list(sess.get('choices') or [])
    choices = (choices + [0] * n_choices)[:max(n_choices, len(choices))]
    op = {'op': name, 'runs': runs, 'faulty': bool(sess.get('faulty')), 'doBuilds': '-B' not in (sess.get('argv') or []),
          'failing_builds': failing, 'scripts': [[_strip(o) for o in s] for s in sess['scripts']],
          'kind': sess.get('sched') or 'batch', 'order': order, 'choices': choices}
    if init is not None:
        op['init'] = init
    if usage is not None:
        op['usage'] = usage
    if stop_at is not None:
        op['stopAt'] = stop_at
    return op


def _strip(o):
    if 'oserror' in o:
        return {'oserror': o['oserror']}
    return {'rc': o['rc'], 'dps': o.get('dps', 0), 'marker': bool(o.get('marker'))}


def model_views(ans):
    starts = [[e[0], e[2]] for e in ans['trace'] if e[1] == 'start']
    records = [[e[0], e[2], e[3]] for e in ans['trace'] if e[1] == 'record']
    builds = [e[2] for e in ans['trace'] if e[1] == 'build']
    return starts, records, builds


def impl_views(obs):
    starts = [[r, inv] for (kind, r, inv) in obs['log'] if kind == 'start']
    records = []
    for row in obs['file_new'] if 'file_new' in obs else obs['file']['rows']:
        if row[3] == 'total':
            if records and records[-1][0] == row[0] and records[-1][1] == row[1] and row[2] == records[-1][2] + 1:
                records[-1][2] += 1
            else:
                records.append([row[0], row[1], 1] if row[2] == 1 else [row[0], row[1], -row[2]])
    builds = [2 * int(b[1:]) + (0 if b[0] == 'e' else 1) for (kind, b, _x) in obs['log'] if kind == 'build']
    return starts, records, builds


FIN_KEYS = ('consec', 'failed', 'failNow', 'maxInv', 'samples', 'exeMissing')


def compare_session(ck, name, inp, obs, ans, theorems, check_status=False):
    m_starts, m_records, m_builds = model_views(ans)
    i_starts, i_records, i_builds = impl_views(obs)
    impl_fin = {int(i): {k: f[k] for k in FIN_KEYS} for i, f in obs['final'].items()}
    model_fin = {}
    if ans.get('final') is not None:
        model_fin = {i: {k: f[k] for k in FIN_KEYS} for i, f in enumerate(ans['final']) if i in impl_fin}
    bad = (m_starts != i_starts or m_records != i_records or m_builds != i_builds
           or (ans.get('final') is not None and impl_fin != model_fin) or not ans['finished'])
    if check_status and ans['status'] != obs['status']:
        bad = True
    if bad:
        ck.disagree(name + ': scheduler / executor vs RB.Sched.session', inp,
                    {'status': obs['status'], 'starts': i_starts, 'records': i_records, 'builds': i_builds, 'final': impl_fin},
                    {'status': ans['status'], 'starts': m_starts, 'records': m_records, 'builds': m_builds,
                     'final': model_fin, 'finished': ans['finished']}, theorems)
    return not bad


def oracle_shared(ck, inp, scn, sess, obs):
    """clauses: a 127 ends its own run at once; and no other run of the same executable is started afterwards"""
    log = [(r, inv) for (kind, r, inv) in obs['log'] if kind == 'start']
    count = {}
    started_before = set()
    dead_exes = {}   # exe -> (run that got 127, position)
    for pos, (r, inv) in enumerate(log):
        k = count.get(r, 0) + 1
        count[r] = k
        exe = scn['runs'][r]['exe']
        if exe in dead_exes:
            culprit, at, before = dead_exes[exe]
            if r == culprit:
                ck.oracle_fail('abandon_127', inp, {'run': r, 'started_again_at': pos, 'log': log},
                               signature={'what': 'same_run_started_again'})
            else:
                ck.oracle_fail('abandon_127_shared', inp,
                               {'run_with_127': culprit, 'at_start': at, 'other_run': r, 'started_at': pos, 'log': log},
                               signature={'other_run_started_before_the_127': r in before,
                                          'scheduler': sess.get('sched') or 'batch'})
            return
        sc = sess['scripts'][r]
        o = sc[k - 1] if k <= len(sc) else ds.DEFAULT_FAIL
        if o.get('rc') == 127:
            dead_exes[exe] = (r, pos, set(started_before) | {r})
        started_before.add(r)


# ------------------------------------------------------------------ generators
def maximal_prefixes(cfg, faulty, kinds, max_len):
    """all outcome sequences over `kinds` up to max_len, pruned: a sequence is extended only while the
    property says the run goes on (sequences that differ only after the stop are the same case)"""
    out = []

    def rec(seq):
        exp_hist = [(prop_class(KINDS[k], faulty, cfg.get('ignore_timeouts', False)), KINDS[k].get('dps', 0)) for k in seq]
        if prop_stop(exp_hist, cfg, 0, 0) or len(seq) == max_len:
            out.append(list(seq))
            return
        for k in kinds:
            rec(seq + [k])
    rec([])
    return out


def class_prefixes(cfg, max_len):
    """all sequences over {ok, fail} up to max_len, pruned where the property says the run stops"""
    out = []

    def rec(seq):
        hist = [(c, 1) for c in seq]
        if prop_stop(hist, cfg, 0, 0) or len(seq) == max_len:
            out.append(list(seq))
            return
        for c in ('ok', 'fail'):
            rec(seq + [c])
    rec([])
    return out


def half_rule_case(rng):
    """aims at `samples > 10 and failed > samples / 2` with at most 6 failures: 10-13 samples, 5-6 failures spread
    so that fewer than `retries` fail in a row"""
    retries = rng.choice([3, 4, 7])
    cfg = {'N': 30, 'retries': retries, 'warmup': rng.choice([None, 1]), 'ignore_timeouts': False}
    target = rng.choice([9, 10, 11, 12])
    seq, samples = [], 0
    w = cfg['warmup'] or 0
    fails_left = rng.choice([5, 6, 6, 7])
    while samples < target or fails_left > 0:
        if fails_left > 0 and (samples >= target or rng.random() < 0.5) and (not seq or seq[-1].get('dps') or rng.random() < 0.5):
            seq.append({'rc': 1, 'dps': 0})
            fails_left -= 1
        else:
            d = rng.choice([1, 2, 2, 3])
            seq.append({'rc': 0, 'dps': d + w})
            samples += d
        if len(seq) > 40:
            break
    seq += [{'rc': 0, 'dps': 1 + w}, {'rc': 1, 'dps': 0}, {'rc': 0, 'dps': 1 + w}] * 3
    return {'cfg': cfg, 'outcomes': seq}


def threshold_case(rng):
    """long mixed sequences that cross `failed > 6` and `samples > 10 and failed > samples / 2`"""
    retries = rng.choice([2, 3, 4, 8])
    n = rng.choice([8, 12, 20, 30])
    warm = rng.choice([None, None, 1, 2])
    cfg = {'N': n, 'retries': retries, 'warmup': warm, 'ignore_timeouts': rng.random() < 0.3}
    seq = []
    p_fail = rng.choice([0.35, 0.5, 0.6])
    for _ in range(rng.randint(8, 34)):
        if rng.random() < p_fail:
            seq.append(dict(KINDS[rng.choice(['exit', 'unparsable', 'invalid', 'timeout', 'exit0', 'nx126', 'timeout0'])]))
        else:
            seq.append({'rc': 0, 'dps': rng.choice([1, 1, 2, 3, 4])})
    if rng.random() < 0.25:
        seq.insert(rng.randint(0, len(seq)), dict(KINDS[rng.choice(['nf127', 'nf127data', 'oserror'])]))
    return {'cfg': cfg, 'outcomes': seq}


def random_case(rng):
    cfg = {'N': rng.randint(1, 5), 'retries': rng.randint(0, 4), 'warmup': rng.choice([None, 0, 1, 2]),
           'ignore_timeouts': rng.random() < 0.4}
    seq = [dict(KINDS[rng.choice(list(KINDS))]) for _ in range(rng.randint(0, 12))]
    return {'cfg': cfg, 'outcomes': seq}


def shared_scenario(rng):
    n = rng.randint(2, 4)
    n_exe = rng.choice([1, 1, 2])
    runs = [{'N': rng.randint(1, 3), 'retries': rng.randint(0, 2), 'exe': rng.randrange(n_exe)} for _ in range(n)]
    scripts = []
    for r in runs:
        s = [dict(KINDS[rng.choice(['ok', 'ok', 'ok3', 'exit', 'unparsable'])]) for _ in range(rng.randint(0, 4))]
        if rng.random() < 0.6:
            s.insert(rng.randint(0, len(s)), dict(KINDS['nf127']))
        else:
            s += [dict(KINDS['ok'])] * 3
        scripts.append(s)
    sched = rng.choice(['batch', 'round-robin', 'random'])
    sess = {'sched': sched, 'scripts': scripts, 'faulty': rng.random() < 0.15,
            'choices': [rng.randrange(12) for _ in range(60)] if sched == 'random' else []}
    return {'runs': runs}, sess


# ------------------------------------------------------------------ entry points
_wd_counter = [0]


def _mkwd(ck):
    _wd_counter[0] += 1
    wd = os.path.join(ck.scratch, 'w%d' % _wd_counter[0])
    os.makedirs(wd)
    return wd


def search_neighbourhood(ck):
    """a model / implementation disagreement was seen: spend extra oracle evaluations around those inputs
    (the case alone in its own session, its prefixes, N and retries moved by one, -f toggled)"""
    seen = 0
    for c in ck.pending_search[:20]:
        variants = []
        for cut in range(len(c['outcomes']) + 1):
            variants.append({'cfg': c['cfg'], 'outcomes': c['outcomes'][:cut], 'levels': dict(c.get('levels') or {})})
        for dn, dr in ((1, 0), (-1, 0), (0, 1), (0, -1)):
            cfg = dict(c['cfg'], N=max(1, c['cfg']['N'] + dn), retries=max(0, c['cfg']['retries'] + dr))
            variants.append({'cfg': cfg, 'outcomes': c['outcomes'], 'levels': dict(c.get('levels') or {})})
        for faulty in (False, True):
            check_cases(ck, variants, faulty, 'search')
            seen += len(variants)
    if seen:
        ck.notes.append('search after disagreement: %d extra oracle evaluations' % seen)
    ck.pending_search = []


def load_corpus(ck):
    d = os.path.join(lib.VERIF, 'harness', 'corpus', 'C04')
    out = []
    if os.path.isdir(d):
        import json
        for f in sorted(os.listdir(d)):
            if f.endswith('.json'):
                out.append((f, json.load(open(os.path.join(d, f)))))
    return out


def run_input(ck, inp, tag):
    if inp.get('kind') == 'cli-bytes':
        cli_bytes_case(ck, inp, tag)
    elif inp.get('kind') == 'session':
        check_shared(ck, inp['scn'], inp['sess'], tag)
    elif inp.get('kind') == 'runs':
        check_cases(ck, inp['cases'], inp.get('faulty', False), tag)
    else:
        check_cases(ck, [{'cfg': inp['cfg'], 'outcomes': inp['outcomes'], 'levels': inp.get('levels') or {},
                          'two_experiments': inp.get('two_experiments')}],
                    inp.get('faulty', False), tag)


def run(ck):
    try:  # translation tie broken -> directed search at the translated functions (RB.Proofs.GenC04b)
        from corr import gen_failure_class
        gen_failure_class.directed(ck)
    except ImportError:
        pass
    quick = ck.tier == 'quick'
    rng = ck.rng
    ck.pending_search = []
    ck.rule = ('(A) one run per case, many independent cases per real session (batch scheduler, scripted processes): '
               'all outcome sequences over {ok, exit!=0, unparsable, invalid marker, timeout} up to length %d and all '
               'success/failure sequences up to length %d (failure kind drawn at random), pruned at '
               'the point where the property says the run stops, x N in 1..%d x retries 0..3 x -f x ignore_timeouts; '
               'random sequences over 13 outcome kinds incl. 126 / 127 / OSError at every position; long sequences '
               'directed at the thresholds failed > 6 and samples > 10; (B) 2-4 runs sharing executables under batch / '
               'round-robin / random with 127 outcomes. non-trivial = at least two process starts (A) or a 127 present (B), '
               'distinct by configuration and consumed outcome prefix' % ((3, 5, 3) if quick else (4, 8, 4)))
    for name, data in load_corpus(ck):
        ck.count('corpus')
        run_input(ck, data['input'], 'corpus:' + name)
    queue_of(ck).flush()
    # (A1) exhaustive enumerations
    #  (a) kind level: every sequence over the five outcome kinds of the property up to length Lk
    #  (b) class level: every sequence over {success, failure} up to length Lc, each class instantiated by a
    #      randomly chosen outcome kind of that class (the retry rule depends on the classes only; the
    #      classification of every kind is exercised by (a) and by the random part)
    len_k, len_c = (3, 5) if quick else (4, 8)
    max_n = 3 if quick else 4
    total_k = total_c = 0
    for faulty in (False, True):
        for ig in (False, True):
            cases = []
            for n in range(1, max_n + 1):
                for retries in range(0, 4):
                    cfg = {'N': n, 'retries': retries, 'warmup': None, 'ignore_timeouts': ig}
                    seqs = maximal_prefixes(cfg, faulty, BASIC, len_k)
                    total_k += len(seqs)
                    for sq in seqs:
                        cases.append({'cfg': cfg, 'outcomes': [dict(KINDS[k]) for k in sq]})
                    oks = [k for k in KINDS if prop_class(KINDS[k], faulty, ig) == 'ok']
                    fails = [k for k in KINDS if prop_class(KINDS[k], faulty, ig) == 'fail']
                    for sq in class_prefixes(cfg, len_c):
                        total_c += 1
                        cases.append({'cfg': cfg, 'outcomes': [dict(KINDS[rng.choice(oks if c == 'ok' else fails)])
                                                               for c in sq]})
            for i in range(0, len(cases), 150):
                check_cases(ck, cases[i:i + 150], faulty, 'enum')
    ck.exhaustive = True
    ck.notes.append('exhaustive: %d pruned sequences over the 5 outcome kinds up to length %d, %d pruned '
                    'success/failure sequences up to length %d (x N 1..%d x retries 0..3 x -f x ignore_timeouts)'
                    % (total_k, len_k, total_c, len_c, max_n))
    # (A2) random and threshold-directed
    n_rand = 600 if quick else 10000
    n_thr = 300 if quick else 5000
    if ck.gen_broken and quick:
        # the translation tie (tools/py2lean.py on termination_check.py, RB/Proofs/GenC04.lean) does not hold for
        # the current source: direct the search at the decision thresholds of the termination check
        n_rand, n_thr = 2400, 3000
        ck.count('directed-search:termination-check-thresholds')
    for faulty in (False, True):
        cases = ([random_case(rng) for _ in range(n_rand // 2)] + [threshold_case(rng) for _ in range(n_thr // 2)]
                 + [half_rule_case(rng) for _ in range(n_thr // 4)])
        # 127 / 126 / OSError at every position of a fixed pattern
        base = ['ok', 'exit', 'ok', 'unparsable', 'ok', 'ok']
        for pos in range(len(base) + 1):
            for special in ('nf127', 'nx126', 'oserror', 'nf127data'):
                seq = base[:pos] + [special] + base[pos:]
                cases.append({'cfg': {'N': 4, 'retries': 2, 'warmup': None, 'ignore_timeouts': False},
                              'outcomes': [dict(KINDS[k]) for k in seq]})
        for i in range(0, len(cases), 120):
            check_cases(ck, cases[i:i + 120], faulty, 'rand')
    # (B) shared executables
    for _ in range(80 if quick else 1500):
        scn, sess = shared_scenario(rng)
        check_shared(ck, scn, sess, 'shared')
    queue_of(ck).flush()
    cli_bytes_slice(ck)
    if ck.disagreements:
        search_neighbourhood(ck)


def cli_bytes_case(ck, inp, tag):
    """the real CLI in a child process, the real UI on a strict UTF-8 stdout, a real harness printing raw bytes"""
    import drive_cli_a as cli
    wd = _mkwd(ck)
    cfg = inp['cfg']
    plan = [(o['rc'], bytes(o.get('bytes') or []), o.get('dps', 0)) for o in inp['outcomes']]
    cli.write_harness(wd, {'B0': plan, 'B1': [(0, b'', 1)] * 3})
    conf = cli.base_config(wd, {'B0': {'N': cfg['N'], 'retries': cfg['retries'], 'exe': 0}, 'B1': {'N': 2, 'retries': 0, 'exe': 0}})
    obs = cli.run_cli(wd, conf)
    ck.impl_traces += 1
    ck.count('real-cli:bytes in harness output')
    outcomes = [{'rc': o['rc'], 'dps': o.get('dps', 0)} for o in inp['outcomes']]
    exp = prop_expect({'N': cfg['N'], 'retries': cfg['retries'], 'warmup': None, 'ignore_timeouts': False}, False, outcomes)
    got = [int(a[1]) for a in obs['starts'] if a[0] == 'B0']
    got1 = [int(a[1]) for a in obs['starts'] if a[0] == 'B1']
    ck.case(nontrivial_key=(tag, str(inp)), sample={'real_cli': True, 'starts': got, 'exit': obs['exit']})
    detail = {'exit': obs['exit'], 'starts_B0': got, 'expected_B0': exp['starts'], 'starts_B1': got1,
              'stderr': obs['stderr_tail'][-300:]}
    if obs['traceback'] or obs['exit'] not in (0, 1):
        ck.oracle_fail('session_ends_cleanly', inp, detail,
                       signature={'real_cli': True, 'exception': 'UnicodeEncodeError' if 'UnicodeEncodeError' in obs['stderr_tail'] else 'other'})
    elif got != exp['starts'] or got1 != [1, 2]:
        ck.oracle_fail('retry_rule', inp, detail, signature={'real_cli': True, 'what': 'starts'})
    else:
        invs = sorted(set(r[1] for r in obs['rows'] if r[0] == 'B0' and r[3] == 'total'))
        if invs != list(range(1, exp['recorded'] + 1)):
            ck.oracle_fail('records_numbering', inp, dict(detail, recorded=invs), signature={'real_cli': True})


def cli_bytes_slice(ck):
    import drive_cli_a as cli
    rng = ck.rng
    for i in range(3 if ck.tier == 'quick' else 20):
        texts = rng.sample(cli.BYTE_TEXTS[:3], 2) + [rng.choice(cli.BYTE_TEXTS)]
        n = rng.randint(1, 2)
        rest = [{'rc': 0, 'dps': 1, 'bytes': list(texts[2])}, {'rc': rng.choice([0, 3]), 'dps': 1, 'bytes': list(texts[1])},
                {'rc': 0, 'dps': 1}, {'rc': 0, 'dps': 1}]
        rng.shuffle(rest)
        # the first process fails and prints bytes that are not UTF-8: its output is shown, the run is retried
        outcomes = [{'rc': rng.choice([1, 2, -9 % 256]), 'dps': rng.choice([0, 1]), 'bytes': list(texts[0])}] + rest
        cli_bytes_case(ck, {'kind': 'cli-bytes', 'cfg': {'N': n, 'retries': rng.choice([1, 2, 3])}, 'outcomes': outcomes}, 'cli')


def replay(ck, data):
    ck.pending_search = []
    run_input(ck, data['input'], 'replay')
    queue_of(ck).flush()
