"""Directed search for the translation tie of the experiment selection and the exit status (RB.Proofs.GenC10, spec
lean/gen/cli_session.json).  `directed(ck)` does nothing while the tie holds.  When it is broken it runs the
definitions generated from the current `ReBench.determine_exp_name_and_filters` / `main_func` and the documented
ones side by side (`drivers/C10gen.lean`) on lists of positional arguments and on (result of run(), exception)
pairs, and puts every differing input (all inputs if the source is untranslatable) to the real functions and to the
property: the first argument names the experiment unless it starts with `e:` / `s:` / `t:`, every argument that does
is a filter; exit status 0 / 1 for run() true / false, 2 for an interrupt, 3 for a user-facing error, 4 for
exceptions of worker threads, anything else propagates.

Usable from C10:

    try:
        from corr import gen_cli; gen_cli.directed(ck)
    except ImportError:
        pass
"""
import contextlib
import io
import itertools

import lib

lib.use_repo()

MODULE = 'RB.Proofs.GenC10'
WORDS = ['Exp', 'all', 'nightly:x86', 'x:1', 'e:Vm', 's:Suite', 's:Suite:Bench', 't:tag', 'e', ':', 'es:1', 'E:Vm']
EXCS = [None, 'KeyboardInterrupt', 'UIError', 'BenchmarkThreadExceptions', 'ValueError']


def is_filter(a):
    return a.startswith('e:') or a.startswith('s:') or a.startswith('t:')


def documented_split(args):
    return {'name': args[0] if args and not is_filter(args[0]) else None, 'filters': [a for a in args if is_filter(a)]}


def real_split(args):
    from rebench.rebench import ReBench
    try:
        name, flt = ReBench.determine_exp_name_and_filters(list(args))
    except Exception as e:  # noqa
        return 'raised %s' % type(e).__name__
    return {'name': name, 'filters': list(flt)}


def documented_exit(b, exc):
    return {None: 0 if b else 1, 'KeyboardInterrupt': 2, 'UIError': 3, 'BenchmarkThreadExceptions': 4}.get(exc, 'raised ' + str(exc))


def real_exit(b, exc):
    from rebench import rebench as rb
    from rebench.output import UIError
    from rebench.executor import BenchmarkThreadExceptions
    make = {'KeyboardInterrupt': KeyboardInterrupt, 'UIError': lambda: UIError('message\n', None),
            'BenchmarkThreadExceptions': lambda: BenchmarkThreadExceptions([RuntimeError('in a thread')]),
            'ValueError': lambda: ValueError('other')}

    class Stub(object):
        def run(self):
            if exc is not None:
                raise make[exc]()
            return b
    saved = rb.ReBench
    rb.ReBench = Stub
    try:
        with contextlib.redirect_stdout(io.StringIO()), contextlib.redirect_stderr(io.StringIO()):
            return rb.main_func()
    except BaseException as e:  # noqa
        return 'raised %s' % type(e).__name__
    finally:
        rb.ReBench = saved


def directed(ck, force=False):
    st = [e['status'] for e in getattr(ck, 'gen_entries', []) or [] if e['module'] == MODULE and e['status'] != 'ok']
    if not st and not force:
        return False
    arg_lists = [list(t) for n in (0, 1, 2) for t in itertools.product(WORDS, repeat=n)] + \
        [[a, b, c] for a in WORDS[:6] for b in WORDS[2:8] for c in WORDS[3:9]]
    exits = [(b, x) for b in (True, False) for x in EXCS]
    c_args, c_exits = arg_lists, exits
    if st and st[0].startswith('proof-broken'):
        try:
            ans = ck.model([{'op': 'c10.split_diff', 'args': a} for a in arg_lists] +
                           [{'op': 'c10.exit_diff', 'run': b, 'raised': x} for (b, x) in exits], driver='drivers/C10gen.lean')
            c_args = [a for a, r in zip(arg_lists, ans) if not r.get('same', True)]
            c_exits = [e for e, r in zip(exits, ans[len(arg_lists):]) if not r.get('same', True)]
            ck.notes.append('directed search (experiment selection / exit status): generated vs documented differ on %d of %d '
                            'argument lists and %d of %d outcomes' % (len(c_args), len(arg_lists), len(c_exits), len(exits)))
        except lib.InfraError as e:
            ck.notes.append('directed search (experiment selection / exit status): generated definition does not run (%s)'
                            % str(e)[:150])
    else:
        ck.notes.append('directed search (experiment selection / exit status): %s; %d argument lists and %d outcomes go to '
                        'the real functions' % ('source not translatable' if st else 'forced', len(arg_lists), len(exits)))
    ck.count('directed-search-candidates', len(c_args) + len(c_exits))
    for a in c_args:
        ck.case(nontrivial_key=('directed-split', tuple(a)))
        got, want = real_split(a), documented_split(a)
        if got != want:
            ck.oracle_fail('experiment_named_by_first_argument', {'directed': 'cli-split', 'args': a},
                           {'got': got, 'expected': want}, {'kind': 'split', 'first_is_name': bool(a and not is_filter(a[0]))})
    for (b, x) in c_exits:
        ck.case(nontrivial_key=('directed-exit', b, x))
        got, want = real_exit(b, x), documented_exit(b, x)
        if got != want:
            ck.oracle_fail('exit_status', {'directed': 'cli-exit', 'run_returns': b, 'raises': x},
                           {'got': got, 'expected': want}, {'kind': 'exit', 'raises': x})
    return bool(c_args or c_exits)
