"""C02 — effective settings follow the documented priority, '!' marks and CLI overrides.

Correspondence: the real `Configurator` compile (and, on a sample, whole
sessions) against `RB.Settings.compileRun`, for the complete table of
{absent, plain, marked}^7 assignments of invocations / iterations / warmup with
and without CLI overrides, all presence patterns of the other details and of
the variable lists, and random multi-executor / multi-suite configurations.
Oracle: the property's sentence as a Python function of the seven level values.
"""
import copy
import json
import os

import lib
import drive

LEVELS = ['machine', 'runs', 'experiment', 'execution', 'executor', 'suite', 'benchmark']
RAW3 = ['invocations', 'iterations', 'warmup']
PLAIN = ['min_iteration_time', 'max_invocation_time', 'ignore_timeouts', 'retries_after_failure',
         'execute_exclusively', 'env']
VARS = ['input_sizes', 'cores', 'variable_values', 'tags']
DEFAULTS = {'invocations': 1, 'iterations': 1, 'warmup': None, 'min_iteration_time': 50,
            'max_invocation_time': -1, 'ignore_timeouts': None, 'retries_after_failure': 0,
            'execute_exclusively': True, 'env': {}, 'input_sizes': [''], 'cores': [1],
            'variable_values': [''], 'tags': [None]}


def parse_raw(v):
    """YAML value of invocations/iterations/warmup -> ('p'|'m', n)"""
    if isinstance(v, int):
        return ('p', v)
    s = str(v)
    if s.endswith('!'):
        return ('m', int(s[:-1]))
    return ('p', int(s))


def differs(setting, a, b):
    """variable lists are compared with their types and spelling (1, 1.0 and True are different values of a
    list that goes onto command lines); everything else with Python's =="""
    if setting in VARS:
        return json.dumps(a, sort_keys=True, default=str) != json.dumps(b, sort_keys=True, default=str)
    return a != b


class Codes(object):
    """opaque values <-> Nat codes for the model"""
    def __init__(self):
        self.tab = {}
        self.rev = []

    def code(self, v):
        k = json.dumps(v, sort_keys=True)
        if k not in self.tab:
            self.tab[k] = len(self.rev)
            self.rev.append(v)
        return self.tab[k]

    def value(self, c):
        return self.rev[c]


def level_op(levels, codes):
    """levels: list of 7 dicts setting->yaml value (absent key = not defined)"""
    out = []
    for lv in levels:
        o = {}
        for k in RAW3:
            if k in lv:
                t, n = parse_raw(lv[k])
                o[k] = {t: n}
        for k in PLAIN + VARS:
            if k in lv:
                o[k] = codes.code(lv[k])
        out.append(o)
    return out


def defaults_op(codes):
    o = {}
    for k in RAW3:
        if DEFAULTS[k] is not None:
            o[k] = {'p': DEFAULTS[k]}
    for k in PLAIN + VARS:
        if DEFAULTS[k] is not None:
            o[k] = codes.code(DEFAULTS[k])
    return o


def oracle_effective(levels, inv_o, it_o):
    """the property's sentence, directly"""
    res = {}
    for k in RAW3:
        ov = {'invocations': inv_o, 'iterations': it_o, 'warmup': None}[k]
        if ov is not None:
            res[k] = ov
            continue
        marked = [parse_raw(lv[k])[1] for lv in levels if k in lv and parse_raw(lv[k])[0] == 'm']
        defined = [parse_raw(lv[k])[1] for lv in levels if k in lv]
        if marked:
            res[k] = marked[-1]       # highest-priority marked level (levels are low -> high)
        elif defined:
            res[k] = defined[-1]
        else:
            res[k] = DEFAULTS[k]
    for k in PLAIN + VARS:
        ls = levels if k not in VARS else [lv for i, lv in enumerate(levels) if LEVELS[i] != 'runs']
        defined = [lv[k] for lv in ls if k in lv]
        res[k] = defined[-1] if defined else DEFAULTS[k]
    return res


# ------------------------------------------------------------------ configurations
def exp_name(x):
    return 'testExp' if x == 0 else 'testExp%d' % x


def base_config(n_exec=1, n_suite=1, n_bench=1, n_exp=1):
    cfg = {
        'benchmark_suites': {}, 'machines': {'m': {}}, 'executors': {},
        'experiments': {exp_name(x): {'suites': [], 'executions': []} for x in range(n_exp)},
    }
    for s in range(n_suite):
        cfg['benchmark_suites']['S%d' % s] = {
            'gauge_adapter': 'RebenchLog', 'command': 'cmd %(benchmark)s it=%(iterations)s wu=%(warmup)s',
            'benchmarks': [{'B%d' % b: {}} for b in range(n_bench)]}
        for x in range(n_exp):
            cfg['experiments'][exp_name(x)]['suites'].append('S%d' % s)
    for e in range(n_exec):
        cfg['executors']['E%d' % e] = {'path': '.', 'executable': 'exe%d' % e}
        for x in range(n_exp):
            cfg['experiments'][exp_name(x)]['executions'].append({'E%d' % e: {}})
    return cfg


def level_dicts(cfg, e, s, b, x=0):
    """the seven dicts of the raw configuration that apply to the run (executor e, suite s, bench b) of experiment x"""
    exp = cfg['experiments'][exp_name(x)]
    runs = cfg.setdefault('runs', {})
    return [cfg['machines']['m'], runs, exp, exp['executions'][e]['E%d' % e],
            cfg['executors']['E%d' % e], cfg['benchmark_suites']['S%d' % s],
            cfg['benchmark_suites']['S%d' % s]['benchmarks'][b]['B%d' % b]]


def value_for(setting, level_idx, rng, salt=0):
    k = level_idx
    if setting in RAW3:
        return None  # handled by caller
    if setting == 'min_iteration_time':
        return 100 + k + 10 * salt
    if setting == 'max_invocation_time':
        return rng.choice([1000 + k + 10 * salt, 1000 + k + 10 * salt, -1, 0])
    if setting == 'ignore_timeouts':
        return rng.choice([True, False])
    if setting == 'retries_after_failure':
        return rng.choice([20 + k + 10 * salt, 20 + k, 0])
    if setting == 'execute_exclusively':
        return rng.choice([True, False])
    if setting == 'env':
        return rng.choice([{'LVL': 'l%d_%d' % (k, salt)}, {'LVL': 'l%d' % k, 'X': 'y'}, {}])
    if setting in ('input_sizes', 'variable_values', 'cores') and rng.random() < 0.3:
        # lists that are equal under Python's == but differ in type / spelling (1 == 1.0 == True): the level's own
        # list has to arrive, not an equal one from another level or the built-in default `cores: [1]`
        if setting == 'cores':
            return [1.0] if k % 2 else [True]
        return [[1, 2], [1.0, 2.0], [True, 2]][k % 3]
    if setting == 'input_sizes':
        return rng.choice([[k + 10 * salt], [k, 100 + k], ['s%d' % k]] + ([[]] if rng.random() < 0.25 else []))
    if setting == 'cores':
        return rng.choice([[k + 1 + 10 * salt], [k + 1, 50 + k]] + ([[]] if rng.random() < 0.25 else []))
    if setting == 'variable_values':
        return rng.choice([['v%d_%d' % (k, salt)], ['v%d' % k, 'w%d' % k]] + ([[]] if rng.random() < 0.25 else []))
    if setting == 'tags':
        return rng.choice([['t%d_%d' % (k, salt)], ['t%d' % k, 'u%d' % k]] + ([[]] if rng.random() < 0.25 else []))
    raise KeyError(setting)


def raw_value(state, level_idx, rng, salt=0):
    """state 0 absent, 1 plain, 2 marked"""
    n = 10 + level_idx + 20 * salt
    if state == 1:
        # 0 is a defined value like any other (`warmup: 0` switches a lower level's warm-up off)
        return rng.choice([n, str(n), n, str(n), 0, '0'])
    return rng.choice(['%d!' % n, '%d!' % n, '%d!' % n, '0!'])


def digits3(a):
    out = []
    for _ in range(7):
        out.append(a % 3)
        a //= 3
    return out


CLI_VARIANTS = [[], ['-in', '77', '-it', '88'], ['-q'], ['--setup-only'], ['-in', '77'], ['-it', '88']]


def overrides_of(cli):
    inv = it = None
    if '-in' in cli:
        inv = int(cli[cli.index('-in') + 1])
    if '-it' in cli:
        it = int(cli[cli.index('-it') + 1])
    if '-q' in cli or '--setup-only' in cli:
        inv = it = 1
    return inv, it


_parser = None


def compile_config(cfg, cli):
    from rebench.configurator import Configurator
    from rebench.persistence import DataStore
    from rebench.rebench import ReBench
    from rebench.ui import TestDummyUI
    global _parser
    if _parser is None:
        _parser = ReBench().shell_options()
    args = _parser.parse_args(['-D'] + cli + ['dummy.conf'])
    ui = TestDummyUI()
    # the compile mutates nothing in raw config except env expansion on access; hand it a deep copy anyway
    cnf = Configurator(copy.deepcopy(cfg), DataStore(ui), ui, args, None,
                       'testExp' if len(cfg['experiments']) == 1 else 'all', None, None, [], 'm')
    return cnf


def observe_run(run):
    b = run.benchmark
    return {
        'invocations': run.invocations, 'iterations': run.iterations, 'warmup': run.warmup_iterations,
        'min_iteration_time': run.min_iteration_time, 'max_invocation_time': run.max_invocation_time,
        'ignore_timeouts': run.ignore_timeouts, 'retries_after_failure': run.retries_after_failure,
        'execute_exclusively': run.execute_exclusively, 'env': dict(b.run_details.env) if b.run_details.env is not None else None,
        'input_sizes': list(b.variables.input_sizes), 'cores': list(b.variables.cores),
        'variable_values': list(b.variables.variable_values), 'tags': list(b.variables.tags),
    }


class Batch(object):
    """collects (config, cli) cases, runs impl, model and oracle, reports"""
    def __init__(self, ck):
        self.ck = ck
        self.items = []

    def add(self, cfg, cli, paths, kind):
        self.items.append((cfg, cli, paths, kind))

    def flush(self):
        ck = self.ck
        ops, metas = [], []
        for (cfg, cli, paths, kind) in self.items:
            inv_o, it_o = overrides_of(cli)
            try:
                cnf = compile_config(cfg, cli)
                runs = list(cnf.get_runs()) if '--setup-only' not in cli else \
                    list(set().union(*[e.runs for e in cnf.get_experiments().values()]))
                crash = None
            except Exception as e:  # noqa
                runs, crash = [], '%s: %s' % (type(e).__name__, e)
            by_path = {}
            if crash is None:
                for x in range(len(cfg['experiments'])):
                    for r in cnf.get_experiments()[exp_name(x)].runs:
                        p = (int(r.benchmark.suite.executor.name[1:]), int(r.benchmark.suite.name[1:]),
                             int(r.benchmark.name[1:]))
                        by_path.setdefault(p + ((x,) if len(cfg['experiments']) > 1 else ()), []).append(r)
            for p in paths:
                levels = [dict(d) for d in level_dicts(cfg, *p)]
                codes = Codes()
                ops.append({'op': 'c02.compile', 'levels': level_op(levels, codes), 'defaults': defaults_op(codes),
                            'invocations_override': inv_o, 'iterations_override': it_o})
                metas.append((cfg, cli, p, kind, levels, codes, by_path.get(p, []), crash))
        self.items = []
        answers = ck.model(ops)
        for (cfg, cli, p, kind, levels, codes, runs, crash), ans in zip(metas, answers):
            inv_o, it_o = overrides_of(cli)
            inp = {'levels(low->high)': dict(zip(LEVELS, levels)), 'cli': cli, 'path(executor,suite,bench)': list(p)}
            ck.count('kind:' + kind)
            ck.count('cli:' + (' '.join(cli) or 'none'))
            for k in RAW3:
                st = ''.join('apm'[0 if k not in lv else (1 if parse_raw(lv[k])[0] == 'p' else 2)] for lv in levels)
                ck.count('%s:%d-marked' % (k, st.count('m')))
            n_def = sum(1 for lv in levels for k in lv)
            ck.case(nontrivial_key=json.dumps([levels, cli], sort_keys=True, default=str) if n_def >= 2 else None,
                    sample={'levels': dict(zip(LEVELS, levels)), 'cli': cli})
            want0 = oracle_effective(levels, inv_o, it_o)
            if not crash and any(len(want0[k]) == 0 for k in VARS):
                # an explicitly empty variable list at the winning level: no run for this benchmark
                ck.count('empty-variable-list')
                if runs:
                    ck.oracle_fail('empty_list_means_no_runs', inp, {'runs': len(runs)}, {'setting': 'variables'})
                continue
            if crash or not runs:
                ck.disagree('c02.compile: real Configurator produced no run for the path', inp,
                            {'crash': crash, 'runs': len(runs)}, ans)
                ck.oracle_fail('compiles', inp, {'crash': crash, 'runs': len(runs)}, {'crash': (crash or '')[:40]})
                continue
            model = {}
            for k in RAW3:
                model[k] = ans[k]
            for k in PLAIN + VARS:
                model[k] = None if ans[k] is None else codes.value(ans[k])
            want = oracle_effective(levels, inv_o, it_o)
            obs_all = [observe_run(r) for r in runs]
            for obs in obs_all[:1] + ([obs_all[-1]] if len(obs_all) > 1 else []):
                bad_m = [k for k in model if obs[k] != model[k] or type(obs[k]) is not type(model[k]) and not
                         (isinstance(obs[k], (int, bool)) and isinstance(model[k], (int, bool)) and obs[k] == model[k])]
                bad_m = [k for k in model if differs(k, obs[k], model[k])]
                if bad_m:
                    ck.disagree('c02.compile: RunId accessors vs RB.Settings.compileRun', inp,
                                {k: obs[k] for k in bad_m}, {k: model[k] for k in bad_m})
                for k in want:
                    if differs(k, obs[k], want[k]):
                        ck.oracle_fail('effective_' + k, inp, {'setting': k, 'effective': obs[k], 'expected': want[k]},
                                       {'setting': k})
            # the cross product of the effective lists gives the runs of this benchmark
            n_expected = 1
            for k in VARS:
                n_expected *= len(want[k])
            if '--setup-only' not in cli and len(runs) != n_expected:
                ck.oracle_fail('runs_per_benchmark', inp, {'runs': len(runs), 'expected': n_expected})


def exhaustive_tables(ck, batch, fraction):
    """all 3^7 assignments for each of invocations/iterations/warmup (bijective re-indexing packs the three
    tables into one pass), each with and without CLI override; presence patterns of the other settings"""
    rng = ck.rng
    N = 3 ** 7
    idxs = list(range(N))
    if fraction < 1.0:
        rng.shuffle(idxs)
        idxs = idxs[:int(N * fraction)]
    for a in idxs:
        cfg = base_config()
        levels = level_dicts(cfg, 0, 0, 0)
        st = {'invocations': digits3(a), 'iterations': digits3((a + 1000) % N), 'warmup': digits3((a * 2 + 1) % N)}
        for k in RAW3:
            for i in range(7):
                if st[k][i]:
                    levels[i][k] = raw_value(st[k][i], i, rng)
        # presence patterns for the other settings: 13 bits per level taken from a hash of a
        for j, k in enumerate(PLAIN + VARS):
            pat = (a * (2 * j + 3) + 7 * j) % 128
            for i in range(7):
                if (pat >> i) & 1:
                    if k in VARS and LEVELS[i] == 'runs':
                        continue  # the schema has no variable lists under `runs:`
                    levels[i][k] = value_for(k, i, rng)
        batch.add(cfg, [], [(0, 0, 0)], 'table')
        cli = [['-in', '77', '-it', '88'], ['-q'], ['--setup-only']][a % 3] if a % 2 == 0 else \
            [['-in', '77'], ['-it', '88'], ['-q']][a % 3]
        batch.add(cfg, cli, [(0, 0, 0)], 'table+cli')
        if len(batch.items) >= 400:
            batch.flush()
    batch.flush()


def random_configs(ck, batch, n):
    rng = ck.rng
    for _ in range(n):
        ne, ns, nb = rng.randint(1, 2), rng.randint(1, 2), rng.randint(1, 2)
        nx = 2 if rng.random() < 0.35 else 1     # the same executors and suites used by two experiments
        cfg = base_config(ne, ns, nb, nx)
        paths = [(e, s, b) + ((x,) if nx > 1 else ()) for x in range(nx) for e in range(ne) for s in range(ns)
                 for b in range(nb)]
        seen = set()
        bare = set()
        # experiments that agree in every run detail and differ only in their variable lists
        vars_only = nx > 1 and rng.random() < 0.5
        for p in paths:
            for i, d in enumerate(level_dicts(cfg, *p)):
                if id(d) in seen:
                    continue
                seen.add(id(d))
                salt = len(seen)
                if LEVELS[i] in ('benchmark', 'execution') and rng.random() < 0.4:
                    bare.add(id(d))      # an entry without any details of its own ({} behaves like a plain name)
                    continue
                for k in RAW3:
                    r = rng.random()
                    if vars_only:
                        continue
                    if r < 0.35:
                        d[k] = raw_value(1, i, rng, salt)
                    elif r < 0.55:
                        d[k] = raw_value(2, i, rng, salt)
                for k in PLAIN + VARS:
                    if k in VARS and LEVELS[i] == 'runs':
                        continue
                    if vars_only and (k in PLAIN or LEVELS[i] not in ('experiment', 'execution', 'machine')):
                        continue
                    if rng.random() < (0.5 if vars_only else 0.3):
                        d[k] = value_for(k, i, rng, salt)
        batch.add(cfg, rng.choice(CLI_VARIANTS), paths, 'random-multi')
        if len(batch.items) >= 200:
            batch.flush()
    batch.flush()


def sessions(ck, n):
    """whole sessions: process starts per run = effective invocations; %(iterations)s / %(warmup)s in the
    executed command; runDetails in the '# benchmark:' record"""
    rng = ck.rng
    for i in range(n):
        cfg = base_config(1, 1, 1)
        cfg['default_experiment'] = 'testExp'
        cfg['default_data_file'] = 't.data'
        levels = level_dicts(cfg, 0, 0, 0)
        for k in RAW3:
            for j in range(7):
                r = rng.random()
                top = {'invocations': 4, 'iterations': 9, 'warmup': 3}[k]
                if r < 0.3:
                    levels[j][k] = rng.randint(1, top)
                elif r < 0.45:
                    levels[j][k] = '%d!' % rng.randint(1, top)
        if i % 3 == 0:
            # only the selected machine defines the settings: what `-m` on the real command line has to deliver
            for k in RAW3:
                for j in range(1, 7):
                    levels[j].pop(k, None)
                levels[0][k] = rng.choice([2, 3, '2!', '3!'])
        cli = rng.choice([[], [], ['-in', '2'], ['-it', '5'], ['-q']])
        inv_o, it_o = overrides_of(cli)
        want = oracle_effective([dict(d) for d in levels], inv_o, it_o)
        wd = os.path.join(ck.scratch, 's%d' % i)
        os.makedirs(wd)
        conf = drive.write_config(wd, cfg)

        def script(rec, want=want):
            its = max(1, (want['iterations'] or 1))
            return drive.Outcome(0, ''.join('B: iterations=1 runtime: %dus\n' % (1000 + q) for q in range(its)))
        r = drive.run_session(wd, cli + ['-m', 'm', conf], script)
        ck.impl_traces += 1
        inp = {'levels(low->high)': dict(zip(LEVELS, [dict(d) for d in levels])), 'cli': cli, 'session': True}
        if i % 5 == 0:
            # a machine that the configuration does not define is a usage error, never silently ignored
            ru = drive.run_session(wd, cli + ['-m', 'no-such-machine', conf], script)
            ck.impl_traces += 1
            if ru.crash or ru.exit == 0 or ru.starts:
                ck.oracle_fail('unknown_machine_rejected', dict(inp, machine='no-such-machine'),
                               {'status': ru.status(), 'starts': len(ru.starts)}, {'setting': 'machine'})
        ck.case(nontrivial_key='sess' + json.dumps(inp, sort_keys=True, default=str), sample=None)
        ck.count('kind:session')
        if r.crash or r.exit not in (0,):
            ck.disagree('c02.session: session did not complete', inp, {'status': r.status(), 'crash': r.crash,
                                                                       'out': r.stdout[-300:]}, None)
            continue
        if len(r.starts) != want['invocations']:
            ck.oracle_fail('process_starts_equal_invocations', inp,
                           {'starts': len(r.starts), 'expected': want['invocations']}, {'setting': 'invocations'})
        for s in r.starts:
            if ('it=%s' % want['iterations']) not in s['args'] or ('wu=%s' % want['warmup']) not in s['args']:
                ck.oracle_fail('placeholders_carry_effective_values', inp,
                               {'args': s['args'], 'iterations': want['iterations'], 'warmup': want['warmup']},
                               {'setting': 'iterations/warmup'})
                break
        df = drive.read_data_file(os.path.join(wd, 't.data'))
        if df['bench_meta']:
            rd = df['bench_meta'][0][1]['runDetails']
            got = (rd.get('invocations'), rd.get('iterations'), rd.get('warmup'))
            if got != (want['invocations'], want['iterations'], want['warmup']):
                ck.oracle_fail('metadata_record_runDetails', inp, {'recorded': got, 'expected': [want[k] for k in RAW3]},
                               {'setting': 'metadata'})
        else:
            ck.oracle_fail('metadata_record_present', inp, {'comments': df['comments'][:3]})


def directed_search(ck):
    """the translation tie (RB.Proofs.GenC02) no longer checks: find Python values on which the definitions
    generated from the current source and the settings model differ, then put exactly those to the real
    functions and to the property (highest-priority marked value, else highest-priority defined value)"""
    import rebench.model as rm
    cands = []
    if (ck.gen_broken or '').startswith('proof-broken'):
        vals = [None, 0, 1, 3, 12, '0', '3', '12', '0!', '3!', '12!', '7!']
        pairs = [(v, d) for v in vals for d in vals]
        try:
            answers = ck.model([{'op': 'c02.gen_diff', 'val': v, 'default': d} for (v, d) in pairs],
                               driver='drivers/C02gen.lean')
            cands = [pr for pr, a in zip(pairs, answers) if not a.get('same', True)]
            ck.notes.append('directed search: generated vs model differ on %d of %d (value, default) pairs'
                            % (len(cands), len(pairs)))
        except lib.InfraError as e:
            ck.notes.append('directed search: generated definitions do not run (%s)' % str(e)[:200])
    ck.count('directed-search-candidates', len(cands))
    for (v, d) in cands[:200]:
        inp = {'levels(low->high)': {'lower level': d, 'higher level': v}, 'directed': True}
        ck.case(nontrivial_key=('directed', str(v), str(d)), sample=None)
        # the property on two levels
        marked = [x for x in (d, v) if isinstance(x, str) and x.endswith('!')]
        defined = [x for x in (d, v) if x is not None]
        want = marked[-1] if marked else (defined[-1] if defined else None)
        want_n = None if want is None else int(str(want).rstrip('!'))
        try:
            got = rm.remove_important(rm.prefer_important(v, d))
        except Exception as e:  # noqa
            got = 'raised %s' % type(e).__name__
        if got != want_n:
            ck.oracle_fail('effective_value_two_levels', inp, {'reported': got, 'expected': want_n},
                           {'kind': 'prefer_important'})
    return bool(cands)


def run(ck):
    quick = ck.tier == 'quick'
    if ck.gen_broken:
        directed_search(ck)
    ck.rule = ('complete table {absent,plain,marked}^7 for invocations/iterations/warmup (three tables packed by '
               'bijective re-indexing), each assignment compiled without and with a CLI override (-in/-it/-q/'
               '--setup-only); presence patterns over the 7 levels for every other detail and variable list; random '
               'configurations with 1-2 executors x suites x benchmarks; a sample of whole sessions. Non-trivial = at '
               'least two level entries defined; distinct by (levels, cli).')
    ck.assumptions = ['values other than YAML ints / digit strings / "n!" strings for invocations, iterations, warmup '
                      '(null, "", floats) are excluded here (hypothesis WellTyped); they are C19\'s subject']
    batch = Batch(ck)
    exhaustive_tables(ck, batch, 1.0)
    ck.exhaustive = True
    ck.extra_cov['exhaustive_part'] = 'all 3^7 assignments x {no override, override} for each of invocations, iterations, warmup'
    random_configs(ck, batch, 300 if quick else 6000)
    sessions(ck, 25 if quick else 300)


def replay(ck, data):
    inp = data['input']
    levels = [inp['levels(low->high)'][k] for k in LEVELS]
    cfg = base_config()
    for d, lv in zip(level_dicts(cfg, 0, 0, 0), levels):
        d.update(lv)
    batch = Batch(ck)
    batch.add(cfg, inp.get('cli', []), [(0, 0, 0)], 'replay')
    batch.flush()
